"""
Demo for variant a (C05): associating two trajectories with a non-zero time
offset must return *unmodified* copies of input poses (pose and timestamp
together) and must leave the inputs of the sync functions untouched.

run: cd /tmp/seed4/C05 && /venv/bin/python /tmp/seed4_out/C05/demo_a.py
"""
import os
import sys

sys.path.insert(0, os.getcwd())

import numpy as np

from evo.core import lie_algebra as lie
from evo.core import sync
from evo.core.trajectory import PoseTrajectory3D


def make_traj(stamps, seed):
    np.random.seed(seed)
    return PoseTrajectory3D(poses_se3=[lie.random_se3() for _ in stamps],
                            timestamps=np.array(stamps, dtype=float))


def check_pairs(name, traj_in, traj_out):
    """every returned (timestamp, pose) must be an exact copy of an input"""
    in_stamps = list(traj_in.timestamps)
    for k, (t, pose) in enumerate(zip(traj_out.timestamps,
                                      traj_out.poses_se3)):
        assert t in in_stamps, (
            "{}: returned timestamp #{} = {!r} is not a timestamp of the "
            "input trajectory (first input stamps: {})".format(
                name, k, t, in_stamps[:3]))
        idx = in_stamps.index(t)
        assert np.array_equal(pose, traj_in.poses_se3[idx]), (
            "{}: returned pose #{} is not the input pose with the same "
            "timestamp".format(name, k))


def main():
    t0 = 1.5e9
    offset = 0.25  # seconds, clock offset of the second trajectory
    stamps_long = t0 + 0.05 * np.arange(200)
    stamps_short = t0 + 0.1 * np.arange(60) + 1.0

    for sign in (+1.0, -1.0):
        off = sign * offset
        # --- first trajectory is the longer one -------------------------
        traj_1 = make_traj(stamps_long, 1)
        traj_2 = make_traj(stamps_short - off, 2)
        stamps_1_before = traj_1.timestamps.copy()
        stamps_2_before = traj_2.timestamps.copy()
        out_1, out_2 = sync.associate_trajectories(traj_1, traj_2,
                                                   max_diff=0.01,
                                                   offset_2=off)
        assert out_1.num_poses == out_2.num_poses == 60, (out_1.num_poses,
                                                          out_2.num_poses)
        assert np.array_equal(traj_1.timestamps, stamps_1_before)
        assert np.array_equal(traj_2.timestamps, stamps_2_before)
        worst = np.max(np.abs(out_1.timestamps - (out_2.timestamps + off)))
        assert worst <= 0.01, (
            "first longer, offset {:+.2f}: returned pair with |t1 - (t2 + "
            "offset)| = {} > max_diff (returned timestamps were "
            "shifted?)".format(off, worst))
        check_pairs("first longer, offset %+.2f, traj_1" % off, traj_1, out_1)
        check_pairs("first longer, offset %+.2f, traj_2" % off, traj_2, out_2)

        # --- second trajectory is the longer one ------------------------
        traj_1 = make_traj(stamps_short, 3)
        traj_2 = make_traj(stamps_long - off, 4)
        out_1, out_2 = sync.associate_trajectories(traj_1, traj_2,
                                                   max_diff=0.01,
                                                   offset_2=off)
        assert out_1.num_poses == out_2.num_poses == 60
        worst = np.max(np.abs(out_1.timestamps - (out_2.timestamps + off)))
        assert worst <= 0.01, (
            "second longer, offset {:+.2f}: returned pair with |t1 - (t2 + "
            "offset)| = {} > max_diff (returned timestamps were "
            "shifted?)".format(off, worst))
        check_pairs("second longer, offset %+.2f, traj_1" % off, traj_1,
                    out_1)
        check_pairs("second longer, offset %+.2f, traj_2" % off, traj_2,
                    out_2)

        # --- the plain index search must not touch its arguments ---------
        s_1 = stamps_short.copy()
        s_2 = stamps_long - off
        s_2_before = s_2.copy()
        ids_1, ids_2 = sync.matching_time_indices(s_1, s_2, max_diff=0.01,
                                                  offset_2=off)
        assert len(ids_1) == len(ids_2) == 60
        assert np.array_equal(s_2, s_2_before), (
            "matching_time_indices modified its stamps_2 argument "
            "(shifted by {})".format((s_2 - s_2_before)[0]))

    print("demo_a: OK")


if __name__ == "__main__":
    main()
