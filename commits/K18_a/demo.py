"""
C18 / variant a: 'evo_config set' must keep the type of every parameter.

The words "none" / "[]" empty a *list* parameter. For any other parameter they
are ordinary values: a string parameter takes the word as its new string value
(plot_multi_cmap even has "none" as documented default / off value), and a
boolean parameter stays boolean.
"""
import os
import sys

sys.path.insert(0, os.getcwd())

import json
import shutil
import tempfile

tmp_home = tempfile.mkdtemp(prefix="c18a_home_")
os.environ["HOME"] = tmp_home
os.environ["USERPROFILE"] = tmp_home

try:
    from evo import main_config
    from evo.tools import settings
    from evo.tools.settings_template import DEFAULT_SETTINGS_DICT

    assert str(settings.DEFAULT_PATH).startswith(tmp_home), \
        "demo must not touch the real package settings"

    cfg = os.path.join(tmp_home, "cfg.json")

    def fresh():
        with open(cfg, "w") as f:
            json.dump(DEFAULT_SETTINGS_DICT, f)

    def load():
        with open(cfg) as f:
            return json.load(f)

    # 1) list parameter: "none" empties the list (unchanged behaviour).
    fresh()
    main_config.set_config(cfg, ["plot_statistics", "none"])
    assert load()["plot_statistics"] == [], load()["plot_statistics"]

    # 2) string parameter: switch the multi cmap on and off again with the
    #    documented value 'none'.
    fresh()
    main_config.set_config(cfg, ["plot_multi_cmap", "viridis"])
    main_config.set_config(cfg, ["plot_multi_cmap", "none"])
    after = load()
    assert set(after) == set(DEFAULT_SETTINGS_DICT), "key set changed"
    assert isinstance(after["plot_multi_cmap"], str), (
        "string parameter plot_multi_cmap became {!r} ({}) after "
        "'evo_config set plot_multi_cmap none'".format(
            after["plot_multi_cmap"],
            type(after["plot_multi_cmap"]).__name__))
    assert after["plot_multi_cmap"] == "none", after["plot_multi_cmap"]
    for key, default in DEFAULT_SETTINGS_DICT.items():
        if key != "plot_multi_cmap":
            assert after[key] == default, "unnamed key changed: " + key

    # 3) every non-list parameter keeps its type for the tokens "none" / "[]"
    #    (booleans stay boolean, strings stay strings).
    for token in ("none", "None", "[]"):
        for key, default in DEFAULT_SETTINGS_DICT.items():
            if isinstance(default, list) or key == "plot_seaborn_palette":
                continue
            fresh()
            main_config.set_config(cfg, [key, token])
            value = load()[key]
            if isinstance(default, bool):
                assert isinstance(value, bool), (
                    "boolean parameter {} became {!r} after 'set {} {}'".
                    format(key, value, key, token))
            else:
                assert not isinstance(value, list), (
                    "non-list parameter {} became the list {!r} after "
                    "'set {} {}'".format(key, value, key, token))
    print("OK: evo_config set keeps parameter types")
finally:
    shutil.rmtree(tmp_home, ignore_errors=True)
