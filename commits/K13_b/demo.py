"""
C13 demo b: evo_res --merge must concatenate arrays of unequal length in the
order in which the result files were given, and keep the info (and hence the
label) of the first given result.
Exits 0 if that holds for result files produced by evo's APE app, non-zero
otherwise.
"""
import os
import shutil
import sys
import tempfile

sys.path.insert(0, os.getcwd())

TMP = tempfile.mkdtemp(prefix="c13_demo_b_")
os.environ["HOME"] = TMP
os.environ["USERPROFILE"] = TMP


def main():
    import numpy as np
    import pandas as pd

    from evo import main_ape, main_res, main_res_parser
    from evo.core import metrics
    from evo.core.trajectory import PosePath3D
    from evo.tools import file_interface
    from evo.tools.settings import SETTINGS

    def path_traj(n, offset):
        xyz = np.zeros((n, 3))
        xyz[:, 0] = np.arange(n)
        xyz[:, 1] = offset
        quat = np.tile([1., 0., 0., 0.], (n, 1))
        return PosePath3D(positions_xyz=xyz, orientations_quat_wxyz=quat)

    # Two APE results with different numbers of poses.
    # "zulu" is given first on the command line, "alpha" second.
    res_zulu = main_ape.ape(path_traj(3, 0.), path_traj(3, 2.),
                            metrics.PoseRelation.translation_part,
                            ref_name="gt.txt", est_name="zulu_est.txt")
    res_alpha = main_ape.ape(path_traj(5, 0.), path_traj(5, 7.),
                             metrics.PoseRelation.translation_part,
                             ref_name="gt.txt", est_name="alpha_est.txt")
    file_zulu = os.path.join(TMP, "zulu.zip")
    file_alpha = os.path.join(TMP, "alpha.zip")
    file_interface.save_res_file(file_zulu, res_zulu)
    file_interface.save_res_file(file_alpha, res_alpha)
    expected_errors = [2.] * 3 + [7.] * 5

    def evo_res(table_path):
        argv = [
            file_zulu, file_alpha, "--merge", "--save_table", table_path,
            "--no_warnings", "--silent"
        ]
        main_res.run(main_res_parser.parser().parse_args(argv))
        return pd.read_csv(table_path, index_col=0)

    # 1) statistics table: a single row, labeled like the first result.
    stats = evo_res(os.path.join(TMP, "stats.csv"))
    assert len(stats.index) == 1, stats
    assert abs(stats["rmse"].iloc[0] - (2. + 7.) / 2) < 1e-9, stats
    assert stats.index[0] == "zulu_est.txt", \
        "merged result does not carry the info of the first given result " \
        "file (label {!r} instead of 'zulu_est.txt')".format(stats.index[0])

    # 2) raw values: concatenated in the order of the given files.
    SETTINGS.table_export_data = "error_array"
    errors = evo_res(os.path.join(TMP, "errors.csv"))
    values = errors.iloc[0].tolist()
    assert np.allclose(values, expected_errors), \
        "merged error_array is not the concatenation in input order:\n" \
        "expected {}\ngot      {}".format(expected_errors, values)
    print("OK: merged in input order")


try:
    main()
finally:
    shutil.rmtree(TMP, ignore_errors=True)
