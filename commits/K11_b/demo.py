"""
C11 / variant b: merging trajectories yields the time-sorted union in which
every pose keeps its own position, orientation and timestamp.
"""
import os
import sys

sys.path.insert(0, os.getcwd())

import numpy as np

from evo.core import lie_algebra as lie
from evo.core import trajectory
from evo.core.trajectory import PoseTrajectory3D


def make_traj(stamps, seed):
    rng = np.random.RandomState(seed)
    poses = [
        lie.se3(lie.so3_exp(rng.uniform(-1., 1., 3)), rng.uniform(-5., 5., 3))
        for _ in stamps
    ]
    # Construct from arrays so that no conversion happens inside merge().
    xyz = np.array([p[:3, 3] for p in poses])
    quat = trajectory.se3_poses_to_xyz_quat_wxyz(poses)[1]
    return PoseTrajectory3D(xyz, quat, np.array(stamps, dtype=float))


def rows(traj):
    return sorted(
        tuple(np.round(np.concatenate(([t], xyz, quat)), 9))
        for t, xyz, quat in zip(traj.timestamps, traj.positions_xyz,
                                traj.orientations_quat_wxyz))


def check(trajs, label):
    expected = sorted(r for t in trajs for r in rows(t))
    merged = trajectory.merge(trajs)
    total = sum(t.num_poses for t in trajs)
    assert np.all(np.diff(merged.timestamps) >= 0), \
        "{}: merged timestamps are not sorted".format(label)
    assert merged.num_poses == total == len(merged.timestamps), (
        "{}: merged trajectory has {} poses / {} timestamps, but the merged "
        "trajectories have {} poses in total - merge must return the union".
        format(label, merged.num_poses, len(merged.timestamps), total))
    assert rows(merged) == expected, (
        "{}: poses of the merged trajectory are not the union of the "
        "(timestamp, position, orientation) rows of the inputs".format(label))


def main():
    # disjoint, one after the other
    check([make_traj(np.arange(0, 10), 1),
           make_traj(np.arange(10, 20), 2)], "consecutive")
    # interleaved, no common timestamps
    check([make_traj(np.arange(0, 10, 1.0), 3),
           make_traj(np.arange(0.5, 10, 1.0), 4),
           make_traj(np.arange(0.25, 10, 1.0), 5)], "interleaved")
    # single trajectory
    check([make_traj(np.arange(0, 5) * 0.1, 6)], "single")
    # Two sensors on the same clock (exact grid): the 10 Hz trajectory shares
    # every second timestamp with the 20 Hz one, poses are different.
    check([make_traj(np.arange(0, 40) * 0.05, 7),
           make_traj(np.arange(0, 20) * 0.1, 8)], "common clock")
    # Consecutive recordings that share the boundary timestamp.
    check([make_traj([0., 1., 2., 3.], 9),
           make_traj([3., 4., 5.], 10),
           make_traj([5., 6.], 11)], "shared boundary stamps")
    print("demo_b: OK - merge returns the time-sorted union")


if __name__ == "__main__":
    main()
