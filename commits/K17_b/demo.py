"""
C17 demo (variant b): an existing file must never be replaced without a
confirmation prompt - no matter how the output path is spelled.

Output paths are given here in the notations that the shell does not expand
for the user (e.g. in --config .json files): "~/..." and "$VAR/...".
For every writer / output kind and a declined prompt (answer 'n'), the
pre-existing file that the notation refers to has to stay byte-identical.
(It is fine if evo fails to write to such a path - it must just not destroy
the existing file silently.)

Run:  cd /tmp/seed4/C17 && /venv/bin/python /tmp/seed4_out/C17/demo_b.py
"""
import os
import sys

sys.path.insert(0, os.getcwd())

import builtins
import shutil
import tempfile

_tmp_home = tempfile.mkdtemp(prefix="c17b_home_")
os.environ["HOME"] = _tmp_home
os.environ["MPLBACKEND"] = "Agg"

import matplotlib  # noqa: E402

matplotlib.use("Agg")

import numpy as np  # noqa: E402
import pandas as pd  # noqa: E402

import evo  # noqa: E402
from evo.core import result  # noqa: E402
from evo.core.trajectory import PoseTrajectory3D  # noqa: E402
from evo.tools import file_interface, pandas_bridge, plot  # noqa: E402
from evo import main_config  # noqa: E402

SENTINEL = b"precious user data - do not overwrite\n"


def make_traj():
    n = 10
    stamps = np.arange(n, dtype=float)
    xyz = np.column_stack((stamps * 0.1, np.zeros(n), np.zeros(n)))
    quat = np.tile([1.0, 0.0, 0.0, 0.0], (n, 1))
    return PoseTrajectory3D(xyz, quat, stamps)


def make_result():
    res = result.Result()
    res.add_info({"title": "demo", "est_name": "est", "ref_name": "ref"})
    res.add_stats({"rmse": 1.0, "mean": 0.5})
    res.add_np_array("error_array", np.arange(5, dtype=float))
    return res


def make_plot_collection():
    import matplotlib.pyplot as plt
    pc = plot.PlotCollection("demo")
    fig = plt.figure()
    fig.gca().plot([0, 1], [0, 1])
    pc.add_figure("raw", fig)
    return pc


def evo_config_generate(out_path):
    argv = sys.argv
    sys.argv = ["evo_config", "generate", "--out", out_path, "--flag", "1"]
    try:
        main_config.main()
    finally:
        sys.argv = argv


def main():
    print("evo imported from", evo.__file__)
    out_dir = tempfile.mkdtemp(prefix="c17b_out_")
    cwd_dir = tempfile.mkdtemp(prefix="c17b_cwd_")
    old_cwd = os.getcwd()
    os.environ["C17_OUT_DIR"] = out_dir
    traj, res, pc = make_traj(), make_result(), make_plot_collection()
    df = pd.DataFrame({"a": [1.0, 2.0], "b": [3.0, 4.0]})

    # (label, file name that is protected, callable(path_as_given_by_user))
    writers = [
        ("write_tum_trajectory_file", "traj.tum", "traj.tum",
         lambda p: file_interface.write_tum_trajectory_file(
             p, traj, confirm_overwrite=True)),
        ("write_kitti_poses_file", "traj.kitti", "traj.kitti",
         lambda p: file_interface.write_kitti_poses_file(
             p, traj, confirm_overwrite=True)),
        ("save_res_file", "res.zip", "res.zip",
         lambda p: file_interface.save_res_file(p, res,
                                                confirm_overwrite=True)),
        ("save_df_as_table", "table.csv", "table.csv",
         lambda p: pandas_bridge.save_df_as_table(
             df, p, format_str="csv", transpose=False,
             confirm_overwrite=True)),
        ("PlotCollection.serialize", "plots.pickle", "plots.pickle",
         lambda p: pc.serialize(p, confirm_overwrite=True)),
        ("PlotCollection.export (pdf)", "plots.pdf", "plots.pdf",
         lambda p: pc.export(p, confirm_overwrite=True)),
        ("PlotCollection.export (png)", "plots.png", "plots_raw.png",
         lambda p: pc.export(p, confirm_overwrite=True)),
        ("evo_config generate", "cfg.json", "cfg.json", evo_config_generate),
    ]
    notations = {
        "~": (_tmp_home, "~/{}"),
        "$VAR": (out_dir, "$C17_OUT_DIR/{}"),
        "${VAR}": (out_dir, "${{C17_OUT_DIR}}/{}"),
    }
    failures = []
    real_input = builtins.input
    try:
        os.chdir(cwd_dir)
        for notation, (real_dir, template) in notations.items():
            for label, given_name, written_name, write in writers:
                if notation == "~" and label == "save_df_as_table":
                    # Not part of this demo: pandas expands '~' on its own
                    # in DataFrame.to_csv(), which the unchanged tree does
                    # not account for either (see notes.md).
                    continue
                protected = os.path.join(real_dir, written_name)
                with open(protected, "wb") as f:
                    f.write(SENTINEL)
                prompts = []

                def fake_input(msg=""):
                    prompts.append(msg)
                    return "n"

                builtins.input = fake_input
                try:
                    write(template.format(given_name))
                    outcome = "returned"
                except BaseException as e:  # incl. SystemExit of the CLI
                    outcome = "raised " + type(e).__name__
                finally:
                    builtins.input = real_input
                with open(protected, "rb") as f:
                    unchanged = f.read() == SENTINEL
                print("{:8s} {:30s} {:26s} prompts={} unchanged={}".format(
                    notation, label, outcome, len(prompts), unchanged))
                if not unchanged:
                    failures.append(
                        "{} given as {!r}: existing file {} was replaced, "
                        "{} confirmation prompt(s) shown, answer 'n'".format(
                            label, template.format(given_name), protected,
                            len(prompts)))
    finally:
        builtins.input = real_input
        os.chdir(old_cwd)
        for d in (out_dir, cwd_dir, _tmp_home):
            shutil.rmtree(d, ignore_errors=True)
    assert not failures, "existing files were overwritten without " \
        "confirmation:\n  " + "\n  ".join(failures)
    print("OK: no existing file was replaced without confirmation")


if __name__ == "__main__":
    main()
