import os
import sys

sys.path.insert(0, os.getcwd())

import numpy as np
from scipy.spatial.transform import Rotation

"""
APE w.r.t. the rotation angle must be the geodesic angle of the relative
rotation est_i^-1 * ref_i, also for relative angles very close to 0 and to pi.

The estimate is constructed as  est_i = ref_i * exp(angle_i * axis_i), so the
true relative angle of every pose pair is known by construction.
"""


def main():
    from evo.core import metrics
    from evo.core.trajectory import PosePath3D

    rng = np.random.default_rng(42)
    angles = np.array([
        0.0, 1e-12, 1e-10, 1e-9, 1e-8, 1e-7, 1e-3, 1.0, np.pi - 1e-3,
        np.pi - 1e-7, np.pi - 1e-8
    ])
    n = len(angles)
    axes = rng.normal(size=(n, 3))
    axes /= np.linalg.norm(axes, axis=1)[:, np.newaxis]
    positions = rng.uniform(-100, 100, size=(n, 3))

    rot_ref = Rotation.random(n, random_state=7)
    rot_est = rot_ref * Rotation.from_rotvec(axes * angles[:, np.newaxis])

    def wxyz(rotations):
        return np.roll(rotations.as_quat(), 1, axis=1)

    def to_path(rotations):
        poses = []
        for r, t in zip(rotations.as_matrix(), positions):
            pose = np.eye(4)
            pose[:3, :3] = r
            pose[:3, 3] = t
            poses.append(pose)
        return PosePath3D(poses_se3=poses)

    traj_ref = to_path(rot_ref)
    traj_est = to_path(rot_est)

    for relation, factor in ((metrics.PoseRelation.rotation_angle_rad, 1.0),
                             (metrics.PoseRelation.rotation_angle_deg,
                              180.0 / np.pi)):
        ape = metrics.APE(relation)
        ape.process_data((traj_ref, traj_est))
        assert ape.error.shape == (n, )
        expected = angles * factor
        # 1e-14 rad absolute: accuracy of the matrix entries themselves,
        # 1e-5 relative: generous for a well conditioned logarithm
        tolerance = (1e-14 + 1e-5 * np.minimum(angles, np.pi - angles)) * factor
        deviation = np.abs(ape.error - expected)
        bad = np.where(deviation > tolerance)[0]
        assert bad.size == 0, (
            "APE ({}) is not the geodesic angle of the relative rotation:\n".
            format(relation.value) + "\n".join(
                "  pose {}: true angle {!r}, APE {!r}".format(
                    i, expected[i], ape.error[i]) for i in bad))

        # Swapping reference and estimate must not change the values.
        ape_swapped = metrics.APE(relation)
        ape_swapped.process_data((traj_est, traj_ref))
        assert np.all(
            np.abs(ape_swapped.error - expected) <= tolerance), \
            "swapped APE is not the geodesic angle"
    print("OK: rotation angle APE matches the true relative angles")


if __name__ == "__main__":
    main()
