"""
C14 demo (variant a): after project(), *every* observable representation of
the path (poses_se3, positions_xyz, orientations_quat_wxyz) must describe
poses that lie in the plane. Checked for paths that were created from
positions + quaternions (like every trajectory that is read from a file).
"""
import os
import sys

sys.path.insert(0, os.getcwd())

import numpy as np

import evo
from evo.core import lie_algebra as lie
from evo.core import transformations as tr
from evo.core.trajectory import Plane, PosePath3D, PoseTrajectory3D

print("evo from", evo.__file__)
np.random.seed(14)

NORMAL = {Plane.XY: 2, Plane.XZ: 1, Plane.YZ: 0}
N = 25


def random_xyz_quat(n):
    xyz = np.random.uniform(-10, 10, (n, 3))
    quat = np.array([
        tr.quaternion_from_matrix(lie.se3(lie.random_so3())) for _ in range(n)
    ])
    return xyz, quat


def check(traj, plane, xyz_before, label):
    n_dim = NORMAL[plane]
    in_plane = [d for d in range(3) if d != n_dim]
    assert traj.num_poses == N, f"{label}: pose count changed"
    # poses_se3
    for i, pose in enumerate(traj.poses_se3):
        assert lie.is_se3(pose), f"{label}: pose {i} is not SE(3)"
        assert pose[n_dim, 3] == 0, f"{label}: pose {i} not in plane"
        assert np.allclose(pose[in_plane, 3], xyz_before[i, in_plane],
                           atol=1e-12), f"{label}: in-plane position changed"
        rotvec = lie.so3_log(pose[:3, :3])
        assert np.allclose(rotvec[in_plane], 0, atol=1e-9), \
            f"{label}: rotation of pose {i} is not about the plane normal"
    # positions_xyz
    assert np.all(traj.positions_xyz[:, n_dim] == 0), \
        f"{label}: positions_xyz has out-of-plane coordinates"
    assert np.allclose(traj.positions_xyz[:, in_plane],
                       xyz_before[:, in_plane], atol=1e-12), \
        f"{label}: positions_xyz in-plane coordinates changed"
    # orientations_quat_wxyz: only w and the normal component may be non-zero
    quats = traj.orientations_quat_wxyz
    assert quats.shape == (N, 4), f"{label}: quaternion count changed"
    off_axis = np.abs(quats[:, [1 + d for d in in_plane]]).max()
    assert off_axis < 1e-9, (
        f"{label}: orientations_quat_wxyz is not a pure rotation about the "
        f"{'xyz'[n_dim]} axis after project({plane.value}) "
        f"(max off-axis quaternion component {off_axis:.3g})")
    # ... and it has to be the same rotation as in poses_se3.
    for i, (q, pose) in enumerate(zip(quats, traj.poses_se3)):
        assert np.allclose(tr.quaternion_matrix(q)[:3, :3], pose[:3, :3],
                           atol=1e-9), \
            f"{label}: quaternion {i} disagrees with poses_se3 after project"


for plane in Plane:
    # 1) path from positions + quaternions
    xyz, quat = random_xyz_quat(N)
    path = PosePath3D(positions_xyz=xyz, orientations_quat_wxyz=quat)
    path.project(plane)
    check(path, plane, xyz, f"PosePath3D(xyz, quat) / {plane.value}")

    # 2) trajectory from positions + quaternions + stamps
    xyz, quat = random_xyz_quat(N)
    stamps = np.arange(N, dtype=float)
    traj = PoseTrajectory3D(xyz, quat, stamps)
    traj.project(plane)
    check(traj, plane, xyz, f"PoseTrajectory3D(xyz, quat, t) / {plane.value}")
    assert np.array_equal(traj.timestamps, stamps), "timestamps changed"

    # 3) path from SE(3) poses whose quaternions were looked at before
    poses = [lie.random_se3() for _ in range(N)]
    xyz = np.array([p[:3, 3] for p in poses])
    path = PosePath3D(poses_se3=poses)
    _ = path.orientations_quat_wxyz
    _ = path.positions_xyz
    path.project(plane)
    check(path, plane, xyz, f"PosePath3D(poses_se3), accessed / {plane.value}")

    # 4) path from SE(3) poses, nothing looked at before
    poses = [lie.random_se3() for _ in range(N)]
    xyz = np.array([p[:3, 3] for p in poses])
    path = PosePath3D(poses_se3=poses)
    path.project(plane)
    check(path, plane, xyz, f"PosePath3D(poses_se3) / {plane.value}")

print("OK: projected paths are planar in all representations")
