"""
C20 / variant b: the per-axis position and roll/pitch/yaw plots show the
quantities against the timestamps shifted by the given start time, or against
the pose index if the trajectory has no timestamps.
Run: cd /tmp/seed4/C20 && /venv/bin/python /tmp/seed4_out/C20/demo_b.py
"""
import os
import sys

sys.path.insert(0, os.getcwd())

import shutil
import tempfile

_home = tempfile.mkdtemp(prefix="c20_demo_b_")
os.environ["HOME"] = _home

try:
    import matplotlib
    matplotlib.use("Agg")
    import matplotlib.pyplot as plt
    import numpy as np

    import evo.core.transformations as tr
    from evo.core import trajectory
    from evo.tools import plot
    from evo.tools.settings import SETTINGS

    matplotlib.use("Agg")

    n = 25
    rng = np.random.default_rng(7)
    positions = np.cumsum(rng.normal(size=(n, 3)), axis=0)
    quats = np.array([tr.random_quaternion(rng.random(3)) for _ in range(n)])
    stamps = 1000. + np.cumsum(rng.uniform(0.05, 0.15, size=n))
    stamped = trajectory.PoseTrajectory3D(positions, quats, stamps)
    path = trajectory.PosePath3D(positions, quats)  # no timestamps
    start_time = 998.5  # e.g. the start of a reference (relative time axis)

    def check(name, axarr, expected_x, expected_ys, expected_xlabel):
        for i, ax in enumerate(axarr):
            lines = ax.get_lines()
            assert len(lines) == 1, f"{name}: expected one line per axis"
            x, y = (np.asarray(a, dtype=float) for a in lines[0].get_data())
            assert np.allclose(y, expected_ys[i], atol=1e-9), (
                f"{name}: wrong values in subplot {i}")
            assert x.shape == expected_x.shape and np.allclose(
                x, expected_x, atol=1e-9), (
                    f"{name}: subplot {i} isn't drawn against the expected "
                    f"x values: got {x[:3]}..., expected {expected_x[:3]}...")
        assert axarr[2].get_xlabel() == expected_xlabel, (
            f"{name}: x label is '{axarr[2].get_xlabel()}', "
            f"expected '{expected_xlabel}'")

    index = np.arange(n, dtype=float)
    for traj, label, start, expected_x, xlabel in (
        (stamped, "timestamps, no start time", None, stamps, "$t$ (s)"),
        (stamped, "timestamps, start time", start_time, stamps - start_time,
         "$t$ (s)"),
        (path, "no timestamps, no start time", None, index, "index"),
        (path, "no timestamps, start time", start_time, index, "index"),
    ):
        fig, axarr = plt.subplots(3)
        plot.traj_xyz(axarr, traj, start_timestamp=start)
        check(f"traj_xyz ({label})", axarr, expected_x, positions.T, xlabel)
        plt.close(fig)

        fig, axarr = plt.subplots(3)
        plot.traj_rpy(axarr, traj, start_timestamp=start)
        angles = np.rad2deg(
            traj.get_orientations_euler(SETTINGS.euler_angle_sequence))
        check(f"traj_rpy ({label})", axarr, expected_x, angles.T, xlabel)
        plt.close(fig)

    for start, expected_x in ((None, stamps), (start_time,
                                               stamps - start_time)):
        fig = plt.figure()
        plot.speeds(fig.gca(), stamped, start_timestamp=start)
        x, y = (np.asarray(a, dtype=float)
                for a in fig.gca().get_lines()[0].get_data())
        assert np.allclose(x, expected_x[1:], atol=1e-9), "speeds: wrong x"
        assert np.allclose(y, stamped.speeds, atol=1e-9), "speeds: wrong y"
        plt.close(fig)

    print("OK: xyz / rpy / speed plots use the expected x-axis values")
finally:
    shutil.rmtree(_home, ignore_errors=True)
