"""
C03 / variant c: Umeyama alignment must return a proper rotation
(determinant +1, never a reflection) that reproduces the generating
transformation of noise-free data - also for planar point sets (e.g. ground
vehicle trajectories with constant height) of any extent.

Exits 0 if the property holds, raises AssertionError otherwise.
"""
import os
import sys

sys.path.insert(0, os.getcwd())

import numpy as np

from evo.core import geometry


def random_rotation(rng):
    q, _ = np.linalg.qr(rng.normal(size=(3, 3)))
    if np.linalg.det(q) < 0:
        q[:, 0] = -q[:, 0]
    return q


def check(x, y, rot, scale, with_scale, label):
    r, t, c = geometry.umeyama_alignment(x, y, with_scale)
    assert np.allclose(r.T.dot(r), np.eye(3), atol=1e-9), \
        "%s: result is not orthonormal" % label
    det = np.linalg.det(r)
    assert det > 0, (
        "%s: result is a reflection (det = %.3f), not a proper rotation" %
        (label, det))
    if with_scale:
        assert abs(c - scale) < 1e-8 * scale, \
            "%s: scale %.9g instead of %.9g" % (label, c, scale)
    else:
        assert c == 1.0, "%s: scale %r != 1" % (label, c)
    assert np.allclose(r, rot, atol=1e-7), (
        "%s: generating rotation is not reproduced for noise-free data" %
        label)
    rms = np.sqrt(
        np.mean(np.sum((y - (c * r.dot(x) + t[:, np.newaxis]))**2, axis=0)))
    assert rms < 1e-8 * max(1.0, float(np.abs(y).max())), \
        "%s: RMS residual %.3g of noise-free data" % (label, rms)


def main():
    rng = np.random.RandomState(5)
    for extent in (1e-3, 1.0, 50.0, 300.0, 5000.0):
        for trial in range(20):
            n = int(rng.randint(10, 300))
            # planar set, e.g. a ground vehicle driving on a plane that is
            # not aligned with the axes of the (arbitrary) odometry frame
            flat = rng.uniform(-extent, extent, size=(3, n))
            flat[2, :] = 0.0
            x = random_rotation(rng).dot(flat) + rng.uniform(
                -extent, extent, size=(3, 1))
            rot = random_rotation(rng)
            trans = rng.uniform(-extent, extent, size=3)
            y = rot.dot(x) + trans[:, np.newaxis]
            check(x, y, rot, 1.0, False,
                  "planar, extent %g, trial %d, SE(3)" % (extent, trial))
            scale = float(rng.uniform(0.5, 2.0))
            y = scale * rot.dot(x) + trans[:, np.newaxis]
            check(x, y, rot, scale, True,
                  "planar, extent %g, trial %d, Sim(3)" % (extent, trial))
            # generic (non-planar) set of the same extent
            x = rng.uniform(-extent, extent, size=(3, n))
            y = scale * rot.dot(x) + trans[:, np.newaxis]
            check(x, y, rot, scale, True,
                  "generic, extent %g, trial %d, Sim(3)" % (extent, trial))
    print("demo_c: property holds")


if __name__ == "__main__":
    main()
