import os
import sys

sys.path.insert(0, os.getcwd())

import copy
import itertools

import numpy as np

from evo import main_ape, main_rpe
from evo.core import lie_algebra as lie
from evo.core import metrics
from evo.core.trajectory import PoseTrajectory3D


def make_pair(n_poses, seed, scale):
    rng = np.random.RandomState(seed)
    stamps = np.arange(n_poses, dtype=float)
    xyz = np.cumsum(rng.uniform(-1.0, 1.0, (n_poses, 3)), axis=0)
    quat = rng.normal(size=(n_poses, 4))
    quat /= np.linalg.norm(quat, axis=1)[:, None]
    ref = PoseTrajectory3D(xyz, quat, stamps)
    est = copy.deepcopy(ref)
    est.transform(lie.se3(lie.so3_exp(rng.uniform(-1, 1, 3)),
                          rng.uniform(-5, 5, 3)))
    est.scale(scale)
    noisy = est.positions_xyz + rng.normal(scale=0.05, size=(n_poses, 3))
    est = PoseTrajectory3D(noisy, est.orientations_quat_wxyz, stamps)
    return ref, est


def check(result, est_before, what):
    t = result.np_arrays["alignment_transformation_sim3"]
    stored = result.trajectories["estimate"]
    s = lie.sim3_scale(t)
    r = t[:3, :3] / s
    # positions: p -> s*R*p + t, orientations: R_p -> R*R_p
    ids = np.arange(est_before.num_poses)
    if stored.num_poses != est_before.num_poses:
        # evo_rpe stores only the poses at the delta ids (+ first pose)
        ids = np.searchsorted(est_before.timestamps, stored.timestamps)
    expected_xyz = (t[:3, :3] @ est_before.positions_xyz[ids].T).T + t[:3, 3]
    err = np.abs(expected_xyz - stored.positions_xyz).max()
    assert err < 1e-6, (
        "{}: alignment_transformation_sim3 does not map the unaligned "
        "estimate onto the stored estimate (max position deviation {:.4f})"
        .format(what, err))
    for i, pose in zip(ids, stored.poses_se3):
        expected_rot = r @ est_before.poses_se3[i][:3, :3]
        assert np.allclose(expected_rot, pose[:3, :3], atol=1e-6), (
            "{}: orientation of stored pose {} is not R * R_p".format(what, i))


configs = [
    dict(align=True), dict(align=True, correct_scale=True),
    dict(correct_scale=True), dict(align_origin=True),
    dict(correct_scale=True, align_origin=True),
    dict(align=True, align_origin=True),
    dict(align=True, correct_scale=True, align_origin=True, n_to_align=7),
]
for cfg, seed in itertools.product(configs, range(3)):
    ref, est = make_pair(30, seed, scale=(0.5, 1.0, 3.0)[seed])
    before = copy.deepcopy(est)
    res = main_ape.ape(copy.deepcopy(ref), est,
                       metrics.PoseRelation.translation_part, **cfg)
    check(res, before, "ape {}".format(cfg))

    ref, est = make_pair(30, seed, scale=(0.5, 1.0, 3.0)[seed])
    before = copy.deepcopy(est)
    res = main_rpe.rpe(copy.deepcopy(ref), est,
                       metrics.PoseRelation.translation_part, delta=2,
                       delta_unit=metrics.Unit.frames, **cfg)
    check(res, before, "rpe {}".format(cfg))
print("ok")
