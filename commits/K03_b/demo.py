"""
C03 / variant b: for noise-free data Umeyama alignment must reproduce the
generating transformation and be least-squares optimal - also for point sets
with a large common offset (e.g. UTM / ECEF style coordinates).

Exits 0 if the property holds, raises AssertionError otherwise.
"""
import os
import sys

sys.path.insert(0, os.getcwd())

import numpy as np

from evo.core import geometry


def random_rotation(rng):
    q, _ = np.linalg.qr(rng.normal(size=(3, 3)))
    if np.linalg.det(q) < 0:
        q[:, 0] = -q[:, 0]
    return q


def rotation_angle(r):
    # small-angle safe (arccos of the trace is inaccurate close to identity)
    # |R - I|_F = 2 sqrt(2) sin(angle / 2)
    return float(2 * np.arcsin(
        min(1.0, np.linalg.norm(r - np.eye(3)) / (2 * np.sqrt(2)))))


def check(x, y, rot, scale, with_scale, label):
    r, t, c = geometry.umeyama_alignment(x, y, with_scale)
    assert np.allclose(r.T.dot(r), np.eye(3), atol=1e-9) and \
        np.linalg.det(r) > 0, "%s: not a proper rotation" % label
    if not with_scale:
        assert c == 1.0, "%s: scale %r != 1" % (label, c)
    angle = rotation_angle(rot.T.dot(r))
    assert angle < 1e-7, (
        "%s: generating rotation is not reproduced for noise-free data "
        "(off by %.3g rad)" % (label, angle))
    assert abs(c - scale) < 1e-7 * scale, (
        "%s: generating scale %.9g is not reproduced (got %.9g)" %
        (label, scale, c))
    rms = np.sqrt(
        np.mean(np.sum((y - (c * r.dot(x) + t[:, np.newaxis]))**2, axis=0)))
    # the exact transformation has a residual at round-off level (~1e-9)
    assert rms < 1e-5, (
        "%s: result is not least-squares optimal, RMS residual of noise-free "
        "data is %.3g" % (label, rms))


def main():
    rng = np.random.RandomState(11)
    offsets = {
        "no offset": np.zeros(3),
        "offset 1e3": np.array([1.0e3, -2.0e3, 5.0e2]),
        "UTM-like offset": np.array([4.5e5, 5.4e6, 3.0e2]),
        "ECEF-like offset": np.array([4.1e6, 6.2e5, 4.8e6]),
    }
    for name, offset in offsets.items():
        for trial in range(5):
            n = int(rng.randint(20, 500))
            local = rng.uniform(-10, 10, size=(3, n))
            x = local + offset[:, np.newaxis]
            rot = random_rotation(rng)
            trans = rng.uniform(-5, 5, size=3)
            # without scale: x in the offset frame, y = R x + t
            y = rot.dot(x) + trans[:, np.newaxis]
            check(x, y, rot, 1.0, False, "%s, trial %d, SE(3)" % (name, trial))
            # with scale
            scale = float(rng.uniform(0.5, 2.0))
            y = scale * rot.dot(x) + trans[:, np.newaxis]
            check(x, y, rot, scale, True,
                  "%s, trial %d, Sim(3)" % (name, trial))
    print("demo_b: property holds")


if __name__ == "__main__":
    main()
