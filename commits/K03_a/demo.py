"""
C03 / variant a: Umeyama alignment must be least-squares optimal also when
the optimal *orthogonal* map would be a reflection (mirrored data), i.e. when
the Kabsch sign correction is active.

Exits 0 if the property holds, raises AssertionError otherwise.
"""
import os
import sys

sys.path.insert(0, os.getcwd())

import numpy as np

from evo.core import geometry


def reference_alignment(x, y, with_scale):
    """Independent closed-form solution (Kabsch / Umeyama)."""
    n = x.shape[1]
    mx = x.mean(axis=1, keepdims=True)
    my = y.mean(axis=1, keepdims=True)
    xc, yc = x - mx, y - my
    u, d, vt = np.linalg.svd(yc.dot(xc.T) / n)
    s = np.diag([1.0, 1.0, np.sign(np.linalg.det(u.dot(vt)))])
    r = u.dot(s).dot(vt)
    c = np.trace(np.diag(d).dot(s)) / (np.sum(xc * xc) / n) \
        if with_scale else 1.0
    t = my[:, 0] - c * r.dot(mx[:, 0])
    return r, t, c


def ssr(x, y, r, t, c):
    return float(np.sum((y - (c * r.dot(x) + t[:, np.newaxis]))**2))


def random_rotation(rng):
    q, _ = np.linalg.qr(rng.normal(size=(3, 3)))
    if np.linalg.det(q) < 0:
        q[:, 0] = -q[:, 0]
    return q


def check(x, y, with_scale, label):
    r, t, c = geometry.umeyama_alignment(x, y, with_scale)
    assert np.allclose(r.T.dot(r), np.eye(3), atol=1e-9), \
        "%s: result is not orthonormal" % label
    assert np.linalg.det(r) > 0, "%s: result is a reflection" % label
    if with_scale:
        assert c > 0, "%s: scale %r is not positive" % (label, c)
    else:
        assert c == 1.0, "%s: scale %r != 1 without scale estimation" % (
            label, c)
    r_ref, t_ref, c_ref = reference_alignment(x, y, with_scale)
    res, res_ref = ssr(x, y, r, t, c), ssr(x, y, r_ref, t_ref, c_ref)
    assert res <= res_ref * (1 + 1e-9) + 1e-12, (
        "%s: alignment is not least-squares optimal: sum of squared "
        "residuals %.6g > %.6g of the reference solution (rotation differs "
        "by %.3f deg, scale %.6g vs %.6g)" %
        (label, res, res_ref,
         np.degrees(
             np.arccos(np.clip((np.trace(r_ref.T.dot(r)) - 1) / 2, -1, 1))),
         c, c_ref))


def main():
    rng = np.random.RandomState(3)
    mirror = np.diag([1.0, 1.0, -1.0])
    for trial in range(20):
        n = int(rng.randint(10, 400))
        x = rng.normal(size=(3, n)) * np.array([[3.0], [2.0], [1.0]])
        rot = random_rotation(rng)
        t = rng.uniform(-5, 5, size=3)
        scale = float(rng.uniform(0.5, 2.0))
        noise = 0.05 * rng.normal(size=(3, n))
        # ordinary noisy data
        y = scale * rot.dot(x) + t[:, np.newaxis] + noise
        # mirrored noisy data: best orthogonal map is a reflection
        y_mirrored = scale * rot.dot(mirror).dot(x) + t[:, np.newaxis] + noise
        for with_scale in (False, True):
            check(x, y, with_scale,
                  "trial %d, noisy, with_scale=%s" % (trial, with_scale))
            check(x, y_mirrored, with_scale,
                  "trial %d, mirrored, with_scale=%s" % (trial, with_scale))
        # planar noisy data (rank m-1: the sign correction is active whenever
        # the SVD happens to return a left-handed pair of bases)
        flat = x * np.array([[1.0], [1.0], [0.0]])
        x_planar = random_rotation(rng).dot(flat)
        y_planar = scale * rot.dot(x_planar) + t[:, np.newaxis] + \
            noise * np.array([[1.0], [1.0], [0.0]])
        for with_scale in (False, True):
            check(x_planar, y_planar, with_scale,
                  "trial %d, planar, with_scale=%s" % (trial, with_scale))
    print("demo_a: property holds")


if __name__ == "__main__":
    main()
