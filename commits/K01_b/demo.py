import os
import sys

sys.path.insert(0, os.getcwd())

import shutil
import tempfile

TMP = tempfile.mkdtemp(prefix="c01_demo_b_")
os.environ["HOME"] = TMP

import numpy as np
from scipy.spatial.transform import Rotation

"""
evo_ape tum ref est --t_start T0 --t_end T1 --save_results out.zip

--t_start / --t_end are documented as inclusive bounds ("greater or equal" /
"less or equal").  Here both bounds are exactly timestamps of the reference
(as one gets when copying them from the file), so the poses at T0 and at T1
must both be part of the evaluated pose pairs.
"""


def make_traj(n, seed):
    rng = np.random.default_rng(seed)
    stamps = 1.7e9 + 0.1 * np.arange(n)
    xyz = np.cumsum(rng.normal(scale=0.05, size=(n, 3)), axis=0)
    quat_xyzw = Rotation.random(n, random_state=seed).as_quat()
    return stamps, xyz, quat_xyzw


def write_tum(path, stamps, xyz, quat_xyzw):
    np.savetxt(path, np.column_stack((stamps, xyz, quat_xyzw)), fmt="%.12f")


def main():
    from evo import main_ape, main_ape_parser
    from evo.tools import file_interface

    n = 200
    stamps, xyz_ref, q_ref = make_traj(n, seed=1)
    xyz_est = xyz_ref + np.random.default_rng(5).normal(scale=0.02,
                                                        size=(n, 3))
    ref_file = os.path.join(TMP, "ref.tum")
    est_file = os.path.join(TMP, "est.tum")
    out_zip = os.path.join(TMP, "out.zip")
    write_tum(ref_file, stamps, xyz_ref, q_ref)
    write_tum(est_file, stamps, xyz_est, q_ref)

    ref_loaded = np.loadtxt(ref_file)
    est_loaded = np.loadtxt(est_file)
    first, last = 20, 120
    t_start = float(ref_loaded[first, 0])
    t_end = float(ref_loaded[last, 0])

    args = main_ape_parser.parser().parse_args([
        "tum", ref_file, est_file, "--t_start",
        repr(t_start), "--t_end",
        repr(t_end), "--save_results", out_zip, "--no_warnings", "--silent"
    ])
    assert args.t_start == t_start and args.t_end == t_end
    main_ape.run(args)
    result = file_interface.load_res_file(out_zip)
    errors = result.np_arrays["error_array"]
    timestamps = result.np_arrays["timestamps"]

    keep = (ref_loaded[:, 0] >= t_start) & (ref_loaded[:, 0] <= t_end)
    expected = np.linalg.norm(est_loaded[keep, 1:4] - ref_loaded[keep, 1:4],
                              axis=1)
    assert keep.sum() == last - first + 1
    assert len(errors) == len(expected), (
        "evo_ape --t_start {!r} --t_end {!r}: {} reference poses have "
        "t_start <= t <= t_end, but the result has {} error values "
        "(stored timestamps range from {!r} to {!r})".format(
            t_start, t_end, len(expected), len(errors), timestamps[0],
            timestamps[-1]))
    assert np.array_equal(timestamps, est_loaded[keep, 0]), \
        "error values belong to the wrong poses"
    assert np.allclose(errors, expected, atol=1e-12, rtol=1e-9), \
        "APE values differ from the point distances of the remaining pairs"
    print("OK: {} pose pairs, APE values as expected".format(len(errors)))


if __name__ == "__main__":
    try:
        main()
    finally:
        shutil.rmtree(TMP, ignore_errors=True)
