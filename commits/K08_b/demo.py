import os
import sys

sys.path.insert(0, os.getcwd())

import copy

import numpy as np

import evo.core.transformations as tr
from evo.core import lie_algebra as lie
from evo.core.trajectory import PosePath3D, PoseTrajectory3D

print("evo from:", os.path.dirname(lie.__file__))


def random_trajectory(rng, n, from_matrices):
    xyz = np.cumsum(rng.normal(size=(n, 3)), axis=0) + 5.0
    quat = rng.normal(size=(n, 4))
    quat /= np.linalg.norm(quat, axis=1)[:, np.newaxis]
    stamps = np.arange(n, dtype=float)
    if from_matrices:
        poses = [
            lie.se3(tr.quaternion_matrix(q)[:3, :3], p)
            for q, p in zip(quat, xyz)
        ]
        return PoseTrajectory3D(poses_se3=poses, timestamps=stamps)
    return PoseTrajectory3D(xyz, quat, stamps)


def rot_of(quat):
    return tr.quaternion_matrix(quat)[:3, :3]


rng = np.random.default_rng(7)
problems = []
for from_matrices in (True, False):
    for n in (1, 2, 25):
        traj = random_trajectory(rng, n, from_matrices)
        before = [np.array(p) for p in copy.deepcopy(traj).poses_se3]
        r = tr.random_rotation_matrix(rng.random(3))[:3, :3]
        t = rng.normal(size=3)
        s = 2.5
        sim3 = lie.sim3(r, t, s)

        # Left multiplication with a similarity: positions s*R*p + t,
        # orientations R*R_p.
        left = copy.deepcopy(traj)
        left.transform(sim3)
        for p, xyz, quat in zip(before, left.positions_xyz,
                                left.orientations_quat_wxyz):
            if not np.allclose(xyz, s * r.dot(p[:3, 3]) + t):
                problems.append(f"left, n={n}: position is not s*R*p+t")
            if not np.allclose(rot_of(quat), r.dot(p[:3, :3]), atol=1e-6):
                problems.append(f"left, n={n}: orientation is not R*R_p")

        # Right multiplication: every pose P becomes P*T, i.e. the position
        # becomes R_p*t + p and the orientation R_p*R.
        right = copy.deepcopy(traj)
        _ = right.positions_xyz  # read a view in between
        right.transform(sim3, right_mul=True)
        for i, (p, xyz, quat, pose) in enumerate(
                zip(before, right.positions_xyz, right.orientations_quat_wxyz,
                    right.poses_se3)):
            expected = p.dot(sim3)
            if not np.allclose(pose[:3, 3], xyz):
                problems.append(f"right, n={n}: views disagree at pose {i}")
            if not np.allclose(xyz, expected[:3, 3]):
                problems.append(
                    f"right, n={n}, pose {i}: position {xyz} is not the "
                    f"position of P*T {expected[:3, 3]}")
            if not np.allclose(rot_of(quat), p[:3, :3].dot(r), atol=1e-6):
                problems.append(f"right, n={n}: orientation is not R_p*R")

print(f"{len(problems)} violations")
for line in problems[:5]:
    print("  ", line)
assert not problems, (
    "transform() with a Sim(3) matrix does not have the documented effect: " +
    problems[0])
print("OK")
