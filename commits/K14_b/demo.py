"""
C14 demo (variant b): project() is a true projection - poses that already lie
in the plane (position in the plane, rotation about the plane normal by any
heading) must be left unchanged. Checked on a 1 degree heading grid for the
three planes (xz only within +-90 deg, where the Euler extraction of the
unchanged code base is the identity), plus position-only style data with
identity orientations.
"""
import os
import sys

sys.path.insert(0, os.getcwd())

import numpy as np

import evo
from evo.core import lie_algebra as lie
from evo.core.trajectory import Plane, PosePath3D, PoseTrajectory3D

print("evo from", evo.__file__)
np.random.seed(14)

NORMAL = {Plane.XY: 2, Plane.XZ: 1, Plane.YZ: 0}


def planar_rotation(n_dim, heading):
    """Rotation by heading about the coordinate axis n_dim (closed form)."""
    c, s = np.cos(heading), np.sin(heading)
    i, j = [(1, 2), (2, 0), (0, 1)][n_dim]
    r = np.eye(3)
    r[i, i], r[i, j], r[j, i], r[j, j] = c, -s, s, c
    return r


def planar_poses(n_dim, headings_deg):
    poses = []
    for h in headings_deg:
        t = np.random.uniform(-5, 5, 3)
        t[n_dim] = 0
        poses.append(lie.se3(planar_rotation(n_dim, np.deg2rad(h)), t))
    return poses


for plane in Plane:
    n_dim = NORMAL[plane]
    if plane == Plane.XZ:
        headings = np.arange(-89, 90, 1)
    else:
        headings = np.arange(-179, 181, 1)
    poses = planar_poses(n_dim, headings)
    before = [p.copy() for p in poses]
    stamps = np.arange(len(poses), dtype=float)
    traj = PoseTrajectory3D(poses_se3=poses, timestamps=stamps)
    traj.project(plane)
    assert traj.num_poses == len(before), "pose count changed"
    assert np.array_equal(traj.timestamps, stamps), "timestamps changed"
    for h, p_before, p_after in zip(headings, before, traj.poses_se3):
        assert lie.is_se3(p_after), f"{plane.value}: invalid pose after project"
        assert np.allclose(p_after[:3, 3], p_before[:3, 3], atol=1e-12), \
            f"{plane.value}: position of a planar pose changed"
        diff = lie.so3_log_angle(
            lie.relative_so3(p_before[:3, :3], p_after[:3, :3]), degrees=True)
        assert diff < 1e-6, (
            f"project({plane.value}) changed a pose that already lies in the "
            f"plane: heading {h} deg was rotated by {diff:.3f} deg")

    # Position-only style data: identity orientations, given as quaternions.
    n = 10
    xyz = np.random.uniform(-5, 5, (n, 3))
    xyz[:, n_dim] = 0
    quat = np.tile([1., 0., 0., 0.], (n, 1))
    path = PosePath3D(positions_xyz=xyz, orientations_quat_wxyz=quat)
    path.project(plane)
    assert np.allclose(path.positions_xyz, xyz, atol=1e-12), \
        f"{plane.value}: planar positions changed"
    for q in path.orientations_quat_wxyz:
        assert np.allclose(np.abs(q), [1, 0, 0, 0], atol=1e-9), (
            f"project({plane.value}) changed an identity orientation of a "
            f"planar pose to quaternion {q}")

print("OK: planar poses are left unchanged by project()")
