import os
import sys
sys.path.insert(0, os.getcwd())

import itertools
import math

import numpy as np

from evo.core import filters, metrics
from evo.core import lie_algebra as lie
from evo.core.metrics import Unit


def rot_z(angle):
    return lie.se3(lie.so3_exp(np.array([0.0, 0.0, 1.0]) * angle),
                   np.zeros(3))


def direct_angle(p1, p2):
    return lie.so3_log_angle(lie.relative_so3(p1[:3, :3], p2[:3, :3]))


def oracle_all_pairs_angle(poses, delta_rad, tol_rad):
    # exactly all pairs whose relative rotation angle lies within delta +- tol
    eps = 1e-9
    return [(i, j) for i, j in itertools.combinations(range(len(poses)), 2)
            if delta_rad - tol_rad - eps <= direct_angle(poses[i], poses[j])
            <= delta_rad + tol_rad + eps]


# headings in multiples of pi/8 (exact grid of the property)
steps = [0, 1, 2, 3, 4, 6, 8, 5]
poses = [rot_z(k * math.pi / 8) for k in steps]

# --- 1) all-pairs mode, delta in degrees, 10% tolerance
delta_deg, rel_tol = 90.0, 0.1
expected = oracle_all_pairs_angle(poses, np.deg2rad(delta_deg),
                                  np.deg2rad(delta_deg * rel_tol))
got = metrics.id_pairs_from_delta(poses, delta_deg, Unit.degrees, rel_tol,
                                  all_pairs=True)
got = [(int(i), int(j)) for i, j in got]
assert got == expected, (
    "all-pairs / degrees: pairs outside delta*(1 +- tol) were selected:\n"
    f"  expected {expected}\n  got      {got}")

# same request in radians must give the same pairs
got_rad = metrics.id_pairs_from_delta(poses, np.deg2rad(delta_deg),
                                      Unit.radians, rel_tol, all_pairs=True)
assert [(int(i), int(j)) for i, j in got_rad] == expected

# --- 2) a delta no pair can satisfy must be reported as FilterException
# (all relative angles are multiples of 22.5 deg; 100 deg +- 1 deg hits none)
try:
    bogus = metrics.id_pairs_from_delta(poses, 100.0, Unit.degrees, 0.01,
                                        all_pairs=True)
except filters.FilterException:
    pass
else:
    raise AssertionError(
        "delta = 100 deg +- 1% matches no pair but no FilterException was "
        f"raised, got {len(bogus)} pairs: {bogus}")

# --- 3) direct call of the filter, degrees vs. radians agree
for tol_deg in (1.0, 5.0, 23.0):
    a = filters.filter_pairs_by_angle(poses, 45.0, tol_deg, degrees=True,
                                      all_pairs=True)
    b = oracle_all_pairs_angle(poses, np.deg2rad(45.0), np.deg2rad(tol_deg))
    assert [(int(i), int(j)) for i, j in a] == b, (
        f"filter_pairs_by_angle(45 deg, tol={tol_deg} deg, all_pairs): "
        f"expected {b}, got {a}")

print("demo_a: OK")
