"""
C14 demo (variant c): after project() every orientation must be a pure
rotation about the plane normal - also for poses that are *almost* planar,
e.g. a ground vehicle with a small roll / pitch (fractions of a degree).
"""
import os
import sys

sys.path.insert(0, os.getcwd())

import numpy as np

import evo
from evo.core import lie_algebra as lie
from evo.core.trajectory import Plane, PoseTrajectory3D

print("evo from", evo.__file__)
np.random.seed(14)

NORMAL = {Plane.XY: 2, Plane.XZ: 1, Plane.YZ: 0}


def axis_rotation(dim, angle):
    axis = np.zeros(3)
    axis[dim] = 1
    return lie.so3_exp(axis * angle)


for plane in Plane:
    n_dim = NORMAL[plane]
    in_plane = [d for d in range(3) if d != n_dim]
    poses, labels = [], []
    for heading_deg in range(-80, 81, 20):
        for tilt_deg in (0.0, 0.02, 0.05, 0.1, 0.2, 0.5, 2.0, 30.0):
            for tilt_dim in in_plane:
                # heading about the normal, then a small tilt out of the plane
                r = axis_rotation(tilt_dim, np.deg2rad(tilt_deg)).dot(
                    axis_rotation(n_dim, np.deg2rad(heading_deg)))
                poses.append(lie.se3(r, np.random.uniform(-5, 5, 3)))
                labels.append((heading_deg, tilt_deg, "xyz"[tilt_dim]))
    stamps = np.arange(len(poses), dtype=float)
    xyz_before = np.array([p[:3, 3] for p in poses])
    traj = PoseTrajectory3D(poses_se3=poses, timestamps=stamps)
    traj.project(plane)

    assert traj.num_poses == len(labels), "pose count changed"
    assert np.array_equal(traj.timestamps, stamps), "timestamps changed"
    assert np.all(traj.positions_xyz[:, n_dim] == 0), "position not in plane"
    assert np.allclose(traj.positions_xyz[:, in_plane],
                       xyz_before[:, in_plane], atol=1e-12), \
        "in-plane coordinates changed"
    for (heading_deg, tilt_deg, tilt_axis), pose in zip(labels,
                                                        traj.poses_se3):
        assert lie.is_se3(pose), "invalid pose after projection"
        rotvec = lie.so3_log(pose[:3, :3])
        off_axis = np.rad2deg(np.abs(rotvec[in_plane]).max())
        assert off_axis < 1e-6, (
            f"project({plane.value}): orientation is not a pure rotation "
            f"about the {'xyz'[n_dim]} axis for the pose with heading "
            f"{heading_deg} deg and {tilt_deg} deg tilt about {tilt_axis} "
            f"(remaining out-of-plane rotation: {off_axis:.4f} deg)")
        # The normal has to be a fixed axis of the projected rotation.
        normal = np.zeros(3)
        normal[n_dim] = 1
        assert np.allclose(pose[:3, :3].dot(normal), normal, atol=1e-9), \
            f"project({plane.value}): plane normal is not the rotation axis"

print("OK: projected orientations are pure rotations about the normal")
