#!/usr/bin/env python
"""
C16 / variant a: computing a timestamp association must not modify the
timestamp arrays that are passed in.

Run as:  cd /tmp/seed4/C16 && /venv/bin/python /tmp/seed4_out/C16/demo_a.py
"""
import os
import sys

sys.path.insert(0, os.getcwd())

import numpy as np

import evo
from evo.core import sync

print("using evo from", os.path.dirname(evo.__file__))

# Two clocks: the second one is 0.5 s ahead of the first one.
stamps_1 = np.arange(0.0, 2.0, 0.1)
stamps_2 = np.arange(0.0, 2.0, 0.1) + 0.5
stamps_1_before = stamps_1.copy()
stamps_2_before = stamps_2.copy()

# Compensate the known clock offset while matching.
matches = sync.matching_time_indices(stamps_1, stamps_2, max_diff=0.01,
                                     offset_2=-0.5)
assert len(matches[0]) == len(stamps_1), "unexpected number of matches"

assert np.array_equal(stamps_1, stamps_1_before), (
    "matching_time_indices() modified its stamps_1 argument")
assert np.array_equal(stamps_2, stamps_2_before), (
    "matching_time_indices() modified its stamps_2 argument: first stamp was "
    "{} before the call and is {} afterwards".format(stamps_2_before[0],
                                                     stamps_2[0]))

# History: the same call repeated must give the same answer, because the
# inputs are supposed to be untouched by the first call.
matches_again = sync.matching_time_indices(stamps_1, stamps_2, max_diff=0.01,
                                           offset_2=-0.5)
assert matches_again == matches, (
    "repeating the same association gives a different result: "
    "{} vs. {} matches".format(len(matches_again[0]), len(matches[0])))

print("OK: matching_time_indices() left its arguments untouched")
