import os
import sys

sys.path.insert(0, os.getcwd())

import copy

import numpy as np

from evo.core import lie_algebra as lie
from evo.core.trajectory import PosePath3D


def rmse(a, b, n=None):
    d = a.positions_xyz[:n] - b.positions_xyz[:n]
    return float(np.sqrt((d**2).sum(axis=1).mean()))


def make_pair(n_poses, seed, from_matrices):
    rng = np.random.RandomState(seed)
    xyz = np.cumsum(rng.uniform(-1.0, 1.0, (n_poses, 3)), axis=0)
    quat = rng.normal(size=(n_poses, 4))
    quat /= np.linalg.norm(quat, axis=1)[:, None]
    ref = PosePath3D(xyz, quat)
    if from_matrices:
        ref = PosePath3D(poses_se3=[np.array(p) for p in ref.poses_se3])
    est = copy.deepcopy(ref)
    est.transform(lie.se3(lie.so3_exp(rng.uniform(-1, 1, 3)),
                          rng.uniform(-5, 5, 3)))
    return ref, est


for from_matrices in (True, False):
    for seed in range(5):
        for num_poses, n in ((3, -1), (4, -1), (12, 3), (12, 4), (12, 12),
                             (50, -1)):
            for with_scale in (False, True):
                ref, est = make_pair(num_poses, seed, from_matrices)
                if with_scale:
                    est.scale(2.5)
                used = None if n == -1 else n
                before = rmse(est, ref, used)
                r, t, s = est.align(ref, correct_scale=with_scale, n=n)
                after = rmse(est, ref, used)
                what = ("{} poses, n={}, scale={}, seed={}, matrices={}".format(
                    num_poses, n, with_scale, seed, from_matrices))
                assert lie.is_so3(r), what + ": returned r is no rotation"
                # The estimate is an exact rigid/similarity copy: alignment
                # over the used poses must recover the reference exactly.
                assert after <= before + 1e-9, (
                    "{}: RMSE over the poses used got worse by alignment "
                    "({:.4f} -> {:.4f})".format(what, before, after))
                assert after < 1e-6, (
                    "{}: alignment of an exact copy leaves RMSE {:.4f} over "
                    "the poses used".format(what, after))
                assert all(
                    np.allclose(p, q, atol=1e-6)
                    for p, q in zip(est.poses_se3, ref.poses_se3)
                ), what + ": aligned copy differs from the reference"
print("ok")
