"""
C06 / variant c: writing and re-reading TUM files, KITTI files and result
archives must give back the same number and order of poses with bit-identical
values - also for coordinates of very large (1e+300) or very small (1e-300)
magnitude, which are valid float64 coordinates.

Run: cd /tmp/seed4/C06 && /venv/bin/python /tmp/seed4_out/C06/demo_c.py
"""
import os
import sys

sys.path.insert(0, os.getcwd())

import io
import logging
import shutil
import tempfile
import warnings

warnings.simplefilter("ignore")
logging.disable(logging.CRITICAL)

import numpy as np

import evo
from evo.core.result import Result
from evo.core.trajectory import PosePath3D, PoseTrajectory3D
from evo.tools import file_interface

print("evo from:", evo.__file__)


def make_trajectory(xyz_scale: np.ndarray, seed: int) -> PoseTrajectory3D:
    rng = np.random.default_rng(seed)
    n = len(xyz_scale)
    stamps = 1700000000. + np.cumsum(rng.uniform(1e-3, 5e-2, n))
    quat = rng.normal(size=(n, 4))
    quat /= np.linalg.norm(quat, axis=1, keepdims=True)
    xyz = rng.uniform(1., 9., size=(n, 3)) * xyz_scale[:, np.newaxis]
    xyz *= rng.choice([-1., 1.], size=(n, 3))
    assert np.isfinite(xyz).all()
    traj = PoseTrajectory3D(xyz, quat, stamps)
    ok, details = traj.check()
    assert ok, details
    return traj


def assert_identical(label: str, out: np.ndarray, back: np.ndarray) -> None:
    out = np.asarray(out, dtype=np.float64)
    back = np.asarray(back, dtype=np.float64)
    assert out.shape == back.shape, (
        "{}: wrote {} poses but read back {} poses".format(
            label, out.shape[0], back.shape[0]))
    assert (out.view(np.uint64) == back.view(np.uint64)).all(), (
        "{}: values changed in the write/read round trip".format(label))


def check_trajectory(label: str, traj: PoseTrajectory3D, tmp_dir: str):
    # TUM: handle and path variants
    with io.StringIO() as handle:
        file_interface.write_tum_trajectory_file(handle, traj)
        handle.seek(0)
        traj_in = file_interface.read_tum_trajectory_file(handle)
    tum_path = os.path.join(tmp_dir, "traj.tum")
    file_interface.write_tum_trajectory_file(tum_path, traj)
    traj_in_2 = file_interface.read_tum_trajectory_file(tum_path)
    for variant, t in (("handle", traj_in), ("path", traj_in_2)):
        name = "{} [TUM, {}]".format(label, variant)
        assert_identical(name + " timestamps", traj.timestamps, t.timestamps)
        assert_identical(name + " positions", traj.positions_xyz,
                         t.positions_xyz)
        assert_identical(name + " quaternions", traj.orientations_quat_wxyz,
                         t.orientations_quat_wxyz)

    # KITTI: handle and path variants
    path_out = PosePath3D(poses_se3=traj.poses_se3)
    with io.StringIO() as handle:
        file_interface.write_kitti_poses_file(handle, path_out)
        handle.seek(0)
        path_in = file_interface.read_kitti_poses_file(handle)
    kitti_path = os.path.join(tmp_dir, "poses.kitti")
    file_interface.write_kitti_poses_file(kitti_path, path_out)
    path_in_2 = file_interface.read_kitti_poses_file(kitti_path)
    for variant, p in (("handle", path_in), ("path", path_in_2)):
        assert_identical("{} [KITTI, {}] poses".format(label, variant),
                         np.array(path_out.poses_se3), np.array(p.poses_se3))

    # result archive with embedded trajectories
    result = Result()
    result.add_info({"title": "demo"})
    result.add_stats({"rmse": 0.1 + 0.2, "max": 1e300})
    result.add_np_array("error_array", traj.positions_xyz[:, 0])
    result.add_trajectory("estimate", traj)
    result.add_trajectory("reference", path_out)
    zip_path = os.path.join(tmp_dir, "result.zip")
    file_interface.save_res_file(zip_path, result)
    result_in = file_interface.load_res_file(zip_path, load_trajectories=True)
    assert result_in.stats == result.stats, label
    assert_identical(label + " [result archive] error_array",
                     result.np_arrays["error_array"],
                     result_in.np_arrays["error_array"])
    assert_identical(label + " [result archive] TUM positions",
                     traj.positions_xyz,
                     result_in.trajectories["estimate"].positions_xyz)
    assert_identical(label + " [result archive] KITTI poses",
                     np.array(path_out.poses_se3),
                     np.array(result_in.trajectories["reference"].poses_se3))


def main() -> None:
    n = 200
    scales = {
        "metre-scale coordinates": np.full(n, 10.),
        "tiny coordinates (1e-300)": np.full(n, 1e-300),
        "astronomic coordinates (1e+100)": np.full(n, 1e100),
        "mixed magnitudes 1e-300 .. 1e+300":
            10.**np.linspace(-300, 300, n),
    }
    tmp_dir = tempfile.mkdtemp(prefix="c06_demo_c_")
    try:
        for i, (label, xyz_scale) in enumerate(scales.items()):
            check_trajectory(label, make_trajectory(xyz_scale, i), tmp_dir)
            print("ok:", label)
        print("OK: all round trips are lossless")
    finally:
        shutil.rmtree(tmp_dir, ignore_errors=True)


if __name__ == "__main__":
    main()
