"""
C13 demo c: if the inputs of merge_results() do not all have equal array
lengths, *every* array of the merged result is the concatenation of the
input arrays in input order (element-wise means are only taken if all array
lengths agree).
Exits 0 if that holds, non-zero otherwise.
"""
import os
import sys

sys.path.insert(0, os.getcwd())

import numpy as np

from evo.core import result


def make(errors, checkpoints, rmse):
    r = result.Result()
    r.add_info({"title": "t", "est_name": "e"})
    r.add_stats({"rmse": rmse})
    r.add_np_array("error_array", np.array(errors, dtype=float))
    r.add_np_array("checkpoints", np.array(checkpoints, dtype=float))
    return r


# all lengths equal -> element-wise mean of every array
m = result.merge_results([make([1, 2, 3], [0, 10], 1.),
                          make([3, 4, 5], [2, 20], 2.)])
assert np.allclose(m.np_arrays["error_array"], [2, 3, 4]), m.np_arrays
assert np.allclose(m.np_arrays["checkpoints"], [1, 15]), m.np_arrays
assert m.stats == {"rmse": 1.5}

# error_array lengths differ (3, 5, 1), checkpoints lengths agree (2, 2, 2)
# -> append strategy for the whole result
inputs = [
    make([1, 2, 3], [0, 10], 1.),
    make([4, 5, 6, 7, 8], [2, 20], 2.),
    make([9], [4, 60], 6.),
]
m = result.merge_results(inputs)
assert m.stats == {"rmse": 3.}, m.stats
assert np.allclose(m.np_arrays["error_array"], np.arange(1, 10)), m.np_arrays
expected = [0, 10, 2, 20, 4, 60]
got = m.np_arrays["checkpoints"]
assert got.shape == (6, ) and np.allclose(got, expected), \
    "array lengths of the inputs differ, but np_arrays['checkpoints'] of " \
    "the merged result is not the concatenation in input order:\n" \
    "expected {}\ngot      {}".format(expected, got.tolist())
print("OK: all arrays appended")
