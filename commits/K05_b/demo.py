"""
Demo for variant b (C05): max_diff = 0 is a legal threshold ("only pair poses
with exactly identical timestamps", e.g. simulation data / resampled ground
truth). Every returned pair must satisfy |t1 - (t2 + offset)| <= max_diff,
no other pairs may be produced, and if nothing matches the SyncException
must be raised.

run: cd /tmp/seed4/C05 && /venv/bin/python /tmp/seed4_out/C05/demo_b.py
"""
import os
import sys

sys.path.insert(0, os.getcwd())

import numpy as np

from evo.core import lie_algebra as lie
from evo.core import sync
from evo.core.trajectory import PoseTrajectory3D


def make_traj(stamps, seed):
    np.random.seed(seed)
    return PoseTrajectory3D(poses_se3=[lie.random_se3() for _ in stamps],
                            timestamps=np.array(stamps, dtype=float))


def main():
    t0 = 1.5e9
    # 100 Hz reference, 10 Hz estimate: every 2nd estimate stamp coincides
    # exactly with a reference stamp, the others are 3 ms off.
    ticks_ref = np.arange(0, 1000)
    ticks_est = np.arange(0, 1000, 10)
    stamps_ref = t0 + ticks_ref / 100.0
    stamps_est = t0 + ticks_est / 100.0
    stamps_est[1::2] += 0.003
    expected_est_ids = list(range(0, 100, 2))
    expected_ref_ids = [int(i * 10) for i in expected_est_ids]

    # ---- index search, exact matches only ----------------------------------
    ids_est, ids_ref = sync.matching_time_indices(stamps_est, stamps_ref,
                                                  max_diff=0.0)
    diffs = np.abs(stamps_est[ids_est] - stamps_ref[ids_ref])
    assert np.all(diffs <= 0.0), (
        "matching_time_indices(max_diff=0.0) returned {} pairs, {} of them "
        "with a time difference > max_diff (largest: {} s)".format(
            len(ids_est), int(np.sum(diffs > 0.0)), diffs.max()))
    assert ids_est == expected_est_ids and ids_ref == expected_ref_ids, (
        "unexpected pairs for max_diff=0.0")

    # ---- trajectories, both orderings --------------------------------------
    traj_ref = make_traj(stamps_ref, 1)
    traj_est = make_traj(stamps_est, 2)
    for first, second, name in ((traj_ref, traj_est, "first longer"),
                                (traj_est, traj_ref, "second longer")):
        out_1, out_2 = sync.associate_trajectories(first, second, max_diff=0)
        assert out_1.num_poses == out_2.num_poses
        assert out_1.num_poses == 50, (
            "{}: expected the 50 exactly coinciding poses for max_diff=0, "
            "got {} pairs".format(name, out_1.num_poses))
        assert np.array_equal(out_1.timestamps, out_2.timestamps), (
            "{}: pair with |t1 - t2| > max_diff = 0".format(name))

    # ---- nothing matches exactly -> synchronization error ------------------
    traj_shifted = make_traj(stamps_est + 0.004, 3)
    try:
        out_1, out_2 = sync.associate_trajectories(traj_ref, traj_shifted,
                                                   max_diff=0.0)
    except sync.SyncException:
        pass
    else:
        worst = np.max(np.abs(out_1.timestamps - out_2.timestamps))
        raise AssertionError(
            "no timestamps coincide, but associate_trajectories(max_diff=0.0) "
            "returned {} pairs (largest time difference {} s) instead of "
            "raising SyncException".format(out_1.num_poses, worst))

    # the default and ordinary thresholds behave as usual
    ids_est, ids_ref = sync.matching_time_indices(stamps_est, stamps_ref,
                                                  max_diff=0.005)
    assert len(ids_est) == 100

    print("demo_b: OK")


if __name__ == "__main__":
    main()
