"""
C09 / variant a: the membership tests must reject reflections (improper
rotation blocks), also when they are scaled - for every scale 1e-4..1e4.
Run: cd /tmp/seed4/C09 && /venv/bin/python /tmp/seed4_out/C09/demo_a.py
"""
import os
import sys

sys.path.insert(0, os.getcwd())

import warnings

import numpy as np

from evo.core import lie_algebra as lie

warnings.simplefilter("ignore", RuntimeWarning)

rng = np.random.default_rng(9)
np.random.seed(9)

MIRRORS = [
    np.diag([-1.0, 1.0, 1.0]),
    np.diag([1.0, -1.0, 1.0]),
    np.diag([1.0, 1.0, -1.0]),
    np.diag([-1.0, -1.0, -1.0]),  # point reflection
]
SCALES = [1e-4, 1e-2, 0.5, 1.0, 3.0, 1e2, 1e4]

failures = []
n_checked = 0
for k in range(20):
    r = lie.random_so3()
    t = rng.uniform(-1, 1, 3) * 10.0**rng.integers(-6, 9)
    for scale in SCALES:
        # genuine elements are accepted
        genuine = lie.sim3(r, t, scale)
        if not lie.is_sim3(genuine):
            failures.append(f"genuine Sim(3), s={scale:g} rejected")
        if not lie.is_sim3(genuine, scale):
            failures.append(f"genuine Sim(3), explicit s={scale:g} rejected")
        for mirror in MIRRORS:
            improper = mirror.dot(r)  # orthogonal, det = -1
            assert np.isclose(np.linalg.det(improper), -1.0)
            p = lie.sim3(improper, t, scale)
            n_checked += 1
            # scale determined by is_sim3 itself
            if lie.is_sim3(p):
                failures.append(
                    f"is_sim3 accepted a reflection (s={scale:g}, "
                    f"mirror={np.diag(mirror).tolist()})")
            # scale given by the caller
            if lie.is_sim3(p, scale):
                failures.append(
                    f"is_sim3(p, s) accepted a reflection (s={scale:g})")
    for mirror in MIRRORS:
        improper = mirror.dot(r)
        if lie.is_so3(improper):
            failures.append("is_so3 accepted a reflection")
        if lie.is_se3(lie.se3(improper, t)):
            failures.append("is_se3 accepted a reflection")

# The plain point reflection, as it could be stored in a transform file.
point_reflection = np.diag([-1.0, -1.0, -1.0, 1.0])
if lie.is_sim3(point_reflection):
    failures.append("is_sim3 accepted diag(-1, -1, -1, 1)")

assert not failures, (
    f"{len(failures)} membership violations in {n_checked} reflections, "
    f"e.g.: {failures[:4]}")
print(f"OK: {n_checked} reflections rejected, genuine elements accepted")
