"""
C06 / variant b: writing a trajectory to a TUM file (path and handle variants,
also embedded in a result archive) and reading it again must give back
bit-identical float64 values for timestamps, positions and quaternions.

Run: cd /tmp/seed4/C06 && /venv/bin/python /tmp/seed4_out/C06/demo_b.py
"""
import os
import sys

sys.path.insert(0, os.getcwd())

import io
import shutil
import tempfile
import warnings

warnings.simplefilter("ignore")

import numpy as np

import evo
from evo.core.result import Result
from evo.core.trajectory import PosePath3D, PoseTrajectory3D
from evo.tools import file_interface

print("evo from:", evo.__file__)


def make_trajectory(stamps: np.ndarray, seed: int) -> PoseTrajectory3D:
    rng = np.random.default_rng(seed)
    n = len(stamps)
    quat = rng.normal(size=(n, 4))
    quat /= np.linalg.norm(quat, axis=1, keepdims=True)
    xyz = rng.normal(size=(n, 3)) * 10.
    traj = PoseTrajectory3D(xyz, quat, stamps)
    ok, details = traj.check()
    assert ok, details
    return traj


def assert_identical(label: str, traj_out, traj_in) -> None:
    assert traj_in.num_poses == traj_out.num_poses, label
    for attr in ("timestamps", "positions_xyz", "orientations_quat_wxyz"):
        if not hasattr(traj_out, attr):
            continue
        a = np.asarray(getattr(traj_out, attr), dtype=np.float64)
        b = np.asarray(getattr(traj_in, attr), dtype=np.float64)
        same = a.view(np.uint64) == b.view(np.uint64)
        assert same.all(), (
            "{}: {} of {} {} values changed in the write/read round trip, "
            "e.g. {!r} -> {!r}".format(label, (~same).sum(), same.size, attr,
                                       a[~same].flat[0], b[~same].flat[0]))


def main() -> None:
    rng = np.random.default_rng(42)
    cases = {
        # typical test data: 0 .. 100 s
        "10 Hz, starting at 0 s":
            make_trajectory(np.arange(1000) * 0.1, 1),
        # real-world data
        "UNIX epoch stamps with ns fractions":
            make_trajectory(
                1700000000. + np.cumsum(rng.uniform(1e-3, 5e-2, 1000)), 2),
        # simulation / high-rate sensor log that starts at (almost) zero
        "10 kHz simulation time starting near 0 s":
            make_trajectory(np.cumsum(rng.uniform(5e-5, 1.5e-4, 300)), 3),
    }
    tmp_dir = tempfile.mkdtemp(prefix="c06_demo_b_")
    try:
        for label, traj in cases.items():
            # file handle variant
            with io.StringIO() as handle:
                file_interface.write_tum_trajectory_file(handle, traj)
                handle.seek(0)
                traj_in = file_interface.read_tum_trajectory_file(handle)
            assert_identical(label + " [TUM, handle]", traj, traj_in)

            # path variant
            tum_path = os.path.join(tmp_dir, "traj.tum")
            file_interface.write_tum_trajectory_file(tum_path, traj)
            traj_in = file_interface.read_tum_trajectory_file(tum_path)
            assert_identical(label + " [TUM, path]", traj, traj_in)

            # KITTI
            path_out = PosePath3D(poses_se3=traj.poses_se3)
            with io.StringIO() as handle:
                file_interface.write_kitti_poses_file(handle, path_out)
                handle.seek(0)
                path_in = file_interface.read_kitti_poses_file(handle)
            assert np.array_equal(np.array(path_out.poses_se3),
                                  np.array(path_in.poses_se3)), label

            # embedded in a result archive
            result = Result()
            result.add_info({"title": "demo"})
            result.add_stats({"rmse": 0.1 + 0.2})
            result.add_np_array("error_array", rng.uniform(size=50))
            result.add_trajectory("estimate", traj)
            zip_path = os.path.join(tmp_dir, "result.zip")
            file_interface.save_res_file(zip_path, result)
            result_in = file_interface.load_res_file(zip_path,
                                                     load_trajectories=True)
            assert result_in.stats == result.stats
            assert_identical(label + " [result archive]", traj,
                             result_in.trajectories["estimate"])
            print("ok:", label)
        print("OK: TUM / KITTI / result archive round trips are lossless")
    finally:
        shutil.rmtree(tmp_dir, ignore_errors=True)


if __name__ == "__main__":
    main()
