#!/usr/bin/env python
"""
C02 / variant c: all-pairs RPE with a delta in radians / degrees. A start
pose can have several matching end poses, so the end indices of the selected
pairs are not ascending. RPE.delta_ids must still have the same order as the
values (k-th value <-> k-th pair end index), also in the stored result.
"""
import os
import sys

sys.path.insert(0, os.getcwd())

import copy
import logging

import numpy as np

logging.disable(logging.CRITICAL)

from evo.core import filters, metrics
from evo.core import lie_algebra as lie
from evo.core.trajectory import PoseTrajectory3D
from evo.core.units import Unit
from evo import main_rpe


def make_trajectories():
    # Yaw angles of the reference: turns, turns back, turns again.
    yaw = np.array([0.0, 0.5, 1.0, 0.5, 0.0, 0.5, 1.0, 1.5, 1.0, 0.5])
    n = len(yaw)
    ref_poses, est_poses = [], []
    for k in range(n):
        ref_poses.append(
            lie.se3(lie.so3_exp(np.array([0.0, 0.0, yaw[k]])),
                    np.array([1.0 * k, 0.0, 0.0])))
        # The estimate drifts: error grows with the index.
        est_poses.append(
            lie.se3(lie.so3_exp(np.array([0.0, 0.0, yaw[k] * 1.02])),
                    np.array([1.0 * k + 0.01 * k * k, 0.02 * k, 0.0])))
    stamps = 10.0 + np.arange(n, dtype=float)
    return (PoseTrajectory3D(poses_se3=ref_poses, timestamps=stamps),
            PoseTrajectory3D(poses_se3=est_poses, timestamps=stamps.copy()))


def definition(ref, est, id_pairs, relation):
    values = []
    for i, j in id_pairs:
        q_rel = np.linalg.inv(ref.poses_se3[i]).dot(ref.poses_se3[j])
        p_rel = np.linalg.inv(est.poses_se3[i]).dot(est.poses_se3[j])
        e = np.linalg.inv(q_rel).dot(p_rel)
        if relation == metrics.PoseRelation.translation_part:
            values.append(np.linalg.norm(e[:3, 3]))
        elif relation == metrics.PoseRelation.full_transformation:
            values.append(np.linalg.norm(e - np.eye(4)))
        elif relation == metrics.PoseRelation.point_distance:
            values.append(
                abs(np.linalg.norm(q_rel[:3, 3]) -
                    np.linalg.norm(p_rel[:3, 3])))
    return np.array(values)


def check(delta, unit, relation):
    ref, est = make_trajectories()
    rel_tol = 0.05
    # Pairs are taken from the reference (exact angles by construction).
    id_pairs = filters.filter_pairs_by_angle(ref.poses_se3, delta,
                                             delta * rel_tol,
                                             unit == Unit.degrees, True)
    exp_ends = [int(j) for _, j in id_pairs]
    assert exp_ends != sorted(exp_ends), "test data not suitable"
    exp_values = definition(ref, est, id_pairs, relation)
    assert len(set(np.round(exp_values, 9))) > 3, "test data not suitable"
    what = f"delta={delta} {unit.value}, all_pairs, {relation.value}"

    rpe = metrics.RPE(relation, delta, unit, rel_tol, all_pairs=True,
                      pairs_from_reference=True)
    rpe.process_data((ref, est))
    assert len(rpe.error) == len(rpe.delta_ids) == len(id_pairs), \
        f"[{what}] wrong number of values / delta_ids"
    assert np.allclose(rpe.error, exp_values, rtol=1e-9, atol=1e-12), \
        f"[{what}] values are not the definition over the selected pairs"
    assert [int(j) for j in rpe.delta_ids] == exp_ends, (
        f"[{what}] RPE.delta_ids {[int(j) for j in rpe.delta_ids]} do not "
        f"have the order of the values, whose pairs end at {exp_ends}")

    result = main_rpe.rpe(copy.deepcopy(ref), copy.deepcopy(est), relation,
                          delta, unit, rel_tol, all_pairs=True,
                          pairs_from_reference=True, ref_name="ref",
                          est_name="est")
    assert np.allclose(result.np_arrays["error_array"], exp_values,
                       rtol=1e-9, atol=1e-12), \
        f"[{what}] main_rpe.rpe(): wrong values"
    assert np.allclose(result.np_arrays["timestamps"],
                       est.timestamps[exp_ends]), (
        f"[{what}] main_rpe.rpe(): the k-th stored timestamp is not the one "
        "of the end pose of the k-th value's pair")
    assert np.allclose(result.trajectories["est"].positions_xyz[1:],
                       est.positions_xyz[exp_ends]), (
        f"[{what}] main_rpe.rpe(): the reduced estimate does not contain "
        "the pair end poses in the order of the values")


if __name__ == "__main__":
    for relation in (metrics.PoseRelation.translation_part,
                     metrics.PoseRelation.full_transformation,
                     metrics.PoseRelation.point_distance):
        check(0.5, Unit.radians, relation)
        check(float(np.rad2deg(1.0)), Unit.degrees, relation)
    print("OK: delta_ids have the order of the values")
