"""
C17 demo (variant a): evo_traj --save_as_tum / --save_as_kitti must ask before
overwriting ANY existing export (trajectories and reference) and must leave the
files untouched if the answer is not 'y'.

Run:  cd /tmp/seed4/C17 && /venv/bin/python /tmp/seed4_out/C17/demo_a.py
"""
import os
import sys

sys.path.insert(0, os.getcwd())

import builtins
import shutil
import tempfile

_tmp_home = tempfile.mkdtemp(prefix="c17a_home_")
os.environ["HOME"] = _tmp_home
os.environ["MPLBACKEND"] = "Agg"

import numpy as np  # noqa: E402

import evo  # noqa: E402
from evo import main_traj, main_traj_parser  # noqa: E402

SENTINEL = b"precious user data - do not overwrite\n"


def write_inputs(directory):
    """Small synthetic TUM and KITTI inputs."""
    n = 12
    stamps = np.arange(n, dtype=float)
    tum = np.column_stack((stamps, stamps * 0.1, np.zeros(n), np.zeros(n),
                           np.zeros(n), np.zeros(n), np.zeros(n), np.ones(n)))
    kitti = np.array([
        np.hstack((np.eye(3), [[0.1 * i], [0.0], [0.0]])).flatten()
        for i in range(n)
    ])
    paths = {}
    for name in ("est", "gt"):
        paths[name + "_tum"] = os.path.join(directory, name + "_tum.txt")
        paths[name + "_kitti"] = os.path.join(directory, name + "_kitti.txt")
        np.savetxt(paths[name + "_tum"], tum, delimiter=" ")
        np.savetxt(paths[name + "_kitti"], kitti, delimiter=" ")
    return paths


def run_traj(argv, answer):
    """Runs evo_traj in-process, returns the list of prompts that were shown."""
    prompts = []

    def fake_input(msg=""):
        prompts.append(msg)
        return answer

    real_input = builtins.input
    builtins.input = fake_input
    try:
        args = main_traj_parser.parser().parse_args(argv)
        main_traj.run(args)
    finally:
        builtins.input = real_input
    return prompts


def main():
    print("evo imported from", evo.__file__)
    work = tempfile.mkdtemp(prefix="c17a_work_")
    old_cwd = os.getcwd()
    try:
        inputs = write_inputs(work)
        os.chdir(work)
        cases = {
            "tum": (["tum", inputs["est_tum"], "--ref", inputs["gt_tum"]],
                    ["--save_as_tum", "--save_as_kitti"],
                    ["est_tum.tum", "gt_tum.tum", "est_tum.kitti",
                     "gt_tum.kitti"]),
            "kitti": (["kitti", inputs["est_kitti"], "--ref",
                       inputs["gt_kitti"]], ["--save_as_kitti"],
                      ["est_kitti.kitti", "gt_kitti.kitti"]),
        }
        for label, (base, save_opts, dests) in cases.items():
            # 1) declined ('n', empty, something else): nothing may change.
            for answer in ("n", "", "yes"):
                for dest in dests:
                    with open(dest, "wb") as f:
                        f.write(SENTINEL)
                prompts = run_traj(base + save_opts, answer)
                for dest in dests:
                    with open(dest, "rb") as f:
                        content = f.read()
                    assert content == SENTINEL, (
                        "[{}] existing file {} was overwritten although the "
                        "answer was {!r} ({} prompt(s) were shown for {} "
                        "existing files)".format(label, dest, answer,
                                                 len(prompts), len(dests)))
                assert len(prompts) == len(dests), (
                    "[{}] expected {} overwrite prompts, got {}".format(
                        label, len(dests), len(prompts)))
            # 2) confirmed with 'y': everything is replaced.
            prompts = run_traj(base + save_opts, "y")
            assert len(prompts) == len(dests)
            for dest in dests:
                with open(dest, "rb") as f:
                    assert f.read() != SENTINEL, dest + " not replaced"
            # 3) --no_warnings: replaced without any prompt.
            for dest in dests:
                with open(dest, "wb") as f:
                    f.write(SENTINEL)
            prompts = run_traj(base + save_opts + ["--no_warnings"], "n")
            assert prompts == [], "prompted despite --no_warnings"
            for dest in dests:
                with open(dest, "rb") as f:
                    assert f.read() != SENTINEL, dest + " not replaced"
        print("OK: evo_traj never overwrote an export without confirmation")
    finally:
        os.chdir(old_cwd)
        shutil.rmtree(work, ignore_errors=True)
        shutil.rmtree(_tmp_home, ignore_errors=True)


if __name__ == "__main__":
    main()
