"""
C07 / variant a: files that start with a UTF-8 byte-order mark must be loaded
to exactly the numbers in the file (the BOM is ignored, nothing else is).

Run as:  cd /tmp/seed4/C07 && /venv/bin/python /tmp/seed4_out/C07/demo_a.py
"""
import os
import sys

sys.path.insert(0, os.getcwd())

import shutil
import tempfile

import numpy as np

from evo.tools import file_interface

BOM = b"\xef\xbb\xbf"

TUM_ROWS = [
    "1403636579.763555527 0.5 -1.25 2.0 0.0 0.0 0.0 1.0",
    "1403636579.863555527 0.6 -1.35 2.1 0.0 0.0 0.7071067811865476 0.7071067811865476",
    "1403636579.963555527 0.7 -1.45 2.2 1.0 0.0 0.0 0.0",
]

EUROC_LINES = [
    "#timestamp, p_RS_R_x [m], p_RS_R_y [m], p_RS_R_z [m], q_RS_w [], "
    "q_RS_x [], q_RS_y [], q_RS_z []",
    "1403636580838555648,4.688319,-1.786938,0.783338,0.534108,-0.153029,-0.827383,-0.082152",
    "1403636580843555584,4.688177,-1.786770,0.787350,0.534640,-0.152990,-0.826976,-0.082863",
]


def reference_tum(rows):
    """independent parser of the TUM convention"""
    values = np.array([[float(v) for v in row.split(" ")] for row in rows])
    return values[:, 0], values[:, 1:4], values[:, [7, 4, 5, 6]]


def main():
    tmp_dir = tempfile.mkdtemp(prefix="c07_demo_a_")
    try:
        # --- TUM file with BOM, first line is a data row ------------------
        stamps_ref, xyz_ref, quat_ref = reference_tum(TUM_ROWS)
        for newline in ("\n", "\r\n"):
            tum_path = os.path.join(tmp_dir, "bom.tum")
            with open(tum_path, "wb") as f:
                f.write(BOM + (newline.join(TUM_ROWS) + newline).encode())
            assert file_interface.has_utf8_bom(tum_path)
            traj = file_interface.read_tum_trajectory_file(tum_path)
            assert traj.num_poses == len(TUM_ROWS), \
                "BOM TUM file: expected {} poses, got {}".format(
                    len(TUM_ROWS), traj.num_poses)
            assert np.array_equal(traj.timestamps, stamps_ref), \
                "BOM TUM file: timestamps differ from the file content:\n" \
                "  loaded   {!r}\n  expected {!r}".format(
                    traj.timestamps.tolist(), stamps_ref.tolist())
            assert np.array_equal(traj.positions_xyz, xyz_ref), \
                "BOM TUM file: positions differ from the file content"
            assert np.array_equal(traj.orientations_quat_wxyz, quat_ref), \
                "BOM TUM file: quaternions differ from the file content"

        # The same content without BOM must give the same trajectory.
        plain_path = os.path.join(tmp_dir, "plain.tum")
        with open(plain_path, "wb") as f:
            f.write(("\n".join(TUM_ROWS) + "\n").encode())
        traj_plain = file_interface.read_tum_trajectory_file(plain_path)
        assert np.array_equal(traj_plain.timestamps, stamps_ref)

        # --- EuRoC file with BOM, first line is the usual '#' header ------
        euroc_path = os.path.join(tmp_dir, "data.csv")
        with open(euroc_path, "wb") as f:
            f.write(BOM + ("\n".join(EUROC_LINES) + "\n").encode())
        try:
            traj = file_interface.read_euroc_csv_trajectory(euroc_path)
        except file_interface.FileInterfaceException as e:
            raise AssertionError(
                "well-formed EuRoC csv with BOM + header comment "
                "was rejected: {}".format(e))
        expected = np.array([1403636580838555648, 1403636580843555584]) / 1e9
        assert traj.num_poses == 2, \
            "BOM EuRoC file: expected 2 poses, got {}".format(traj.num_poses)
        assert np.allclose(traj.timestamps, expected, rtol=0, atol=1e-6), \
            "BOM EuRoC file: wrong timestamps {!r}".format(
                traj.timestamps.tolist())
        assert np.array_equal(traj.positions_xyz[0],
                              [4.688319, -1.786938, 0.783338])
        assert np.array_equal(traj.orientations_quat_wxyz[0],
                              [0.534108, -0.153029, -0.827383, -0.082152])
    finally:
        shutil.rmtree(tmp_dir, ignore_errors=True)
    print("demo_a: OK")


if __name__ == "__main__":
    main()
