import os
import sys
sys.path.insert(0, os.getcwd())

import numpy as np

from evo.core import filters, metrics
from evo.core import lie_algebra as lie
from evo.core.metrics import Unit


def make_poses(points):
    return [lie.se3(np.eye(3), np.array(p, dtype=float)) for p in points]


def path_lengths(poses):
    xyz = np.array([p[:3, 3] for p in poses])
    steps = np.linalg.norm(xyz[1:] - xyz[:-1], axis=1)
    return np.concatenate(([0.0], np.cumsum(steps)))


def oracle_all_pairs_path(poses, delta, tol):
    # for every i: the closest later pose j, reported iff |path - delta| <= tol
    acc = path_lengths(poses)
    pairs = []
    for i in range(len(poses) - 1):
        errors = [abs(acc[j] - acc[i] - delta) for j in range(i + 1, len(acc))]
        best = min(errors)
        if best <= tol + 1e-12:
            pairs.append((i, i + 1 + errors.index(best)))
    return pairs


def as_ints(pairs):
    return [(int(i), int(j)) for i, j in pairs]


# integer steps along x and z (exact grid of the property)
poses = make_poses([(0, 0, 0), (1, 0, 0), (1, 0, 1), (2, 0, 1), (2, 0, 2),
                    (3, 0, 2), (4, 0, 2), (4, 0, 3)])

# --- 1) all-pairs mode with a delta in meters through the high-level API
delta, rel_tol = 2.0, 0.1
expected = oracle_all_pairs_path(poses, delta, delta * rel_tol)
assert expected == [(0, 2), (1, 3), (2, 4), (3, 5), (4, 6), (5, 7)], expected
got = as_ints(
    metrics.id_pairs_from_delta(poses, delta, Unit.meters, rel_tol,
                                all_pairs=True))
assert got == expected, (
    "meters / all_pairs: id_pairs_from_delta did not return one pair per "
    f"start index that realises delta:\n  expected {expected}\n  got      {got}"
)

# --- 2) same through the RPE metric (pairs end up in delta_ids)
from evo.core import trajectory
traj = trajectory.PosePath3D(poses_se3=poses)
rpe = metrics.RPE(metrics.PoseRelation.translation_part, delta=delta,
                  delta_unit=Unit.meters, rel_delta_tol=rel_tol,
                  all_pairs=True)
rpe.process_data((traj, traj))
assert [int(j) for j in rpe.delta_ids] == [j for _, j in expected], (
    f"RPE all_pairs (m): delta_ids {rpe.delta_ids} != "
    f"{[j for _, j in expected]}")

# --- 3) a delta that all-pairs mode cannot realise within tolerance must be
# reported as FilterException (steps are 1 m: 2.5 m +- 1% is never hit)
try:
    bogus = metrics.id_pairs_from_delta(poses, 2.5, Unit.meters, 0.01,
                                        all_pairs=True)
except filters.FilterException:
    pass
else:
    raise AssertionError(
        "meters / all_pairs: 2.5 m +- 1% matches no pair, but no "
        f"FilterException was raised; got {as_ints(bogus)}")

# --- 4) consecutive mode is unaffected and direct keyword call still works
cons = as_ints(metrics.id_pairs_from_delta(poses, 2.0, Unit.meters, rel_tol))
assert cons == [(2, 4), (4, 6)], cons
direct = as_ints(filters.filter_pairs_by_path(poses, 2.0, 0.2, all_pairs=True))
assert direct == expected, direct

print("demo_b: OK")
