"""
C09 / variant c: for every genuine Sim(3) element S (scales 1e-4..1e4,
translations 1e-6..1e9): is_sim3 accepts S, S * S^-1 = I and the scale factor
is recovered to rounding.
Run: cd /tmp/seed4/C09 && /venv/bin/python /tmp/seed4_out/C09/demo_c.py
"""
import os
import sys

sys.path.insert(0, os.getcwd())

import warnings

import numpy as np

from evo.core import lie_algebra as lie

warnings.simplefilter("ignore")

rng = np.random.default_rng(99)
np.random.seed(99)

SCALES = [1e-4, 3e-4, 1e-3, 2e-3, 5e-3, 1e-2, 0.1, 1.0, 7.0, 1e2, 1e3, 1e4]
T_MAGNITUDES = [1e-6, 1e-3, 1.0, 1e3, 1e6, 1e9]

failures = []
n = 0
for scale in SCALES:
    for t_mag in T_MAGNITUDES:
        for _ in range(3):
            n += 1
            r = lie.random_so3()
            t = rng.normal(size=3)
            t *= t_mag / np.linalg.norm(t)
            S = lie.sim3(r, t, scale)
            tag = f"s={scale:g}, |t|={t_mag:g}"
            # membership
            if not lie.is_sim3(S):
                failures.append(f"is_sim3 rejects a genuine element ({tag})")
            if not lie.is_sim3(S, scale):
                failures.append(f"is_sim3(S, s) rejects a genuine element "
                                f"({tag})")
            # scale recovery
            s_rec = lie.sim3_scale(S)
            if not abs(s_rec - scale) <= 1e-12 * scale:
                failures.append(f"scale {s_rec!r} not recovered ({tag})")
            # inverse
            try:
                S_inv = lie.sim3_inverse(S)
            except Exception as e:  # noqa
                failures.append(
                    f"sim3_inverse raised {type(e).__name__}: {e} ({tag})")
                continue
            s_inv = lie.sim3_scale(S_inv)
            if not abs(s_inv * scale - 1.0) <= 1e-12:
                failures.append(f"inverse scale {s_inv!r} ({tag})")
            for prod in (S.dot(S_inv), S_inv.dot(S)):
                err = np.abs(prod - np.eye(4))
                # rotation block to rounding, translation column relative
                # to the magnitudes involved
                tol_t = 1e-12 * max(1.0, t_mag, t_mag / scale)
                if not (err[:3, :3].max() <= 1e-12 and
                        err[:3, 3].max() <= tol_t and
                        np.array_equal(prod[3, :], [0, 0, 0, 1])):
                    failures.append(f"S * S^-1 != I, max error "
                                    f"{err.max():.3g} ({tag})")

assert not failures, (f"{len(failures)} violations for {n} Sim(3) elements, "
                      "e.g.:\n  " + "\n  ".join(failures[:6]))
print(f"OK: Sim(3) laws hold for {n} elements")
