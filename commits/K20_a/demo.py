"""
C20 / variant a: coordinate-frame markers must start at the pose positions
and point along the pose's own axes (columns of the rotation matrix), in every
plot mode.
Run: cd /tmp/seed4/C20 && /venv/bin/python /tmp/seed4_out/C20/demo_a.py
"""
import os
import sys

sys.path.insert(0, os.getcwd())

import shutil
import tempfile

_home = tempfile.mkdtemp(prefix="c20_demo_a_")
os.environ["HOME"] = _home

try:
    import matplotlib
    matplotlib.use("Agg")
    import matplotlib.pyplot as plt
    import numpy as np
    from matplotlib.collections import LineCollection
    from mpl_toolkits.mplot3d import art3d

    import evo.core.transformations as tr
    from evo.core import trajectory
    from evo.tools import plot

    matplotlib.use("Agg")

    # A short path with poses that are rotated about all three axes
    # (non-symmetric rotation matrices).
    n = 6
    rng = np.random.default_rng(20)
    positions = np.cumsum(rng.uniform(0.5, 1.5, size=(n, 3)), axis=0)
    poses = []
    for i in range(n):
        pose = tr.euler_matrix(0.3 + 0.2 * i, -0.4 + 0.1 * i, 0.5 + 0.3 * i,
                               "sxyz")
        pose[:3, 3] = positions[i]
        poses.append(pose)
    traj = trajectory.PosePath3D(poses_se3=poses)
    scale = 0.5

    columns = {
        "xy": [0, 1], "xz": [0, 2], "yx": [1, 0], "yz": [1, 2],
        "zx": [2, 0], "zy": [2, 1], "xyz": [0, 1, 2]
    }

    for mode in plot.PlotMode:
        fig = plt.figure()
        ax = plot.prepare_axis(fig, mode)
        plot.draw_coordinate_axes(ax, traj, mode, marker_scale=scale)
        collections = [
            c for c in ax.collections
            if isinstance(c, (LineCollection, art3d.Line3DCollection))
        ]
        assert len(collections) == 1, "expected one marker collection"
        collection = collections[0]
        if isinstance(collection, art3d.Line3DCollection):
            segments = np.asarray(collection._segments3d, dtype=float)
        else:
            segments = np.asarray(collection.get_segments(), dtype=float)
        assert len(segments) == 3 * n, (
            f"{mode.value}: expected {3 * n} marker segments, "
            f"got {len(segments)}")
        cols = columns[mode.value]
        for axis in range(3):  # x, y, z axis of the pose frames
            for i, pose in enumerate(poses):
                start = pose[:3, 3][cols]
                end = (pose[:3, 3] + scale * pose[:3, axis])[cols]
                seg = segments[axis * n + i]
                assert np.allclose(seg[0], start, atol=1e-9), (
                    f"plot mode {mode.value}: marker of pose {i} doesn't "
                    f"start at the pose position: {seg[0]} vs. {start}")
                assert np.allclose(seg[1], end, atol=1e-9), (
                    f"plot mode {mode.value}: {'xyz'[axis]}-axis marker of "
                    f"pose {i} doesn't point along the pose's own "
                    f"{'xyz'[axis]}-axis: ends at {seg[1]}, expected {end}")
        plt.close(fig)
    print("OK: coordinate-frame markers point along the pose axes")
finally:
    shutil.rmtree(_home, ignore_errors=True)
