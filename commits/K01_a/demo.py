import os
import sys

sys.path.insert(0, os.getcwd())

import shutil
import tempfile

TMP = tempfile.mkdtemp(prefix="c01_demo_a_")
os.environ["HOME"] = TMP

import numpy as np
from scipy.spatial.transform import Rotation

"""
evo_ape tum ref est --motion_filter 0.5 10 --save_results out.zip

The CLI documents the second motion filter value as an angle in DEGREES.
The stored error values must belong to exactly the pose pairs that remain
after motion filtering of both files + time association.
The trajectory below turns (almost) on the spot, so most poses are kept
because of the angle criterion, not because of the distance criterion.
"""


def make_traj(n, seed):
    rng = np.random.default_rng(seed)
    stamps = 1.7e9 + 0.1 * np.arange(n)
    yaw = np.deg2rad(3.0) * np.arange(n)  # 3 deg per pose
    # slow drift: 0.02 m per pose -> 0.5 m only every 25 poses
    xyz = np.column_stack(
        (0.02 * np.arange(n), np.zeros(n), np.zeros(n)))
    xyz = xyz + rng.normal(scale=1e-4, size=xyz.shape)
    rotvecs = np.column_stack((np.zeros(n), np.zeros(n), yaw))
    quat_xyzw = Rotation.from_rotvec(rotvecs).as_quat()
    return stamps, xyz, quat_xyzw


def write_tum(path, stamps, xyz, quat_xyzw):
    np.savetxt(path, np.column_stack((stamps, xyz, quat_xyzw)), fmt="%.12f")


def reference_motion_filter(xyz, quat_xyzw, dist_thresh, angle_thresh_deg):
    """independent re-implementation of the documented filter"""
    rots = Rotation.from_quat(quat_xyzw)
    steps = np.linalg.norm(np.diff(xyz, axis=0), axis=1)
    acc = np.concatenate(([0.0], np.cumsum(steps)))
    kept = [0]
    for i in range(1, len(xyz)):
        angle = np.rad2deg((rots[kept[-1]].inv() * rots[i]).magnitude())
        if (acc[i] - acc[kept[-1]] >= dist_thresh
                or angle >= angle_thresh_deg):
            kept.append(i)
    return np.array(kept)


def main():
    from evo import main_ape, main_ape_parser
    from evo.tools import file_interface

    n = 200
    stamps, xyz_ref, q_ref = make_traj(n, seed=1)
    _, xyz_est, q_est = make_traj(n, seed=2)
    xyz_est = xyz_est + np.array([0.0, 0.05, 0.0])
    ref_file = os.path.join(TMP, "ref.tum")
    est_file = os.path.join(TMP, "est.tum")
    out_zip = os.path.join(TMP, "out.zip")
    write_tum(ref_file, stamps, xyz_ref, q_ref)
    write_tum(est_file, stamps, xyz_est, q_est)

    dist_thresh, angle_thresh_deg = 0.5, 10.0
    args = main_ape_parser.parser().parse_args([
        "tum", ref_file, est_file, "--motion_filter",
        str(dist_thresh),
        str(angle_thresh_deg), "--save_results", out_zip, "--no_warnings",
        "--silent"
    ])
    main_ape.run(args)
    result = file_interface.load_res_file(out_zip)
    errors = result.np_arrays["error_array"]
    timestamps = result.np_arrays["timestamps"]

    # Expected: filter both, keep the pairs with identical timestamps.
    xyz_ref_l = np.loadtxt(ref_file)[:, 1:4]
    xyz_est_l = np.loadtxt(est_file)[:, 1:4]
    ids_ref = reference_motion_filter(xyz_ref_l, q_ref, dist_thresh,
                                      angle_thresh_deg)
    ids_est = reference_motion_filter(xyz_est_l, q_est, dist_thresh,
                                      angle_thresh_deg)
    common = np.intersect1d(ids_ref, ids_est)
    expected = np.linalg.norm(xyz_est_l[common] - xyz_ref_l[common], axis=1)

    assert len(errors) == len(expected), (
        "evo_ape --motion_filter {} {}: expected {} pose pairs after "
        "filtering with a {} DEGREE angle threshold, but the result has {} "
        "error values".format(dist_thresh, angle_thresh_deg, len(expected),
                              angle_thresh_deg, len(errors)))
    assert np.allclose(timestamps, stamps[common], atol=1e-6, rtol=0), \
        "error values belong to the wrong poses"
    assert np.allclose(errors, expected, atol=1e-9, rtol=1e-9), \
        "APE values differ from the point distances of the remaining pairs"
    print("OK: {} pose pairs, APE values as expected".format(len(errors)))


if __name__ == "__main__":
    try:
        main()
    finally:
        shutil.rmtree(TMP, ignore_errors=True)
