import os
import sys

sys.path.insert(0, os.getcwd())

import shutil
import tempfile

_TMP_HOME = tempfile.mkdtemp(prefix="c15_home_")
os.environ["HOME"] = _TMP_HOME
os.environ["MPLBACKEND"] = "Agg"

import numpy as np

"""
C15 / variant a: evo_traj --transform_right T --propagate_transform must export
the trajectory where the right-multiplied transformation is applied to every
relative motion and the resulting drift is propagated to all following poses:
    P'_0 = P_0,   P'_j = P'_{j-1} * (P_{j-1}^-1 * P_j * T)
"""


def quat_xyzw_to_rot(q):
    x, y, z, w = q / np.linalg.norm(q)
    return np.array([
        [1 - 2 * (y * y + z * z), 2 * (x * y - z * w), 2 * (x * z + y * w)],
        [2 * (x * y + z * w), 1 - 2 * (x * x + z * z), 2 * (y * z - x * w)],
        [2 * (x * z - y * w), 2 * (y * z + x * w), 1 - 2 * (x * x + y * y)],
    ])


def tum_to_poses(mat):
    poses = []
    for row in mat:
        p = np.eye(4)
        p[:3, :3] = quat_xyzw_to_rot(row[4:8])
        p[:3, 3] = row[1:4]
        poses.append(p)
    return poses


def run_evo_traj(argv):
    from evo import main_traj, main_traj_parser
    args = main_traj_parser.parser().parse_args(argv)
    main_traj.run(args)


def main():
    import evo
    print("using evo from", evo.__file__)
    rng = np.random.RandomState(15)
    n = 6
    stamps = 10.0 + 0.1 * np.arange(n)
    xyz = rng.uniform(-2, 2, size=(n, 3))
    quat = rng.normal(size=(n, 4))
    quat /= np.linalg.norm(quat, axis=1)[:, None]
    tum_in = np.column_stack((stamps, xyz, quat))

    # SE(3) transformation: 30 deg about z plus a translation.
    a = np.deg2rad(30.0)
    T = np.eye(4)
    T[:3, :3] = [[np.cos(a), -np.sin(a), 0], [np.sin(a), np.cos(a), 0],
                 [0, 0, 1]]
    T[:3, 3] = [0.3, -0.2, 0.1]

    workdir = tempfile.mkdtemp(prefix="c15_a_")
    old_cwd = os.getcwd()
    try:
        os.chdir(workdir)
        np.savetxt("est.txt", tum_in, delimiter=" ")
        np.save("T.npy", T)
        run_evo_traj([
            "tum", "est.txt", "--transform_right", "T.npy",
            "--propagate_transform", "--save_as_tum", "--no_warnings",
            "--silent"
        ])
        out = np.loadtxt("est.tum")
    finally:
        os.chdir(old_cwd)
        shutil.rmtree(workdir, ignore_errors=True)

    poses_in = tum_to_poses(tum_in)
    expected = [poses_in[0]]
    for j in range(1, n):
        rel = np.linalg.inv(poses_in[j - 1]).dot(poses_in[j]).dot(T)
        expected.append(expected[j - 1].dot(rel))
    poses_out = tum_to_poses(out)

    assert out.shape == tum_in.shape, "unexpected shape of exported file"
    assert np.allclose(out[:, 0], stamps), "timestamps changed"
    for j, (p_out, p_exp) in enumerate(zip(poses_out, expected)):
        assert np.allclose(p_out, p_exp, atol=1e-6), (
            "C15 violated: pose {} exported by 'evo_traj tum --transform_right "
            "--propagate_transform' is not the propagated right-multiplied "
            "pose.\nexported:\n{}\nexpected:\n{}".format(j, p_out, p_exp))
    print("OK: propagated right-multiplication exported correctly")


if __name__ == "__main__":
    try:
        main()
    finally:
        shutil.rmtree(_TMP_HOME, ignore_errors=True)
