import os
import sys

sys.path.insert(0, os.getcwd())

import copy

import numpy as np

import evo.core.transformations as tr
from evo.core import lie_algebra as lie
from evo.core.trajectory import PoseTrajectory3D

print("evo from:", os.path.dirname(lie.__file__))


def random_trajectory(rng, n, from_matrices):
    xyz = np.cumsum(rng.normal(size=(n, 3)), axis=0)
    quat = rng.normal(size=(n, 4))
    quat /= np.linalg.norm(quat, axis=1)[:, np.newaxis]
    stamps = np.arange(n, dtype=float)
    if from_matrices:
        poses = [
            lie.se3(tr.quaternion_matrix(q)[:3, :3], p)
            for q, p in zip(quat, xyz)
        ]
        return PoseTrajectory3D(poses_se3=poses, timestamps=stamps)
    return PoseTrajectory3D(xyz, quat, stamps)


rng = np.random.default_rng(3)
problems = []
for from_matrices in (True, False):
    for n in (1, 2, 3, 8, 40):
        traj = random_trajectory(rng, n, from_matrices)
        before = [np.array(p) for p in copy.deepcopy(traj).poses_se3]
        t = lie.se3(tr.random_rotation_matrix(rng.random(3))[:3, :3],
                    0.1 * rng.normal(size=3))

        # Documented effect of the propagating right multiplication: the
        # first pose is kept and every relative motion D_i = P_i^-1 * P_i+1
        # is replaced by D_i * T.
        expected = [before[0]]
        for p_i, p_j in zip(before, before[1:]):
            d_i = np.linalg.inv(p_i).dot(p_j)
            expected.append(expected[-1].dot(d_i).dot(t))

        _ = traj.orientations_quat_wxyz  # read a view in between
        traj.transform(t, right_mul=True, propagate=True)

        valid, details = traj.check()
        if not valid:
            problems.append(f"n={n}: check() fails: {details}")
        if traj.num_poses != n or len(traj.timestamps) != n:
            problems.append(f"n={n}: wrong number of poses / stamps")
        for i, (pose, exp, xyz, quat) in enumerate(
                zip(traj.poses_se3, expected, traj.positions_xyz,
                    traj.orientations_quat_wxyz)):
            if not np.allclose(pose, exp, atol=1e-8):
                problems.append(
                    f"n={n} from_matrices={from_matrices}: pose {i} is not "
                    "the propagated pose P'_(i-1) * D_(i-1) * T")
                break
            if not np.allclose(xyz, exp[:3, 3]):
                problems.append(f"n={n}: position view {i} is off")
                break
            if not np.allclose(tr.quaternion_matrix(quat)[:3, :3],
                               exp[:3, :3], atol=1e-6):
                problems.append(f"n={n}: quaternion view {i} is off")
                break
        # The relative motions of the result must all be D_i * T.
        for i in range(n - 1):
            rel = lie.relative_se3(traj.poses_se3[i], traj.poses_se3[i + 1])
            d_i = lie.relative_se3(before[i], before[i + 1])
            if not np.allclose(rel, d_i.dot(t), atol=1e-8):
                problems.append(f"n={n}: relative motion {i} is not D_i*T")
                break

print(f"{len(problems)} violations")
for line in problems[:6]:
    print("  ", line)
assert not problems, (
    "transform(right_mul=True, propagate=True) does not propagate: " +
    problems[0])
print("OK")
