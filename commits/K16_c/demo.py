#!/usr/bin/env python
"""
C16 / variant c: writing a trajectory (or a result that contains it) to a file
must leave the trajectory object bit-for-bit unchanged.

Run as:  cd /tmp/seed4/C16 && /venv/bin/python /tmp/seed4_out/C16/demo_c.py
"""
import os
import sys

sys.path.insert(0, os.getcwd())

import copy
import io
import logging

import numpy as np

import evo
from evo.core import result
from evo.core import transformations as tr
from evo.core.trajectory import PoseTrajectory3D
from evo.tools import file_interface

logging.disable(logging.CRITICAL)
print("using evo from", os.path.dirname(evo.__file__))

np.random.seed(16)
n = 25
stamps = 0.1 * np.arange(n)
xyz = np.cumsum(np.random.rand(n, 3), axis=0)
quat_wxyz = np.array([tr.random_quaternion() for _ in range(n)])
# Quaternions as they typically come out of a text file or a float32 message:
# of unit length only up to a few 1e-6 (still accepted by traj.check()).
quat_wxyz *= (1.0 + 5e-6)


def make_traj() -> PoseTrajectory3D:
    return PoseTrajectory3D(xyz, quat_wxyz, stamps)


def assert_same(traj: PoseTrajectory3D, snapshot: PoseTrajectory3D,
                step: str) -> None:
    assert np.array_equal(traj.timestamps, snapshot.timestamps), (
        "{} changed the timestamps of the trajectory".format(step))
    assert np.array_equal(traj.positions_xyz, snapshot.positions_xyz), (
        "{} changed the positions of the trajectory".format(step))
    changed = np.argwhere(
        traj.orientations_quat_wxyz != snapshot.orientations_quat_wxyz)
    assert changed.size == 0, (
        "{} changed the orientation quaternions of the trajectory object "
        "that was only supposed to be written: {} of {} values differ, "
        "e.g. {!r} -> {!r}".format(
            step, len(changed), snapshot.orientations_quat_wxyz.size,
            snapshot.orientations_quat_wxyz[tuple(changed[0])],
            traj.orientations_quat_wxyz[tuple(changed[0])]))


# The input is a valid trajectory.
valid, details = make_traj().check()
assert valid, "demo input is expected to be a valid trajectory: " + str(
    details)

# 1) Writing a TUM file.
traj = make_traj()
snapshot = copy.deepcopy(traj)
with io.StringIO() as handle:
    file_interface.write_tum_trajectory_file(handle, traj)
assert_same(traj, snapshot, "write_tum_trajectory_file()")

# 2) Saving a result that carries the trajectory.
traj = make_traj()
snapshot = copy.deepcopy(traj)
res = result.Result()
res.add_info({"title": "demo"})
res.add_stats({"rmse": 1.0})
res.add_np_array("error_array", np.ones(n))
res.add_trajectory("estimate", traj)
with io.BytesIO() as handle:
    file_interface.save_res_file(handle, res)
assert_same(traj, snapshot, "save_res_file()")

print("OK: writing files left the trajectory untouched")
