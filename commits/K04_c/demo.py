import os
import sys

sys.path.insert(0, os.getcwd())

import copy

import numpy as np

from evo.core import geometry
from evo.core import lie_algebra as lie
from evo.core.trajectory import PosePath3D


def rmse(xyz_a, xyz_b):
    return float(np.sqrt(((xyz_a - xyz_b)**2).sum(axis=1).mean()))


def make_pair(n_poses, seed, from_matrices, noise):
    rng = np.random.RandomState(seed)
    xyz = np.cumsum(rng.uniform(-1.0, 1.0, (n_poses, 3)), axis=0)
    quat = rng.normal(size=(n_poses, 4))
    quat /= np.linalg.norm(quat, axis=1)[:, None]
    ref = PosePath3D(xyz, quat)
    est = copy.deepcopy(ref)
    est.transform(lie.se3(lie.so3_exp(rng.uniform(-1, 1, 3)),
                          rng.uniform(-5, 5, 3)))
    est.scale(1.7)
    est = PosePath3D(
        est.positions_xyz + rng.normal(scale=noise, size=(n_poses, 3)),
        est.orientations_quat_wxyz)
    if from_matrices:
        ref = PosePath3D(poses_se3=[np.array(p) for p in ref.poses_se3])
        est = PosePath3D(poses_se3=[np.array(p) for p in est.poses_se3])
    return ref, est


for from_matrices in (True, False):
    for seed in range(4):
        for num_poses, n in ((40, 3), (40, 10), (40, 39), (40, 40), (40, -1)):
            for mode in (dict(), dict(correct_scale=True),
                         dict(correct_only_scale=True)):
                ref, est = make_pair(num_poses, seed, from_matrices, 0.3)
                ref_before = copy.deepcopy(ref)
                est_before = copy.deepcopy(est)
                r, t, s = est.align(ref, n=n, **mode)
                what = "{} poses, n={}, {}, seed={}, matrices={}".format(
                    num_poses, n, mode, seed, from_matrices)

                # Reference untouched.
                assert np.array_equal(ref.positions_xyz,
                                      ref_before.positions_xyz), what

                # The parameters must be those of the first n pose pairs.
                used = slice(None) if n == -1 else slice(0, n)
                r_x, t_x, s_x = geometry.umeyama_alignment(
                    est_before.positions_xyz[used].T,
                    ref_before.positions_xyz[used].T, bool(mode))
                assert np.allclose(r, r_x, atol=1e-9) and np.allclose(
                    t, t_x, atol=1e-9) and np.isclose(s, s_x, atol=1e-9), (
                        what + ": alignment parameters were not determined "
                        "from the first n pose pairs")

                if "correct_only_scale" in mode:
                    continue
                # Optimal over the used poses: not worse than before and not
                # worse than the alignment computed from exactly those poses.
                before = rmse(est_before.positions_xyz[used],
                              ref.positions_xyz[used])
                after = rmse(est.positions_xyz[used], ref.positions_xyz[used])
                best = rmse(
                    (s_x * (r_x @ est_before.positions_xyz[used].T)).T + t_x,
                    ref.positions_xyz[used])
                assert after <= before + 1e-9, (
                    "{}: RMSE over the first n poses got worse "
                    "({:.4f} -> {:.4f})".format(what, before, after))
                assert after <= best + 1e-9, (
                    "{}: RMSE {:.4f} over the first n poses is not minimal "
                    "(possible: {:.4f})".format(what, after, best))
print("ok")
