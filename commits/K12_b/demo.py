"""
C12 / variant b: unit changes of APE/RPE values.
 * conversions within lengths (mm/cm/m/km) and within angles (rad/deg) multiply
   every value by the exact factor and update the unit
 * conversions between an angle and a length are refused (MetricsException),
   values and unit stay untouched
 * unit-less / percent values cannot be converted
"""
import os
import sys

sys.path.insert(0, os.getcwd())

import copy
import itertools
import logging
import math

import numpy as np

import evo
from evo import main_ape
from evo.core import lie_algebra as lie
from evo.core import metrics
from evo.core.metrics import PoseRelation
from evo.core.trajectory import PoseTrajectory3D
from evo.core.units import Unit

logging.disable(logging.CRITICAL)

LENGTHS = {
    Unit.millimeters: 1e-3,
    Unit.centimeters: 1e-2,
    Unit.meters: 1.0,
    Unit.kilometers: 1e3
}
ANGLES = {Unit.radians: 1.0, Unit.degrees: math.pi / 180}


def make_trajectories(n=30):
    np.random.seed(3)
    stamps = np.arange(n) * 0.1
    ref = PoseTrajectory3D(poses_se3=[lie.random_se3() for _ in range(n)],
                           timestamps=stamps)
    est = PoseTrajectory3D(poses_se3=[lie.random_se3() for _ in range(n)],
                           timestamps=stamps)
    return ref, est


def fresh_metric(relation, ref, est, kind="ape"):
    if kind == "ape":
        metric = metrics.APE(relation)
    else:
        metric = metrics.RPE(relation, delta=1, delta_unit=Unit.frames)
    metric.process_data((copy.deepcopy(ref), copy.deepcopy(est)))
    return metric


def to_unit(metric, unit):
    """Bring a metric from its native unit to some start unit."""
    if metric.unit is not unit:
        metric.change_unit(unit)
    assert metric.unit is unit
    return metric


def check_allowed(ref, est):
    for table, relation in ((LENGTHS, PoseRelation.translation_part),
                            (ANGLES, PoseRelation.rotation_angle_rad)):
        for old, new in itertools.permutations(table, 2):
            for kind in ("ape", "rpe"):
                metric = to_unit(fresh_metric(relation, ref, est, kind), old)
                before = metric.error.copy()
                metric.change_unit(new)
                assert metric.unit is new
                assert np.allclose(metric.error,
                                   before * (table[old] / table[new]),
                                   rtol=1e-12, atol=0), (old, new)
                assert "({})".format(new.value) in str(metric)
                assert "({})".format(new.value) in \
                    metric.get_result().info["label"]


def check_refused(ref, est):
    failures = []
    cases = []
    for length, angle in itertools.product(LENGTHS, ANGLES):
        cases.append((PoseRelation.translation_part, length, angle))
        native = (PoseRelation.rotation_angle_rad if angle is Unit.radians
                  else PoseRelation.rotation_angle_deg)
        cases.append((native, angle, length))
    for relation, old, new in cases:
        for kind in ("ape", "rpe"):
            metric = to_unit(fresh_metric(relation, ref, est, kind), old)
            before = metric.error.copy()
            try:
                metric.change_unit(new)
                refused = False
            except metrics.MetricsException:
                refused = True
            untouched = (metric.unit is old
                         and np.array_equal(metric.error, before))
            if not (refused and untouched):
                failures.append(
                    "{} {}: {} -> {}: refused={}, unit now {}, max value "
                    "{:.6g} -> {:.6g}".format(kind.upper(), relation.name,
                                              old.value, new.value, refused,
                                              metric.unit.value, before.max(),
                                              metric.error.max()))
    assert not failures, (
        "conversions between angle and length must be refused and must not "
        "change anything:\n  " + "\n  ".join(failures))


def check_unconvertible(ref, est):
    cases = [("ape", PoseRelation.full_transformation),
             ("ape", PoseRelation.rotation_part),
             ("rpe", PoseRelation.point_distance_error_ratio)]
    for kind, relation in cases:
        for new in list(LENGTHS) + list(ANGLES):
            metric = fresh_metric(relation, ref, est, kind)
            before, unit = metric.error.copy(), metric.unit
            try:
                metric.change_unit(new)
                raise AssertionError("{} -> {} was not refused".format(
                    unit, new))
            except metrics.MetricsException:
                pass
            assert metric.unit is unit
            assert np.array_equal(metric.error, before)


def check_ape_entry_point(ref, est):
    """The same through ape(): degrees cannot be reported as millimeters."""
    try:
        result = main_ape.ape(copy.deepcopy(ref), copy.deepcopy(est),
                              PoseRelation.rotation_angle_deg,
                              change_unit=Unit.millimeters)
    except metrics.MetricsException:
        return
    raise AssertionError(
        "ape() reported a rotation angle error in millimeters: label '{}', "
        "rmse {:.3f}".format(result.info["label"], result.stats["rmse"]))


def main():
    print("evo from", evo.__file__)
    ref, est = make_trajectories()
    check_allowed(ref, est)
    check_unconvertible(ref, est)
    check_refused(ref, est)
    check_ape_entry_point(ref, est)
    print("OK: unit changes behave as specified")


if __name__ == "__main__":
    main()
