"""
C19 demo (variant a): crash-point sweep over the settings file life cycle.

For each of the operations that (re)write ~/.evo/settings.json
(first-run initialisation, version upgrade, full reset, partial reset,
'evo_config set', 'evo_config set --merge') a real child process is started
in a temporary HOME and is hard-killed (os._exit, i.e. no flushing, no
exception handlers) right after its k-th file-system step below HOME, for
every k.  After every such crash

  * settings.json must be absent or a complete JSON document, and
  * a fresh evo process must start and see every default settings key.

Run as:  cd <worktree> && /venv/bin/python /tmp/seed4_out/C19/demo_a.py
"""
import os
import sys

sys.path.insert(0, os.getcwd())

import json
import shutil
import subprocess
import tempfile

WORKTREE = os.getcwd()
PYTHON = sys.executable
CRASH_EXIT_CODE = 99

# Runs inside the child process: argv = [scenario, k]
CHILD = r'''
import os, sys
sys.path.insert(0, os.getcwd())
import builtins, io

scenario, crash_at = sys.argv[1], int(sys.argv[2])
HOME = os.path.realpath(os.environ["HOME"])
state = {"armed": False, "count": 0, "log": []}


def below_home(p):
    if isinstance(p, int):
        return False
    try:
        p = os.path.realpath(os.fspath(p))
    except TypeError:
        return False
    return p == HOME or p.startswith(HOME + os.sep)


def event(name, p):
    if not state["armed"] or not below_home(p):
        return
    state["count"] += 1
    state["log"].append("%s %s" % (name, os.path.basename(os.fspath(p))))
    if state["count"] == crash_at:
        sys.stderr.write("CRASH after step %d: %s\n" %
                         (crash_at, state["log"][-1]))
        sys.stderr.flush()
        os._exit(@CRASH@)  # hard kill: nothing is flushed or cleaned up


def wrap_after(module, attr, name, path_arg=0, pred=None):
    real = getattr(module, attr)

    def wrapper(*args, **kwargs):
        result = real(*args, **kwargs)
        if pred is None or pred(*args, **kwargs):
            event(name, args[path_arg])
        return result

    setattr(module, attr, wrapper)


def open_writes(file, mode="r", *args, **kwargs):
    return any(c in mode for c in "wax+")


def os_open_writes(path, flags, *args, **kwargs):
    return bool(flags & (os.O_WRONLY | os.O_RDWR | os.O_CREAT | os.O_TRUNC))


wrap_after(builtins, "open", "open-for-write", pred=open_writes)
io.open = builtins.open
wrap_after(os, "open", "open-for-write", pred=os_open_writes)
wrap_after(os, "mkdir", "mkdir")
wrap_after(os, "replace", "rename-to", path_arg=1)
wrap_after(os, "rename", "rename-to", path_arg=1)
wrap_after(os, "unlink", "unlink")
wrap_after(os, "remove", "unlink")

devnull = open(os.devnull, "w")
sys.stdout = devnull

if scenario in ("init", "upgrade"):
    state["armed"] = True
    import evo.tools.settings
elif scenario == "reset":
    from evo.tools import settings
    state["armed"] = True
    settings.reset()
elif scenario == "reset_subset":
    from evo.tools import settings
    state["armed"] = True
    settings.reset(settings.DEFAULT_PATH,
                   parameter_subset=["plot_backend", "plot_split"])
elif scenario == "set":
    from evo import main_config
    from evo.tools import settings
    state["armed"] = True
    main_config.set_config(settings.DEFAULT_PATH,
                           ["plot_split", "plot_fontscale", "1.5"])
elif scenario == "merge":
    from evo import main_config
    from evo.tools import settings
    other = os.path.join(HOME, "other.json")
    with open(other, "w") as f:
        f.write('{"plot_fontscale": 2.0}')
    state["armed"] = True
    main_config.merge_json_union(settings.DEFAULT_PATH, other)
else:
    raise SystemExit("unknown scenario " + scenario)
state["armed"] = False
sys.stderr.write("DONE steps=%d\n" % state["count"])
'''.replace("@CRASH@", str(CRASH_EXIT_CODE))

FRESH_START = r'''
import os, sys
sys.path.insert(0, os.getcwd())
sys.stdout = open(os.devnull, "w")
from evo.tools.settings import SETTINGS
from evo.tools.settings_template import DEFAULT_SETTINGS_DICT
missing = sorted(k for k in DEFAULT_SETTINGS_DICT if k not in SETTINGS)
if missing:
    sys.stderr.write("settings lack default keys: %s\n" % missing)
    sys.exit(3)
'''


def run(code, home, *args):
    env = dict(os.environ, HOME=home, PYTHONDONTWRITEBYTECODE="1")
    return subprocess.run([PYTHON, "-B", "-c", code, *args], cwd=WORKTREE,
                          env=env, stdout=subprocess.PIPE,
                          stderr=subprocess.PIPE, text=True)


def last_line(text):
    lines = [line for line in text.strip().splitlines() if line.strip()]
    return lines[-1] if lines else ""


def prepare_home(root, scenario):
    """Creates the template HOME a scenario starts from."""
    home = os.path.join(root, "template_" + scenario)
    os.makedirs(home)
    if scenario == "init":
        return home
    proc = run(FRESH_START, home)
    assert proc.returncode == 0, "harness: could not initialise HOME:\n" \
        + proc.stderr
    if scenario == "upgrade":
        evo_dir = os.path.join(home, ".evo")
        with open(os.path.join(evo_dir, "assets_version"), "w") as f:
            f.write("v0.0.1")
        path = os.path.join(evo_dir, "settings.json")
        with open(path) as f:
            data = json.load(f)
        # An old settings file: lacks parameters that were added later and
        # has a value that was customised by the user.
        del data["plot_backend"]
        del data["plot_split"]
        data["plot_fontscale"] = 1.25
        with open(path, "w") as f:
            json.dump(data, f, indent=4, sort_keys=True)
    return home


def check_after_crash(home, where):
    problems = []
    path = os.path.join(home, ".evo", "settings.json")
    if os.path.exists(path):
        with open(path) as f:
            content = f.read()
        try:
            json.loads(content)
        except ValueError:
            problems.append(
                "%s: settings.json on disk is not a complete JSON document "
                "(%d bytes)" % (where, len(content)))
    proc = run(FRESH_START, home)
    if proc.returncode != 0:
        problems.append("%s: a fresh evo start afterwards fails: %s" %
                        (where, last_line(proc.stderr)))
    return problems


def main():
    root = tempfile.mkdtemp(prefix="c19_demo_a_")
    problems = []
    try:
        for scenario in ("init", "upgrade", "reset", "reset_subset", "set",
                         "merge"):
            template = prepare_home(root, scenario)
            k = 0
            while True:
                k += 1
                assert k < 200, "harness: crash sweep does not terminate"
                home = os.path.join(root, "%s_%d" % (scenario, k))
                shutil.copytree(template, home)
                proc = run(CHILD, home, scenario, str(k))
                if proc.returncode == 0:
                    # No crash point left, operation completed.
                    problems += check_after_crash(
                        home, "%s (completed)" % scenario)
                    shutil.rmtree(home)
                    print("%-13s %2d crash points checked" %
                          (scenario, k - 1))
                    break
                assert proc.returncode == CRASH_EXIT_CODE, \
                    "harness: %s failed without injected crash:\n%s" % (
                        scenario, proc.stderr)
                where = "%s, %s" % (scenario, last_line(proc.stderr))
                problems += check_after_crash(home, where)
                shutil.rmtree(home)
    finally:
        shutil.rmtree(root, ignore_errors=True)
    for problem in problems:
        print("VIOLATION:", problem)
    assert not problems, (
        "C19 violated: %d crash point(s) leave a broken settings file "
        "or break later starts, first: %s" % (len(problems), problems[0]))
    print("OK: settings file stayed loadable after every injected crash")


if __name__ == "__main__":
    main()
