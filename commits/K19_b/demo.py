"""
C19 demo (variant b): two evo processes start at the same time on an empty
home directory - systematic exploration of their interleavings.

Every "virtual process" is a thread that executes a fresh copy of the real
module evo/tools/settings.py (including its import-time block: initialise,
upgrade, load).  All file-system calls below the temporary HOME (mkdir, stat,
scandir, open, close of written files, rename/replace, unlink) are scheduling
points; a scheduler hands out one step at a time.  All schedules with up to
three context switches ("X runs i steps, Y runs j steps, X runs k steps,
Y runs to its end, X runs to its end") are executed.  In every schedule

  * after each step settings.json must be absent or a complete JSON document,
  * both processes must start without an exception, and
  * both must see every default settings key.

Run as:  cd <worktree> && /venv/bin/python /tmp/seed4_out/C19/demo_b.py
"""
import os
import sys

sys.path.insert(0, os.getcwd())

import builtins
import io
import json
import shutil
import tempfile
import threading
import traceback

import evo
from evo.tools.settings_template import DEFAULT_SETTINGS_DICT

SETTINGS_SOURCE = os.path.join(os.path.dirname(evo.__file__), "tools",
                               "settings.py")
assert os.path.realpath(SETTINGS_SOURCE).startswith(
    os.path.realpath(os.getcwd())), "evo is not imported from the worktree"
with open(SETTINGS_SOURCE) as source_file:
    SETTINGS_CODE = compile(source_file.read(), SETTINGS_SOURCE, "exec")

TIMEOUT = 30.0


class Scheduler:
    """Runs registered threads one file-system step at a time."""
    def __init__(self, home):
        self.home = os.path.realpath(home)
        self.cv = threading.Condition()
        self.state = {}
        self.granted = None
        self.trace = []

    def concerns(self, path):
        if getattr(threading.current_thread(), "vproc", None) is None:
            return False
        if isinstance(path, int):
            return False
        try:
            path = os.path.abspath(os.fspath(path))
        except TypeError:
            return False
        return path == self.home or path.startswith(self.home + os.sep)

    def gate(self, what, path):
        # Called by a virtual process right before a file-system step.
        name = threading.current_thread().vproc
        with self.cv:
            self.state[name] = "ready"
            self.cv.notify_all()
            if not self.cv.wait_for(lambda: self.granted == name, TIMEOUT):
                raise RuntimeError("harness: scheduler timeout")
            self.granted = None
            self.state[name] = "running"
            self.trace.append("%s:%s(%s)" %
                              (name, what, os.path.basename(os.fspath(path))))
            self.cv.notify_all()

    def finished(self, name):
        with self.cv:
            self.state[name] = "done"
            self.cv.notify_all()

    def wait_idle(self, name):
        with self.cv:
            ok = self.cv.wait_for(
                lambda: self.granted is None and self.state.get(name) in
                ("ready", "done"), TIMEOUT)
            assert ok, "harness: virtual process %s hangs" % name

    def step(self, name):
        """Lets a virtual process do one step. False if it is done."""
        self.wait_idle(name)
        with self.cv:
            if self.state[name] == "done":
                return False
            self.granted = name
            self.cv.notify_all()
        self.wait_idle(name)
        return True


ACTIVE = {"scheduler": None}


def gated(module, attr, what, path_arg=0):
    real = getattr(module, attr)

    def wrapper(*args, **kwargs):
        scheduler = ACTIVE["scheduler"]
        if scheduler is not None and len(args) > path_arg:
            paths = args[:2] if path_arg else args[:1]
            if any(scheduler.concerns(p) for p in paths):
                scheduler.gate(what, args[path_arg])
        return real(*args, **kwargs)

    wrapper.real = real
    setattr(module, attr, wrapper)


class GatedCloseFile:
    """Proxy for files opened for writing: the flush on close is a step."""
    def __init__(self, real, path):
        self._real = real
        self._path = path

    def __getattr__(self, attr):
        return getattr(self._real, attr)

    def __enter__(self):
        self._real.__enter__()
        return self

    def __exit__(self, *exc_info):
        self.close()
        return False

    def __iter__(self):
        return iter(self._real)

    def close(self):
        scheduler = ACTIVE["scheduler"]
        if not self._real.closed and scheduler is not None and \
                scheduler.concerns(self._path):
            scheduler.gate("flush+close", self._path)
        self._real.close()


REAL_OPEN = builtins.open


def gated_open(file, mode="r", *args, **kwargs):
    scheduler = ACTIVE["scheduler"]
    if scheduler is None or not scheduler.concerns(file):
        return REAL_OPEN(file, mode, *args, **kwargs)
    writes = any(c in mode for c in "wax+")
    scheduler.gate("open[%s]" % mode, file)
    real = REAL_OPEN(file, mode, *args, **kwargs)
    return GatedCloseFile(real, file) if writes else real


def install_gates():
    builtins.open = gated_open
    io.open = gated_open
    gated(os, "open", "os.open")
    gated(os, "mkdir", "mkdir")
    gated(os, "stat", "stat")
    gated(os, "lstat", "lstat")
    gated(os, "scandir", "scandir")
    gated(os, "listdir", "listdir")
    gated(os, "replace", "replace", path_arg=1)
    gated(os, "rename", "rename", path_arg=1)
    gated(os, "unlink", "unlink")
    gated(os, "remove", "remove")


def virtual_process(scheduler, name, results):
    try:
        namespace = {"__name__": "evo.tools.settings",
                     "__file__": SETTINGS_SOURCE}
        exec(SETTINGS_CODE, namespace)  # runs the real import-time start-up
        loaded = namespace["SETTINGS"]
        missing = sorted(k for k in DEFAULT_SETTINGS_DICT if k not in loaded)
        results[name] = ("settings lack default keys %s" %
                         missing) if missing else None
    except BaseException as error:
        results[name] = "start failed with %s: %s" % (
            type(error).__name__,
            traceback.format_exception_only(type(error), error)[-1].strip())
    finally:
        scheduler.finished(name)


def settings_file_problem(home):
    path = os.path.join(home, ".evo", "settings.json")
    try:
        with REAL_OPEN(path) as f:
            content = f.read()
    except FileNotFoundError:
        return None
    try:
        json.loads(content)
    except ValueError:
        return "settings.json is not a complete JSON document (%d bytes)" % \
            len(content)
    return None


def run_schedule(root, segments):
    """
    segments: numbers of steps for X, Y, X, ... before switching; afterwards
    Y and then X run until they are done.
    Returns (problems, number of steps X did, number of steps Y did, trace).
    """
    home = tempfile.mkdtemp(dir=root)
    os.environ["HOME"] = home
    scheduler = Scheduler(home)
    ACTIVE["scheduler"] = scheduler
    results = {}
    problems = []
    steps = {"X": 0, "Y": 0}
    threads = []
    for name in ("X", "Y"):
        thread = threading.Thread(target=virtual_process,
                                  args=(scheduler, name, results))
        thread.vproc = name
        thread.daemon = True
        scheduler.state[name] = "running"
        threads.append(thread)
        thread.start()

    def advance(name, count):
        done = 0
        while count is None or done < count:
            if not scheduler.step(name):
                break
            done += 1
            steps[name] += 1
            problem = settings_file_problem(home)
            if problem:
                problems.append("after step %s: %s" %
                                (scheduler.trace[-1], problem))

    try:
        for index, count in enumerate(segments):
            advance("XY"[index % 2], count)
        advance("Y", None)
        advance("X", None)
        for thread in threads:
            thread.join(TIMEOUT)
    finally:
        ACTIVE["scheduler"] = None
    for name in ("X", "Y"):
        if results.get(name):
            problems.append("process %s: %s" % (name, results[name]))
    shutil.rmtree(home, ignore_errors=True)
    return problems, steps["X"], steps["Y"], scheduler.trace


def main():
    old_home = os.environ.get("HOME")
    old_stdout = sys.stdout
    root = tempfile.mkdtemp(prefix="c19_demo_conc_")
    install_gates()
    failures = []
    count = 0
    try:
        sys.stdout = REAL_OPEN(os.devnull, "w")
        # Length of an undisturbed first start.
        problems, n_x, n_y, trace = run_schedule(root, [10**6])
        assert not problems, "sequential starts already fail: %s" % problems
        for i in range(1, n_x + 1):
            for j in range(1, n_x + 1):
                for k in range(0, n_x + 1):
                    problems, _, _, trace = run_schedule(root, [i, j, k])
                    count += 1
                    if problems:
                        failures.append(((i, j, k), problems, trace))
                if len(failures) >= 5:
                    break
            if len(failures) >= 5:
                break
    finally:
        sys.stdout.close()
        sys.stdout = old_stdout
        if old_home is not None:
            os.environ["HOME"] = old_home
        shutil.rmtree(root, ignore_errors=True)
    print("%d schedules of two concurrent first starts executed "
          "(%d steps per process when undisturbed)" % (count, n_x))
    for segments, problems, trace in failures[:3]:
        print("VIOLATION in schedule X:%d Y:%d X:%d Y:* X:*" % segments)
        for problem in problems:
            print("   ", problem)
        print("    steps:", " ".join(trace))
    assert not failures, (
        "C19 violated: concurrent first starts interfere, e.g. schedule "
        "%s: %s" % (failures[0][0], failures[0][1][0]))
    print("OK: no interleaving broke the settings file or a process start")


if __name__ == "__main__":
    main()
