"""
C07 / variant b: a JSON transform file (x, y, z, qx, qy, qz, qw + optional
scale) is loaded to exactly the numbers in the file, and a file that does not
describe a valid SE(3)/Sim(3) transformation is rejected with evo's
file-format error.

Run as:  cd /tmp/seed4/C07 && /venv/bin/python /tmp/seed4_out/C07/demo_b.py
"""
import os
import sys

sys.path.insert(0, os.getcwd())

import json
import math
import shutil
import tempfile

import numpy as np

from evo.tools import file_interface

S = math.sqrt(0.5)
BASE = {"x": 1.0, "y": 2.5, "z": -3.0, "qx": 0.0, "qy": 0.0, "qz": S, "qw": S}
# Rotation of 90 deg about z.
ROT_Z_90 = np.array([[0.0, -1.0, 0.0], [1.0, 0.0, 0.0], [0.0, 0.0, 1.0]])


def write_json(tmp_dir, name, **extra):
    path = os.path.join(tmp_dir, name)
    content = dict(BASE)
    content.update(extra)
    with open(path, "w") as f:
        json.dump(content, f, indent=2)
    return path


def main():
    tmp_dir = tempfile.mkdtemp(prefix="c07_demo_b_")
    try:
        # Well-formed files: numbers end up in the right slots.
        for scale in (None, 1, 0.5, 3):
            extra = {} if scale is None else {"scale": scale}
            path = write_json(tmp_dir, "good.json", **extra)
            t = file_interface.load_transform(path)
            s = 1.0 if scale is None else float(scale)
            assert t.shape == (4, 4)
            assert np.allclose(t[:3, :3], s * ROT_Z_90, atol=1e-12), \
                "scale {}: wrong rotation/scale block:\n{}".format(scale, t)
            assert np.array_equal(t[:3, 3], [1.0, 2.5, -3.0])
            assert np.array_equal(t[3, :], [0.0, 0.0, 0.0, 1.0])

        # Files that do not describe a valid Sim(3): must be rejected.
        for bad_scale in (-2.0, 0, 0.0, -0.0):
            path = write_json(tmp_dir, "bad.json", scale=bad_scale)
            try:
                t = file_interface.load_transform(path)
            except file_interface.FileInterfaceException:
                continue
            raise AssertionError(
                "JSON transform with \"scale\": {!r} is not a valid Sim(3) "
                "but was loaded instead of being rejected - and not even "
                "with the numbers of the file:\n{}".format(bad_scale, t))
    finally:
        shutil.rmtree(tmp_dir, ignore_errors=True)
    print("demo_b: OK")


if __name__ == "__main__":
    main()
