#!/usr/bin/env python
"""
C16 / variant b: drawing plots of a trajectory must leave the trajectory
(all of its arrays, including the timestamps) unchanged.

Run as:  cd /tmp/seed4/C16 && /venv/bin/python /tmp/seed4_out/C16/demo_b.py
"""
import os
import sys

sys.path.insert(0, os.getcwd())

import atexit
import copy
import shutil
import tempfile

# Fresh settings in a temporary HOME, non-interactive matplotlib backend.
_tmp_home = tempfile.mkdtemp(prefix="evo_c16_demo_b_")
atexit.register(shutil.rmtree, _tmp_home, ignore_errors=True)
os.environ["HOME"] = _tmp_home
os.environ.pop("DISPLAY", None)
os.environ["MPLBACKEND"] = "Agg"

import numpy as np
import matplotlib

matplotlib.use("Agg")
import matplotlib.pyplot as plt

import evo
from evo.core import lie_algebra as lie
from evo.core.trajectory import PoseTrajectory3D
from evo.tools import plot

print("using evo from", os.path.dirname(evo.__file__))

np.random.seed(16)
n = 30
# A recording that starts at t = 100 s (like every real-world recording,
# the clock does not start at zero).
stamps = 100.0 + 0.1 * np.arange(n)
poses = [lie.random_se3() for _ in range(n)]
traj = PoseTrajectory3D(poses_se3=poses, timestamps=stamps)
reference_start = float(traj.timestamps[0])

snapshot = copy.deepcopy(traj)


def assert_untouched(step: str) -> None:
    assert np.array_equal(traj.timestamps, snapshot.timestamps), (
        "{} modified the timestamps of the trajectory that was only supposed "
        "to be drawn: first stamp was {} and is now {}".format(
            step, snapshot.timestamps[0], traj.timestamps[0]))
    assert np.array_equal(traj.positions_xyz, snapshot.positions_xyz), (
        "{} modified the positions of the plotted trajectory".format(step))
    assert np.array_equal(traj.orientations_quat_wxyz,
                          snapshot.orientations_quat_wxyz), (
        "{} modified the orientations of the plotted trajectory".format(step))
    assert all(
        np.array_equal(p, q)
        for p, q in zip(traj.poses_se3, snapshot.poses_se3)), (
            "{} modified the poses of the plotted trajectory".format(step))


# The same three calls that evo_traj --plot --plot_relative_time makes.
fig_xyz, axarr_xyz = plt.subplots(3, sharex="col")
plot.traj_xyz(axarr_xyz, traj, label="traj", start_timestamp=reference_start)
assert_untouched("plot.traj_xyz(..., start_timestamp=t0)")

fig_rpy, axarr_rpy = plt.subplots(3, sharex="col")
plot.traj_rpy(axarr_rpy, traj, label="traj", start_timestamp=reference_start)
assert_untouched("plot.traj_rpy(..., start_timestamp=t0)")

fig_speed = plt.figure()
plot.speeds(fig_speed.gca(), traj, label="traj",
            start_timestamp=reference_start)
assert_untouched("plot.speeds(..., start_timestamp=t0)")

plt.close("all")
print("OK: plotting left the trajectory untouched")
