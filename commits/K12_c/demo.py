"""
C12 / variant c: RPE with all pairs and an angle delta.  A start pose can have
several matching end poses, so the end pose ids of consecutive values are not
ascending.  Every entry of the companion arrays and every pose of the stored
trajectories still has to be the end pose of the pair its value was computed on.
"""
import os
import sys

sys.path.insert(0, os.getcwd())

import copy
import logging

import numpy as np

import evo
from evo import main_rpe
from evo.core import lie_algebra as lie
from evo.core import metrics
from evo.core.metrics import PoseRelation
from evo.core.trajectory import PoseTrajectory3D
from evo.core.units import Unit

logging.disable(logging.CRITICAL)

DELTA_DEG = 10.0
REL_TOL = 0.1


def yaw_pose(yaw_deg, xyz):
    return lie.se3(lie.so3_exp(np.array([0, 0, np.deg2rad(yaw_deg)])),
                   np.array(xyz, dtype=float))


def make_trajectories(n=40):
    rng = np.random.RandomState(11)
    stamps = 50.0 + 0.1 * np.arange(n)
    # Slow constant turn: 1 degree per frame on a circle.
    yaw = 1.0 * np.arange(n)
    xyz = np.column_stack((20 * np.cos(np.deg2rad(yaw)),
                           20 * np.sin(np.deg2rad(yaw)), np.zeros(n)))
    ref = PoseTrajectory3D(
        poses_se3=[yaw_pose(a, p) for a, p in zip(yaw, xyz)],
        timestamps=stamps)
    # Estimate: same orientations, drifting positions.
    drift = np.cumsum(rng.normal(scale=0.05, size=(n, 3)), axis=0)
    est = PoseTrajectory3D(
        poses_se3=[yaw_pose(a, p) for a, p in zip(yaw, xyz + drift)],
        timestamps=stamps)
    return ref, est


def main():
    print("evo from", evo.__file__)
    ref, est = make_trajectories()
    ref_full, est_full = copy.deepcopy(ref), copy.deepcopy(est)

    # The pairs the metric works on, and the value of every pair by definition.
    id_pairs = metrics.id_pairs_from_delta(est_full.poses_se3, DELTA_DEG,
                                           Unit.degrees, REL_TOL,
                                           all_pairs=True)
    end_ids = [j for _, j in id_pairs]
    assert end_ids != sorted(end_ids), "test data should give unsorted ids"
    expected = np.array([
        np.linalg.norm(
            lie.relative_se3(
                lie.relative_se3(ref_full.poses_se3[i], ref_full.poses_se3[j]),
                lie.relative_se3(est_full.poses_se3[i],
                                 est_full.poses_se3[j]))[:3, 3])
        for i, j in id_pairs
    ])

    result = main_rpe.rpe(ref, est, PoseRelation.translation_part,
                          delta=DELTA_DEG, delta_unit=Unit.degrees,
                          rel_delta_tol=REL_TOL, all_pairs=True)
    errors = result.np_arrays["error_array"]
    assert len(errors) == len(id_pairs)
    assert np.allclose(errors, expected), "unexpected RPE values"

    stamps = result.np_arrays["timestamps"]
    assert len(stamps) == len(errors)
    wrong = np.flatnonzero(~np.isclose(stamps, est_full.timestamps[end_ids]))
    assert wrong.size == 0, (
        "{} of {} timestamps do not belong to the end pose of the pair of "
        "their value, e.g. value #{} (pair {}) has t={:.1f} instead of {:.1f}".
        format(wrong.size, len(errors), wrong[0], id_pairs[wrong[0]],
               stamps[wrong[0]], est_full.timestamps[end_ids][wrong[0]]))
    assert np.allclose(result.np_arrays["seconds_from_start"],
                       est_full.timestamps[end_ids] - est_full.timestamps[0])

    # Stored trajectories: first pose + the pair end poses, value by value.
    for name, full in (("reference", ref_full), ("estimate", est_full)):
        traj = result.trajectories[name]
        assert traj.num_poses == len(errors) + 1
        assert np.allclose(traj.positions_xyz[1:],
                           full.positions_xyz[end_ids]), (
            "poses of the stored {} trajectory are not the end poses "
            "of the pairs of the values".format(name))
        assert np.allclose(traj.positions_xyz[0], full.positions_xyz[0])
    assert np.allclose(
        result.np_arrays["distances"],
        result.trajectories["estimate"].distances[1:])
    print("OK: all-pairs RPE result is self-consistent")


if __name__ == "__main__":
    main()
