import os
import sys

sys.path.insert(0, os.getcwd())

import json
import shutil
import tempfile

_TMP_HOME = tempfile.mkdtemp(prefix="c15_home_")
os.environ["HOME"] = _TMP_HOME
os.environ["MPLBACKEND"] = "Agg"

import numpy as np

"""
C15 / variant b: with --invert_transform, evo_traj must apply the true inverse
of the loaded transformation - also if the file is a JSON file that describes
a Sim(3) transformation (i.e. has a "scale" entry != 1).
"""


def quat_xyzw_to_rot(q):
    x, y, z, w = q / np.linalg.norm(q)
    return np.array([
        [1 - 2 * (y * y + z * z), 2 * (x * y - z * w), 2 * (x * z + y * w)],
        [2 * (x * y + z * w), 1 - 2 * (x * x + z * z), 2 * (y * z - x * w)],
        [2 * (x * z - y * w), 2 * (y * z + x * w), 1 - 2 * (x * x + y * y)],
    ])


def run_evo_traj(argv):
    from evo import main_traj, main_traj_parser
    args = main_traj_parser.parser().parse_args(argv)
    main_traj.run(args)


def main():
    import evo
    print("using evo from", evo.__file__)
    rng = np.random.RandomState(1515)
    n = 5
    stamps = 100.0 + 0.5 * np.arange(n)
    xyz = rng.uniform(-3, 3, size=(n, 3))
    quat = rng.normal(size=(n, 4))
    quat /= np.linalg.norm(quat, axis=1)[:, None]
    tum_in = np.column_stack((stamps, xyz, quat))

    # Sim(3) given in the JSON form: x ->  s * R * x + t
    q_tf = np.array([0.1, -0.2, 0.3, 0.9])
    q_tf /= np.linalg.norm(q_tf)
    t_tf = np.array([1.0, -2.0, 0.5])
    s_tf = 2.0
    tf_json = {
        "x": t_tf[0], "y": t_tf[1], "z": t_tf[2],
        "qx": q_tf[0], "qy": q_tf[1], "qz": q_tf[2], "qw": q_tf[3],
        "scale": s_tf
    }
    M = np.eye(4)
    M[:3, :3] = s_tf * quat_xyzw_to_rot(q_tf)
    M[:3, 3] = t_tf
    M_inv = np.linalg.inv(M)

    results = {}
    workdir = tempfile.mkdtemp(prefix="c15_b_")
    old_cwd = os.getcwd()
    try:
        os.chdir(workdir)
        np.savetxt("est.txt", tum_in, delimiter=" ")
        with open("tf.json", "w") as f:
            json.dump(tf_json, f)
        np.save("tf.npy", M)
        for label, tf_file in (("npy", "tf.npy"), ("json", "tf.json")):
            run_evo_traj([
                "tum", "est.txt", "--transform_left", tf_file,
                "--invert_transform", "--save_as_tum", "--no_warnings",
                "--silent"
            ])
            results[label] = np.loadtxt("est.tum")
            os.remove("est.tum")
    finally:
        os.chdir(old_cwd)
        shutil.rmtree(workdir, ignore_errors=True)

    xyz_h = np.column_stack((xyz, np.ones(n)))
    expected_xyz = (M_inv.dot(xyz_h.T)).T[:, :3]
    for label, out in results.items():
        assert out.shape == tum_in.shape, "unexpected shape of exported file"
        assert np.allclose(out[:, 0], stamps), "timestamps changed"
        assert np.allclose(out[:, 1:4], expected_xyz, atol=1e-6), (
            "C15 violated: 'evo_traj tum --transform_left tf.{} "
            "--invert_transform' did not apply the true inverse of the loaded "
            "Sim(3) transformation.\nexported positions:\n{}\nexpected "
            "(inv(M) * p):\n{}".format(label, out[:, 1:4], expected_xyz))
    print("OK: inverted Sim(3) transformation applied correctly (npy, json)")


if __name__ == "__main__":
    try:
        main()
    finally:
        shutil.rmtree(_TMP_HOME, ignore_errors=True)
