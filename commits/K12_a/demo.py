"""
C12 / variant a: RPE "point distance error ratio" on a reference that stands
still for a few frames.  The pairs with zero reference distance are dropped
from the error values, so every companion array of the result (and the stored
trajectories) must be restricted to the remaining pairs as well.
"""
import os
import sys

sys.path.insert(0, os.getcwd())

import copy
import logging

import numpy as np

import evo
from evo import main_rpe
from evo.core import metrics
from evo.core.trajectory import PoseTrajectory3D
from evo.core.units import Unit

logging.disable(logging.CRITICAL)


def make_trajectories():
    n = 12
    stamps = 100.0 + 0.5 * np.arange(n)
    # The reference does not move between poses 3..6 (three zero distances).
    x_ref = np.array([0, 1, 2, 3, 3, 3, 3, 4, 5, 6.5, 8, 9], dtype=float)
    rng = np.random.RandomState(7)
    xyz_ref = np.column_stack((x_ref, np.zeros(n), np.zeros(n)))
    xyz_est = xyz_ref + rng.normal(scale=0.05, size=(n, 3))
    quat = np.tile([1.0, 0.0, 0.0, 0.0], (n, 1))
    ref = PoseTrajectory3D(xyz_ref, quat, stamps)
    est = PoseTrajectory3D(xyz_est, quat, stamps + 0.001)
    return ref, est


def main():
    print("evo from", evo.__file__)
    ref, est = make_trajectories()
    ref_full, est_full = copy.deepcopy(ref), copy.deepcopy(est)

    # What the values have to be, straight from the definition.
    expected_ids, expected_values = [], []
    for i in range(ref_full.num_poses - 1):
        j = i + 1
        d_ref = np.linalg.norm(ref_full.positions_xyz[i] -
                               ref_full.positions_xyz[j])
        d_est = np.linalg.norm(est_full.positions_xyz[i] -
                               est_full.positions_xyz[j])
        if d_ref == 0:
            continue
        expected_ids.append(j)
        expected_values.append(abs(d_ref - d_est) / d_ref * 100)
    assert len(expected_ids) == 8

    # Metric object.
    metric = metrics.RPE(metrics.PoseRelation.point_distance_error_ratio,
                         delta=1, delta_unit=Unit.frames)
    metric.process_data((copy.deepcopy(ref), copy.deepcopy(est)))
    assert np.allclose(metric.error, expected_values), "unexpected RPE values"
    assert len(metric.delta_ids) == len(metric.error), (
        "RPE.delta_ids has {} entries for {} error values".format(
            len(metric.delta_ids), len(metric.error)))
    assert list(metric.delta_ids) == expected_ids, (
        "RPE.delta_ids {} are not the end poses of the evaluated pairs {}".
        format(list(metric.delta_ids), expected_ids))

    # Full result.
    result = main_rpe.rpe(
        ref, est, metrics.PoseRelation.point_distance_error_ratio, delta=1,
        delta_unit=Unit.frames)
    errors = result.np_arrays["error_array"]
    assert np.allclose(errors, expected_values)
    for name in ("timestamps", "seconds_from_start", "distances_from_start",
                 "distances"):
        assert len(result.np_arrays[name]) == len(errors), (
            "companion array '{}' has {} entries for {} error values".format(
                name, len(result.np_arrays[name]), len(errors)))
    assert np.allclose(result.np_arrays["timestamps"],
                       est_full.timestamps[expected_ids]), (
                           "timestamps do not belong to the pair end poses")
    assert np.allclose(
        result.np_arrays["seconds_from_start"],
        est_full.timestamps[expected_ids] - est_full.timestamps[0])
    for name, full in (("reference", ref_full), ("estimate", est_full)):
        traj = result.trajectories[name]
        assert traj.num_poses == len(errors) + 1, (
            "stored {} trajectory has {} poses for {} error values".format(
                name, traj.num_poses, len(errors)))
        assert np.allclose(traj.positions_xyz,
                           full.positions_xyz[[0] + expected_ids])
    print("OK: ratio RPE result is self-consistent")


if __name__ == "__main__":
    main()
