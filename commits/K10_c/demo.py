import os
import sys
sys.path.insert(0, os.getcwd())

import math

import numpy as np

from evo.core import filters, metrics
from evo.core import lie_algebra as lie
from evo.core.metrics import Unit


def check_chain(pairs, increments, delta, what):
    """
    Consecutive mode: chain of pairs in which j is the FIRST pose at which the
    path / rotation accumulated since i reaches delta, starting no later than
    the first pose that reaches delta from the beginning, maximal at the end.
    :param increments: increments[k] = path/angle between pose k and k+1
    """
    acc = np.concatenate(([0.0], np.cumsum(increments)))
    n = len(acc)
    pairs = [(int(i), int(j)) for i, j in pairs]
    eps = 1e-9
    first_reaching = next(k for k in range(n) if acc[k] >= delta - eps)
    assert pairs[0][0] <= first_reaching, (what, pairs)
    for (i, j), (i2, _) in zip(pairs, pairs[1:]):
        assert j == i2, f"{what}: not a chain: {pairs}"
    for i, j in pairs:
        assert 0 <= i < j < n, (what, pairs)
        assert acc[j] - acc[i] >= delta - eps, (
            f"{what}: pair ({i}, {j}) covers only {acc[j] - acc[i]:.6g} "
            f"but delta is {delta:.6g}; pairs = {pairs}")
        assert acc[j - 1] - acc[i] < delta - eps, (
            f"{what}: pair ({i}, {j}): pose {j - 1} reaches delta already; "
            f"pairs = {pairs}")
    last = pairs[-1][1]
    assert acc[-1] - acc[last] < delta - eps, (
        f"{what}: chain stops although the rest still reaches delta: {pairs}")


# ---------------------------------------------------------------- meters
# steps along z; travelled path at the poses: 0 9.5 10 19 20 25 30
z = [0, 9.5, 10, 19, 20, 25, 30]
poses = [lie.se3(np.eye(3), np.array([0.0, 0.0, v])) for v in z]
steps = np.abs(np.diff(z)).astype(float)
for rel_tol in (0.0, 0.05, 0.1, 0.5):
    pairs = metrics.id_pairs_from_delta(poses, 10.0, Unit.meters, rel_tol,
                                        all_pairs=False)
    check_chain(pairs, steps, 10.0, f"meters, rel_tol={rel_tol}")
    assert [(int(i), int(j)) for i, j in pairs] == [(2, 4), (4, 6)], (
        f"meters, rel_tol={rel_tol}: expected [(2, 4), (4, 6)], got {pairs}")

# a delta the trajectory reaches only once from the first reaching pose on:
# no pair exists -> FilterException, whatever the tolerance
for rel_tol in (0.0, 0.1):
    try:
        bogus = metrics.id_pairs_from_delta(poses, 16.0, Unit.meters, rel_tol)
    except filters.FilterException:
        pass
    else:
        raise AssertionError(
            f"meters, delta=16, rel_tol={rel_tol}: no pair covers 16 m after "
            f"the first pose that reaches it, but got {bogus}")

# ---------------------------------------------------------------- angles
# yaw steps of pi/8 (22.5 deg); delta = 100 deg is first reached after 5 steps
yaw = [k * math.pi / 8 for k in range(0, 12)]
poses = [
    lie.se3(lie.so3_exp(np.array([0.0, 0.0, 1.0]) * a), np.zeros(3))
    for a in yaw
]
incr = np.diff(yaw)
for rel_tol in (0.0, 0.1):
    pairs = metrics.id_pairs_from_delta(poses, 100.0, Unit.degrees, rel_tol)
    check_chain(pairs, incr, np.deg2rad(100.0), f"degrees, rel_tol={rel_tol}")
    assert [(int(i), int(j)) for i, j in pairs] == [(0, 5), (5, 10)], pairs
    pairs = metrics.id_pairs_from_delta(poses, np.deg2rad(100.0),
                                        Unit.radians, rel_tol)
    check_chain(pairs, incr, np.deg2rad(100.0), f"radians, rel_tol={rel_tol}")
    assert [(int(i), int(j)) for i, j in pairs] == [(0, 5), (5, 10)], pairs

print("demo_c: OK")
