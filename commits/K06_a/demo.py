"""
C06 / variant a: export of a trajectory to a ROS1 bag must preserve positions,
orientations and the frame id exactly, and timestamps to within one nanosecond.

Run: cd /tmp/seed4/C06 && /venv/bin/python /tmp/seed4_out/C06/demo_a.py
"""
import os
import sys

sys.path.insert(0, os.getcwd())

import shutil
import tempfile
import warnings
from fractions import Fraction

warnings.simplefilter("ignore")

import numpy as np
from rosbags.rosbag1 import Reader, Writer
from rosbags.typesys import Stores, get_typestore

import evo
from evo.core.trajectory import PoseTrajectory3D
from evo.tools import file_interface

print("evo from:", evo.__file__)


def make_trajectory(start_time: float, n: int, seed: int) -> PoseTrajectory3D:
    rng = np.random.default_rng(seed)
    stamps = start_time + np.cumsum(rng.uniform(0.004, 0.05, n))
    quat = rng.normal(size=(n, 4))
    quat /= np.linalg.norm(quat, axis=1, keepdims=True)
    xyz = rng.normal(size=(n, 3)) * 100.
    traj = PoseTrajectory3D(xyz, quat, stamps)
    assert traj.check()[0]
    return traj


def roundtrip(traj: PoseTrajectory3D, bag_path: str):
    writer = Writer(bag_path)
    writer.open()
    file_interface.write_bag_trajectory(writer, traj, "/pose", frame_id="map")
    writer.close()
    # Raw header stamps (integers), independent of evo's reader.
    typestore = get_typestore(Stores.ROS1_NOETIC)
    raw_stamps = []
    with Reader(bag_path) as reader:
        traj_in = file_interface.read_bag_trajectory(reader, "/pose")
        for connection, _, rawdata in reader.messages():
            msg = typestore.deserialize_ros1(rawdata, connection.msgtype)
            raw_stamps.append((msg.header.stamp.sec, msg.header.stamp.nanosec))
    return traj_in, raw_stamps


def main() -> None:
    tmp_dir = tempfile.mkdtemp(prefix="c06_demo_a_")
    try:
        cases = {
            "small timestamps (0..100 s)": make_trajectory(0., 2000, 1),
            "UNIX epoch timestamps": make_trajectory(1700000000., 2000, 2),
        }
        for i, (label, traj) in enumerate(cases.items()):
            traj_in, raw_stamps = roundtrip(
                traj, os.path.join(tmp_dir, "traj_{}.bag".format(i)))
            assert traj_in.num_poses == traj.num_poses, label
            assert traj_in.meta["frame_id"] == "map", label
            assert np.array_equal(traj_in.positions_xyz,
                                  traj.positions_xyz), label
            assert np.array_equal(traj_in.orientations_quat_wxyz,
                                  traj.orientations_quat_wxyz), label
            # exact (rational) comparison of the stored header stamps
            worst_ns = max(
                abs(Fraction(float(t)) -
                    (sec + Fraction(nsec, 10**9))) * 10**9
                for t, (sec, nsec) in zip(traj.timestamps, raw_stamps))
            worst_read = np.abs(traj_in.timestamps - traj.timestamps).max()
            print("{}: worst header stamp deviation {:.3f} ns, "
                  "worst deviation after re-reading {:.3e} s".format(
                      label, float(worst_ns), worst_read))
            assert all(0 <= nsec < 10**9 for _, nsec in raw_stamps), label
            assert worst_ns <= 1, (
                "{}: bag header stamps deviate by {:.1f} ns from the "
                "trajectory timestamps (allowed: 1 ns)".format(
                    label, float(worst_ns)))
            assert worst_read <= 1e-9, (
                "{}: timestamps read back from the bag deviate by {:.3e} s "
                "(allowed: 1e-9 s)".format(label, worst_read))
        print("OK: bag export keeps timestamps within one nanosecond")
    finally:
        shutil.rmtree(tmp_dir, ignore_errors=True)


if __name__ == "__main__":
    main()
