"""
C17 demo (variant c): every writer must ask before replacing an existing file,
and keep it byte-identical if the answer is not 'y' - for output paths given
as str and as pathlib.Path alike.

Run:  cd /tmp/seed4/C17 && /venv/bin/python /tmp/seed4_out/C17/demo_c.py
"""
import os
import sys

sys.path.insert(0, os.getcwd())

import builtins
import shutil
import tempfile
from pathlib import Path

_tmp_home = tempfile.mkdtemp(prefix="c17c_home_")
os.environ["HOME"] = _tmp_home
os.environ["MPLBACKEND"] = "Agg"

import matplotlib  # noqa: E402

matplotlib.use("Agg")

import numpy as np  # noqa: E402
import pandas as pd  # noqa: E402

import evo  # noqa: E402
from evo.core import result  # noqa: E402
from evo.core.trajectory import PoseTrajectory3D  # noqa: E402
from evo.tools import file_interface, pandas_bridge, plot  # noqa: E402

SENTINEL = b"precious user data - do not overwrite\n"


def make_traj():
    n = 10
    stamps = np.arange(n, dtype=float)
    xyz = np.column_stack((stamps * 0.1, np.zeros(n), np.zeros(n)))
    quat = np.tile([1.0, 0.0, 0.0, 0.0], (n, 1))
    return PoseTrajectory3D(xyz, quat, stamps)


def make_result():
    res = result.Result()
    res.add_info({"title": "demo", "est_name": "est", "ref_name": "ref"})
    res.add_stats({"rmse": 1.0, "mean": 0.5})
    res.add_np_array("error_array", np.arange(5, dtype=float))
    return res


def make_plot_collection():
    import matplotlib.pyplot as plt
    pc = plot.PlotCollection("demo")
    fig = plt.figure()
    fig.gca().plot([0, 1], [0, 1])
    pc.add_figure("raw", fig)
    return pc


def main():
    print("evo imported from", evo.__file__)
    out_dir = tempfile.mkdtemp(prefix="c17c_out_")
    traj, res, pc = make_traj(), make_result(), make_plot_collection()
    df = pd.DataFrame({"a": [1.0, 2.0], "b": [3.0, 4.0]})

    writers = [
        ("write_tum_trajectory_file", "traj.tum",
         lambda p: file_interface.write_tum_trajectory_file(
             p, traj, confirm_overwrite=True)),
        ("write_kitti_poses_file", "traj.kitti",
         lambda p: file_interface.write_kitti_poses_file(
             p, traj, confirm_overwrite=True)),
        ("save_res_file", "res.zip",
         lambda p: file_interface.save_res_file(p, res,
                                                confirm_overwrite=True)),
        ("save_df_as_table", "table.csv",
         lambda p: pandas_bridge.save_df_as_table(
             df, p, format_str="csv", transpose=False,
             confirm_overwrite=True)),
        ("PlotCollection.serialize", "plots.pickle",
         lambda p: pc.serialize(p, confirm_overwrite=True)),
    ]
    failures = []
    real_input = builtins.input
    try:
        for path_type in (str, Path):
            for answer in ("n", "", "Y"):
                for label, file_name, write in writers:
                    target = os.path.join(out_dir, file_name)
                    with open(target, "wb") as f:
                        f.write(SENTINEL)
                    prompts = []

                    def fake_input(msg=""):
                        prompts.append(msg)
                        return answer

                    builtins.input = fake_input
                    try:
                        write(path_type(target))
                        outcome = "returned"
                    except Exception as e:
                        # e.g. a writer that can't handle this path type at
                        # all - fine, as long as the file survives
                        outcome = "raised " + type(e).__name__
                    finally:
                        builtins.input = real_input
                    with open(target, "rb") as f:
                        unchanged = f.read() == SENTINEL
                    print("{:5s} answer={!r:4} {:28s} {:18s} prompts={} "
                          "unchanged={}".format(path_type.__name__, answer,
                                                label, outcome, len(prompts),
                                                unchanged))
                    if not unchanged:
                        failures.append(
                            "{}({}): existing file was replaced although the "
                            "answer was {!r}; {} prompt(s) shown".format(
                                label, path_type.__name__, answer,
                                len(prompts)))
            # 'y' replaces the file (where the writer supports the path type)
            for label, file_name, write in writers:
                if path_type is Path and label == "PlotCollection.serialize":
                    continue  # unchanged tree: str paths only
                target = os.path.join(out_dir, file_name)
                with open(target, "wb") as f:
                    f.write(SENTINEL)
                builtins.input = lambda msg="": "y"
                try:
                    write(path_type(target))
                finally:
                    builtins.input = real_input
                with open(target, "rb") as f:
                    assert f.read() != SENTINEL, label + ": not replaced on y"
    finally:
        builtins.input = real_input
        shutil.rmtree(out_dir, ignore_errors=True)
        shutil.rmtree(_tmp_home, ignore_errors=True)
    assert not failures, "existing files were overwritten without " \
        "confirmation:\n  " + "\n  ".join(failures)
    print("OK: no existing file was replaced without confirmation")


if __name__ == "__main__":
    main()
