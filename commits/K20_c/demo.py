"""
C20 / variant c: the speed plot shows the speeds between all consecutive poses
against the trajectory's timestamps (of the newer pose, shifted by the given
start time).
Run: cd /tmp/seed4/C20 && /venv/bin/python /tmp/seed4_out/C20/demo_c.py
"""
import os
import sys

sys.path.insert(0, os.getcwd())

import shutil
import tempfile

_home = tempfile.mkdtemp(prefix="c20_demo_c_")
os.environ["HOME"] = _home

try:
    import matplotlib
    matplotlib.use("Agg")
    import matplotlib.pyplot as plt
    import numpy as np

    import evo.core.transformations as tr
    from evo.core import trajectory
    from evo.tools import plot

    matplotlib.use("Agg")

    n = 40
    rng = np.random.default_rng(3)
    positions = np.cumsum(rng.normal(size=(n, 3)), axis=0)
    quats = np.array([tr.random_quaternion(rng.random(3)) for _ in range(n)])
    # Strictly increasing timestamps with 20-60 ms spacing...
    offsets = np.cumsum(rng.uniform(0.02, 0.06, size=n))

    # ...starting at zero, at the "time since boot" of a long-running robot,
    # and at a UNIX epoch time as in the TUM RGB-D / EuRoC datasets.
    for t_0 in (0., 7200., 1305031098.):
        stamps = t_0 + offsets
        assert np.all(np.diff(stamps) > 0.019)
        traj = trajectory.PoseTrajectory3D(positions, quats, stamps)
        expected_speeds = np.linalg.norm(np.diff(positions, axis=0),
                                         axis=1) / np.diff(stamps)
        for start in (None, stamps[0]):
            fig = plt.figure()
            ax = fig.gca()
            plot.speeds(ax, traj, start_timestamp=start)
            lines = ax.get_lines()
            assert len(lines) == 1, "expected one line in the speed plot"
            x, y = (np.asarray(a, dtype=float) for a in lines[0].get_data())
            expected_x = stamps[1:] - (start if start else 0.)
            assert len(x) == n - 1, (
                f"speed plot of a trajectory with {n} poses starting at "
                f"t={t_0} (start_timestamp={start}) shows {len(x)} instead "
                f"of {n - 1} values")
            assert np.allclose(x, expected_x, rtol=0, atol=1e-6), (
                f"speed plot (t_0={t_0}) is not drawn against the timestamps")
            assert np.allclose(y, expected_speeds, rtol=1e-9), (
                f"speed plot (t_0={t_0}) shows wrong speed values")
            assert np.array_equal(traj.timestamps, stamps)
            plt.close(fig)
    print("OK: speed plots show all speeds against the timestamps")
finally:
    shutil.rmtree(_home, ignore_errors=True)
