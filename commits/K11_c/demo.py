"""
C11 / variant c: time cropping keeps exactly the poses with
start <= t <= end (and keeps pose, orientation and timestamp together).
"""
import os
import sys

sys.path.insert(0, os.getcwd())

import copy

import numpy as np

from evo.core import lie_algebra as lie
from evo.core.trajectory import PoseTrajectory3D


def make_traj(stamps, seed=0):
    rng = np.random.RandomState(seed)
    poses = [
        lie.se3(lie.so3_exp(rng.uniform(-1., 1., 3)), rng.uniform(-5., 5., 3))
        for _ in stamps
    ]
    return PoseTrajectory3D(poses_se3=poses,
                            timestamps=np.array(stamps, dtype=float))


def check(traj, start, end, label):
    full = copy.deepcopy(traj)
    lower = full.timestamps[0] if start is None else start
    upper = full.timestamps[-1] if end is None else end
    expected = [
        i for i, t in enumerate(full.timestamps) if lower <= t <= upper
    ]
    cropped = copy.deepcopy(traj)
    cropped.reduce_to_time_range(start, end)
    assert cropped.num_poses == len(cropped.timestamps) == len(expected), (
        "{}: reduce_to_time_range({!r}, {!r}) kept {} poses with timestamps "
        "in [{!r}, {!r}], but exactly {} poses lie within the requested "
        "range".format(
            label, start, end, cropped.num_poses,
            cropped.timestamps[0] if cropped.num_poses else None,
            cropped.timestamps[-1] if cropped.num_poses else None,
            len(expected)))
    if not expected:
        return
    assert np.array_equal(cropped.timestamps, full.timestamps[expected]), label
    assert np.allclose(cropped.positions_xyz,
                       full.positions_xyz[expected]), label
    assert np.allclose(cropped.orientations_quat_wxyz,
                       full.orientations_quat_wxyz[expected]), label


def main():
    # Timestamps relative to the start of the recording.
    rel = make_traj(np.arange(0, 400) * 0.05, 1)
    check(rel, 5.0, 10.0, "relative stamps, bounds hit exactly")
    check(rel, 5.01, 9.99, "relative stamps, bounds between poses")
    check(rel, None, 0.0, "relative stamps, end=0")
    check(rel, 0.0, None, "relative stamps, start=0")
    check(rel, 100., 200., "relative stamps, outside")
    check(rel, 7.0, 7.0, "relative stamps, single pose")

    # The same recording with UNIX epoch timestamps (EuRoC / TUM style).
    t0 = 1403636579.75
    epoch = make_traj(t0 + np.arange(0, 400) * 0.05, 2)
    stamps = epoch.timestamps
    check(epoch, stamps[100], stamps[200], "epoch stamps, bounds hit exactly")
    check(epoch, stamps[100] + 0.01, stamps[200] - 0.01,
          "epoch stamps, bounds between poses")
    check(epoch, None, stamps[50], "epoch stamps, only end")
    check(epoch, stamps[350], None, "epoch stamps, only start")
    check(epoch, stamps[-1] + 10., stamps[-1] + 20., "epoch stamps, outside")
    print("demo_c: OK - time cropping keeps exactly start <= t <= end")


if __name__ == "__main__":
    main()
