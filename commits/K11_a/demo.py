"""
C11 / variant a: motion filtering keeps a later pose exactly if, *since the
last kept pose*, the travelled path length reached the distance threshold or
the rotation angle reached the angle threshold.
"""
import os
import sys

sys.path.insert(0, os.getcwd())

import copy

import numpy as np

from evo.core import filters
from evo.core import lie_algebra as lie
from evo.core.trajectory import PoseTrajectory3D


def rot_z(angle_deg):
    return lie.so3_exp(np.array([0., 0., np.deg2rad(angle_deg)]))


def expected_ids(poses, distance_threshold, angle_threshold_rad):
    """straightforward oracle, written from the property statement"""
    kept = [0]
    path_since_kept = 0.
    for i in range(1, len(poses)):
        path_since_kept += float(
            np.linalg.norm(poses[i][:3, 3] - poses[i - 1][:3, 3]))
        r_rel = poses[kept[-1]][:3, :3].T.dot(poses[i][:3, :3])
        cos_angle = np.clip((np.trace(r_rel) - 1.) / 2., -1., 1.)
        angle = float(np.arccos(cos_angle))
        if (path_since_kept >= distance_threshold
                or angle >= angle_threshold_rad):
            kept.append(i)
            path_since_kept = 0.
    return kept


def check(poses, distance_threshold, angle_threshold_deg, label):
    stamps = np.arange(len(poses), dtype=float) * 0.5 + 100.
    traj = PoseTrajectory3D(poses_se3=copy.deepcopy(poses), timestamps=stamps)
    full = copy.deepcopy(traj)
    expected = expected_ids(poses, distance_threshold,
                            np.deg2rad(angle_threshold_deg))
    ids = filters.filter_by_motion(poses, distance_threshold,
                                   angle_threshold_deg, degrees=True)
    assert list(ids) == expected, (
        "{}: filter_by_motion(dist={}, angle={}deg) kept ids {} but the "
        "poses that moved/rotated enough since the last kept pose are {}".
        format(label, distance_threshold, angle_threshold_deg, list(ids),
               expected))
    traj.motion_filter(distance_threshold, angle_threshold_deg, degrees=True)
    assert traj.num_poses == len(expected), (label, traj.num_poses, expected)
    assert np.array_equal(traj.timestamps, full.timestamps[expected]), label
    assert np.allclose(traj.positions_xyz, full.positions_xyz[expected]), label
    assert np.allclose(traj.orientations_quat_wxyz,
                       full.orientations_quat_wxyz[expected]), label


def main():
    # 0.25 m steps along x; the robot turns by 45 deg at pose 2 and keeps
    # that heading. With 1.0 m / 30 deg thresholds: pose 2 is kept because
    # of the turn, and the next pose that is 1.0 m further is pose 6.
    headings = [0., 0., 45., 45., 45., 45., 45., 45., 45., 45., 45.]
    poses = [
        lie.se3(rot_z(h), np.array([0.25 * i, 0., 0.]))
        for i, h in enumerate(headings)
    ]
    check(poses, 1.0, 30., "turn-then-straight")

    # Only one criterion active at a time.
    check(poses, 1.0, 179., "distance only")
    check(poses, 999., 30., "angle only")
    check(poses, 0., 0., "zero thresholds")

    # Random walks with exactly representable steps (multiples of 1/8 m) and
    # headings in multiples of 15 degrees: mixed rotation / translation.
    rng = np.random.RandomState(11)
    for run in range(30):
        n = rng.randint(2, 60)
        steps = rng.randint(0, 5, size=n) * 0.125
        xs = np.cumsum(steps)
        hs = np.cumsum(rng.randint(-1, 2, size=n) * 15.)
        poses = [
            lie.se3(rot_z(h), np.array([x, 0., 0.])) for x, h in zip(xs, hs)
        ]
        check(poses, float(rng.randint(1, 9)) * 0.25,
              float(rng.choice([20., 40., 50., 100.])),
              "random walk #{}".format(run))
    print("demo_a: OK - motion filter keeps exactly the specified poses")


if __name__ == "__main__":
    main()
