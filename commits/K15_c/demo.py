import os
import sys

sys.path.insert(0, os.getcwd())

import shutil
import tempfile

_TMP_HOME = tempfile.mkdtemp(prefix="c15_home_")
os.environ["HOME"] = _TMP_HOME
os.environ["MPLBACKEND"] = "Agg"

import numpy as np

"""
C15 / variant c: without processing options the trajectory exported by
evo_traj equals the input - also for KITTI pose files if a (shorter) reference
is given with --ref. With only --transform_left, every input pose has to be
exported left-multiplied with the transformation.
"""


def random_rotation(rng):
    q, r = np.linalg.qr(rng.normal(size=(3, 3)))
    q = q * np.sign(np.diag(r))
    if np.linalg.det(q) < 0:
        q[:, 0] *= -1
    return q


def random_kitti(rng, n):
    rows = []
    for _ in range(n):
        p = np.eye(4)
        p[:3, :3] = random_rotation(rng)
        p[:3, 3] = rng.uniform(-5, 5, size=3)
        rows.append(p[:3, :].flatten())
    return np.array(rows)


def kitti_to_poses(mat):
    return [np.vstack((row.reshape(3, 4), [0, 0, 0, 1])) for row in mat]


def run_evo_traj(argv):
    from evo import main_traj, main_traj_parser
    args = main_traj_parser.parser().parse_args(argv)
    main_traj.run(args)


def main():
    import evo
    print("using evo from", evo.__file__)
    rng = np.random.RandomState(153)
    est_in = random_kitti(rng, 8)
    ref_in = random_kitti(rng, 5)  # e.g. ground truth only for a part
    T = np.eye(4)
    T[:3, :3] = random_rotation(rng)
    T[:3, 3] = [0.5, 1.5, -1.0]

    workdir = tempfile.mkdtemp(prefix="c15_c_")
    old_cwd = os.getcwd()
    try:
        os.chdir(workdir)
        np.savetxt("est.txt", est_in, delimiter=" ")
        np.savetxt("gt.txt", ref_in, delimiter=" ")
        np.savetxt("T.txt", T)

        run_evo_traj([
            "kitti", "est.txt", "--ref", "gt.txt", "--save_as_kitti",
            "--no_warnings", "--silent"
        ])
        est_plain = np.atleast_2d(np.loadtxt("est.kitti"))
        ref_plain = np.atleast_2d(np.loadtxt("gt.kitti"))
        os.remove("est.kitti")
        os.remove("gt.kitti")

        run_evo_traj([
            "kitti", "est.txt", "--ref", "gt.txt", "--transform_left",
            "T.txt", "--save_as_kitti", "--no_warnings", "--silent"
        ])
        est_tf = np.atleast_2d(np.loadtxt("est.kitti"))
        ref_tf = np.atleast_2d(np.loadtxt("gt.kitti"))
    finally:
        os.chdir(old_cwd)
        shutil.rmtree(workdir, ignore_errors=True)

    assert ref_plain.shape == ref_in.shape and np.allclose(
        ref_plain, ref_in), "C15 violated: exported reference was changed"
    assert ref_tf.shape == ref_in.shape and np.allclose(
        ref_tf, ref_in), "C15 violated: exported reference was changed"
    assert est_plain.shape == est_in.shape, (
        "C15 violated: 'evo_traj kitti est.txt --ref gt.txt --save_as_kitti' "
        "(no processing options) exported {} poses, but the input has {} "
        "poses".format(est_plain.shape[0], est_in.shape[0]))
    assert np.allclose(est_plain, est_in), (
        "C15 violated: exported poses differ from input without options")
    expected_tf = np.array(
        [T.dot(p)[:3, :].flatten() for p in kitti_to_poses(est_in)])
    assert est_tf.shape == expected_tf.shape, (
        "C15 violated: 'evo_traj kitti est.txt --ref gt.txt --transform_left "
        "T.txt --save_as_kitti' exported {} poses, expected {} "
        "poses".format(est_tf.shape[0], expected_tf.shape[0]))
    assert np.allclose(est_tf, expected_tf, atol=1e-9), (
        "C15 violated: exported poses are not T * input poses")
    print("OK: KITTI export with a shorter --ref keeps all poses")


if __name__ == "__main__":
    try:
        main()
    finally:
        shutil.rmtree(_TMP_HOME, ignore_errors=True)
