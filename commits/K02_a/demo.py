#!/usr/bin/env python
"""
C02 / variant a: RPE 'point_distance_error_ratio' with pairs in which the
reference does not move. Those pairs must be skipped in the values AND in
RPE.delta_ids (one value per reported pair end index, same order).
"""
import os
import sys

sys.path.insert(0, os.getcwd())

import copy
import logging

import numpy as np

logging.disable(logging.CRITICAL)

from evo.core import lie_algebra as lie
from evo.core import metrics
from evo.core.trajectory import PoseTrajectory3D
from evo.core.units import Unit
from evo import main_rpe


def make_trajectories():
    rng = np.random.RandomState(7)
    # Reference: moves along x, but stands still between poses 2-3-4 and 7-8.
    ref_x = [0.0, 1.0, 2.0, 2.0, 2.0, 3.0, 4.5, 6.0, 6.0, 7.0, 8.0]
    n = len(ref_x)
    ref_poses, est_poses = [], []
    for k in range(n):
        r_ref = lie.so3_exp(np.array([0.0, 0.0, 0.05 * k]))
        ref_poses.append(lie.se3(r_ref, np.array([ref_x[k], 0.0, 0.0])))
        r_est = lie.so3_exp(np.array([0.01 * k, 0.0, 0.05 * k]))
        est_poses.append(
            lie.se3(r_est,
                    np.array([1.1 * k + 0.05 * rng.randn(), 0.02 * k, 0.0])))
    stamps = np.arange(n, dtype=float)
    ref = PoseTrajectory3D(poses_se3=ref_poses, timestamps=stamps)
    est = PoseTrajectory3D(poses_se3=est_poses, timestamps=stamps.copy())
    return ref, est


def expected(ref, est, id_pairs):
    values, ends = [], []
    for i, j in id_pairs:
        d_ref = np.linalg.norm(ref.positions_xyz[j] - ref.positions_xyz[i])
        d_est = np.linalg.norm(est.positions_xyz[j] - est.positions_xyz[i])
        if d_ref == 0:
            continue
        values.append(abs(d_ref - d_est) / d_ref * 100)
        ends.append(int(j))
    return np.array(values), ends


def check_metric(all_pairs, delta):
    ref, est = make_trajectories()
    n = ref.num_poses
    if all_pairs:
        id_pairs = [(i, i + delta) for i in range(n - delta)]
    else:
        ids = list(range(0, n, delta))
        id_pairs = list(zip(ids, ids[1:]))
    exp_values, exp_ends = expected(ref, est, id_pairs)
    assert len(exp_ends) < len(id_pairs), "test data must contain zero pairs"

    rpe = metrics.RPE(metrics.PoseRelation.point_distance_error_ratio,
                      delta=delta, delta_unit=Unit.frames,
                      all_pairs=all_pairs)
    rpe.process_data((ref, est))
    mode = "all_pairs" if all_pairs else "consecutive"
    assert len(rpe.error) == len(exp_values), (
        f"[{mode}] wrong number of values: {len(rpe.error)} != "
        f"{len(exp_values)}")
    assert np.allclose(rpe.error, exp_values, rtol=1e-9, atol=1e-12), (
        f"[{mode}] ratio values differ from the definition")
    assert len(rpe.delta_ids) == len(rpe.error), (
        f"[{mode}] RPE.delta_ids has {len(rpe.delta_ids)} entries but there "
        f"are {len(rpe.error)} values (zero-distance pairs were skipped in "
        "the values only)")
    assert [int(j) for j in rpe.delta_ids] == exp_ends, (
        f"[{mode}] RPE.delta_ids {list(rpe.delta_ids)} != pair end indices "
        f"of the values {exp_ends}")


def check_main_rpe():
    ref, est = make_trajectories()
    ids = list(range(ref.num_poses))
    exp_values, exp_ends = expected(ref, est, list(zip(ids, ids[1:])))
    result = main_rpe.rpe(
        copy.deepcopy(ref), copy.deepcopy(est),
        pose_relation=metrics.PoseRelation.point_distance_error_ratio,
        delta=1, delta_unit=Unit.frames, ref_name="ref", est_name="est")
    values = result.np_arrays["error_array"]
    assert np.allclose(values, exp_values, rtol=1e-9, atol=1e-12), \
        "main_rpe.rpe(): values differ from the definition"
    stamps = result.np_arrays["timestamps"]
    assert len(stamps) == len(values), (
        f"main_rpe.rpe(): {len(values)} values but {len(stamps)} timestamps "
        "of pair end poses")
    assert np.allclose(stamps, est.timestamps[exp_ends]), (
        "main_rpe.rpe(): stored timestamps are not those of the pair end "
        "poses that belong to the values")
    assert result.trajectories["est"].num_poses == len(values) + 1, (
        "main_rpe.rpe(): reduced estimate does not consist of the first pose "
        "plus one pose per value")


if __name__ == "__main__":
    check_metric(all_pairs=False, delta=1)
    check_metric(all_pairs=True, delta=1)
    check_metric(all_pairs=True, delta=2)
    check_main_rpe()
    print("OK: ratio values and delta_ids are consistent")
