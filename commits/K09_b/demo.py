"""
C09 / variant b: the rotation angle (so3_log_angle) must agree with the
logarithm for every rotation - including angles within 1e-12 of 0 and of pi -
and, as a metric, it must be zero only for equal rotations.
Run: cd /tmp/seed4/C09 && /venv/bin/python /tmp/seed4_out/C09/demo_b.py
"""
import os
import sys

sys.path.insert(0, os.getcwd())

import warnings

import numpy as np

from evo.core import lie_algebra as lie

warnings.simplefilter("ignore")

rng = np.random.default_rng(909)
np.random.seed(909)


def unit_axes():
    axes = [np.eye(3)[i] for i in range(3)] + [-np.eye(3)[i] for i in range(3)]
    for _ in range(10):
        v = rng.normal(size=3)
        axes.append(v / np.linalg.norm(v))
    return axes


SMALL = [1e-16, 1e-14, 1e-12, 1e-10, 1e-9, 1e-8, 1e-7, 1e-6, 1e-5, 1e-4, 1e-3]
NEAR_PI = [np.pi - d for d in (1e-3, 1e-6, 1e-9, 1e-12, 0.0)]
GENERIC = [0.1, 0.5, 1.0, np.pi / 2, 2.0, 3.0]

failures = []
n = 0
for axis in unit_axes():
    for angle in SMALL + GENERIC + NEAR_PI:
        n += 1
        r = lie.so3_exp(axis * angle)
        # 1) exp / log / angle are consistent
        log_angle = lie.so3_log_angle(r)
        rel_err = abs(log_angle - angle) / angle
        if not rel_err < 1e-9:
            failures.append(
                f"so3_log_angle(so3_exp(axis*{angle:.17g})) = {log_angle:.17g}"
                f" (relative error {rel_err:.3g})")
        norm_of_log = float(np.linalg.norm(lie.so3_log(r)))
        if not abs(norm_of_log - log_angle) <= 1e-9 * max(norm_of_log, 1e-300):
            failures.append(
                f"|so3_log(r)| = {norm_of_log:.17g} but so3_log_angle(r) = "
                f"{log_angle:.17g}")
        if not 0.0 <= log_angle <= np.pi + 1e-15:
            failures.append(f"angle {log_angle} outside [0, pi]")
        # degrees variant
        deg = lie.so3_log_angle(r, degrees=True)
        if not abs(deg - np.rad2deg(angle)) <= 1e-9 * np.rad2deg(angle):
            failures.append(f"degrees: {deg} vs {np.rad2deg(angle)}")
        # 2) metric: d(a, b) = angle(a^-1 b) is zero only if a == b,
        #    symmetric and bi-invariant
        a = lie.random_so3()
        b = a.dot(r)
        d_ab = lie.so3_log_angle(lie.relative_so3(a, b))
        d_ba = lie.so3_log_angle(lie.relative_so3(b, a))
        if not np.array_equal(a, b) and not d_ab > 0.0:
            failures.append(
                f"distance {d_ab} between two different rotations "
                f"(true angle {angle:g})")
        if not abs(d_ab - d_ba) <= 1e-6 * angle + 1e-15:
            failures.append(f"not symmetric: {d_ab} vs {d_ba}")
        if not abs(d_ab - angle) <= 1e-6 * angle + 1e-15:
            failures.append(
                f"left-invariance: d(a, a*r) = {d_ab:.17g}, angle(r) = "
                f"{angle:.17g}")

assert not failures, (f"{len(failures)} violations in {n} rotations, e.g.:\n  " +
                      "\n  ".join(failures[:6]))
print(f"OK: rotation angle consistent with log for {n} rotations")
