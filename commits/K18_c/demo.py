"""
C18 / variant c: a version upgrade of the package settings adds the missing
default keys, but must not change any value the user has set.
"""
import os
import sys

sys.path.insert(0, os.getcwd())

import json
import shutil
import tempfile

tmp_home = tempfile.mkdtemp(prefix="c18c_home_")
os.environ["HOME"] = tmp_home
os.environ["USERPROFILE"] = tmp_home

try:
    from evo import main_config
    from evo.tools import settings
    from evo.tools.settings_template import DEFAULT_SETTINGS_DICT

    assert str(settings.DEFAULT_PATH).startswith(tmp_home), \
        "demo must not touch the real package settings"

    def load():
        with open(settings.DEFAULT_PATH) as f:
            return json.load(f)

    # The user edits the package settings with 'evo_config set ...'.
    settings.reset()
    main_config.set_config(settings.DEFAULT_PATH, [
        "plot_linewidth", "2",
        "plot_figsize", "6", "4.5",
        "tf_cache_lookup_frequency", "2.5",
        "ros_map_unknown_cell_value", "127.5",
        "plot_seaborn_palette", "red", "green", "blue",
        "plot_split",
        "table_export_format", "latex",
    ])  # yapf: disable
    user_settings = load()
    assert user_settings["tf_cache_lookup_frequency"] == 2.5
    assert user_settings["plot_linewidth"] == 2
    assert set(user_settings) == set(DEFAULT_SETTINGS_DICT)

    # Simulate that the file comes from an older version that did not have
    # two of today's parameters yet.
    old_settings = dict(user_settings)
    del old_settings["plot_start_end_markers"]
    del old_settings["map_tile_api_token"]
    settings.write_to_json_file(settings.DEFAULT_PATH, old_settings)
    with open(settings.USER_ASSETS_VERSION_PATH, "w") as f:
        f.write("v1.0.0-older-than-any-release")

    settings.update_if_outdated()

    upgraded = load()
    from evo import __version__
    with open(settings.USER_ASSETS_VERSION_PATH) as f:
        assert f.read() == __version__, "assets version was not updated"
    assert set(upgraded) == set(DEFAULT_SETTINGS_DICT), \
        "upgrade did not produce exactly the current key set"
    for key in ("plot_start_end_markers", "map_tile_api_token"):
        assert upgraded[key] == DEFAULT_SETTINGS_DICT[key], \
            "missing key {} was not added with its default".format(key)
    changed = {
        k: (old_settings[k], upgraded[k])
        for k in old_settings if upgraded[k] != old_settings[k]
    }
    assert not changed, (
        "the version upgrade changed values the user has set "
        "(before, after): {}".format(changed))

    # A second start with the current version is a no-op.
    settings.update_if_outdated()
    assert load() == upgraded
    print("OK: version upgrade keeps all user values")
finally:
    shutil.rmtree(tmp_home, ignore_errors=True)
