import os
import sys

sys.path.insert(0, os.getcwd())

import copy

import numpy as np

import evo.core.transformations as tr
from evo.core import lie_algebra as lie
from evo.core.trajectory import Plane, PoseTrajectory3D

print("evo from:", os.path.dirname(lie.__file__))


def random_trajectory(rng, n, from_matrices):
    """smooth-ish random 3D trajectory, built from matrices or from xyz+quat"""
    xyz = np.cumsum(rng.normal(size=(n, 3)), axis=0)
    quat = rng.normal(size=(n, 4))
    quat /= np.linalg.norm(quat, axis=1)[:, np.newaxis]
    stamps = np.arange(n, dtype=float)
    if from_matrices:
        poses = [
            lie.se3(tr.quaternion_matrix(q)[:3, :3], p)
            for q, p in zip(quat, xyz)
        ]
        return PoseTrajectory3D(poses_se3=poses, timestamps=stamps)
    return PoseTrajectory3D(xyz, quat, stamps)


def views_consistent(traj):
    ok = traj.num_poses == len(traj.positions_xyz) == len(
        traj.orientations_quat_wxyz) == len(traj.timestamps)
    for pose, xyz, quat in zip(traj.poses_se3, traj.positions_xyz,
                               traj.orientations_quat_wxyz):
        ok &= np.allclose(pose[:3, 3], xyz)
        rot = tr.quaternion_matrix(quat)[:3, :3]
        ok &= np.allclose(pose[:3, :3], rot, atol=1e-6)
    return bool(ok)


rng = np.random.default_rng(42)
failures = []
runs = 0
for from_matrices in (True, False):
    for n in (3, 10, 57):
        for _ in range(5):
            runs += 1
            # History: build -> project into the XY plane -> move the copy
            # rigidly to some other place -> align back to the reference.
            ref = random_trajectory(rng, n, from_matrices)
            ref.project(Plane.XY)
            est = copy.deepcopy(ref)
            _ = est.orientations_quat_wxyz  # read a view in between
            est.transform(lie.se3(tr.random_rotation_matrix(rng.random(3))[:3, :3],
                                  rng.normal(size=3)))
            r_a, t_a, s = est.align(ref)

            valid, details = est.check()
            if not valid:
                failures.append(
                    f"n={n} from_matrices={from_matrices}: check() fails "
                    f"after align(): {details}")
                continue
            if not np.isclose(np.linalg.det(r_a), 1.0):
                failures.append(f"n={n}: alignment 'rotation' has det "
                                f"{np.linalg.det(r_a):.3f}")
                continue
            if not views_consistent(est):
                failures.append(f"n={n}: views disagree after align()")
                continue
            if est != ref:
                failures.append(f"n={n}: aligned trajectory differs from "
                                "the reference it was derived from")

print(f"{runs} project->transform->align histories, "
      f"{len(failures)} violations")
for f in failures[:5]:
    print("  ", f)
assert not failures, (
    "align() of planar trajectories must apply a proper rigid-body motion "
    "and keep all poses valid SE(3): " + failures[0])
print("OK")
