"""
Demo for variant c (C05): every pose of the trajectory with fewer poses whose
temporally nearest counterpart lies within max_diff (and is not also the
nearest counterpart of another pose) must be paired with that counterpart.

Scenario: 20 Hz reference with a dropout (tracking gap), 5 Hz estimate and a
generous max_diff of 0.15 s. None of the reference poses is the nearest
counterpart of two estimate poses, so the expected pairs are simply "nearest
neighbour within max_diff".

run: cd /tmp/seed4/C05 && /venv/bin/python /tmp/seed4_out/C05/demo_c.py
"""
import os
import sys

sys.path.insert(0, os.getcwd())

import numpy as np

from evo.core import lie_algebra as lie
from evo.core import sync
from evo.core.trajectory import PoseTrajectory3D


def make_traj(stamps, seed):
    np.random.seed(seed)
    return PoseTrajectory3D(poses_se3=[lie.random_se3() for _ in stamps],
                            timestamps=np.array(stamps, dtype=float))


def expected_pairs(stamps_short, stamps_long, max_diff, offset_long=0.0):
    """brute-force oracle, also asserts that the input has no conflicts"""
    shifted = np.asarray(stamps_long) + offset_long
    nearest = [int(np.argmin(np.abs(shifted - s))) for s in stamps_short]
    assert len(set(nearest)) == len(nearest), "demo input has conflicts"
    return [(i, j) for i, j in enumerate(nearest)
            if abs(shifted[j] - stamps_short[i]) <= max_diff]


def check(name, stamps_short, stamps_long, max_diff, offset):
    """
    offset is the offset of the *second* trajectory as passed to evo,
    checked with the short trajectory as first and as second argument
    """
    # short trajectory first, long trajectory second (offset applies to long)
    want = expected_pairs(stamps_short, stamps_long, max_diff, offset)
    got = sync.matching_time_indices(np.array(stamps_short),
                                     np.array(stamps_long), max_diff, offset)
    got = list(zip(*got))
    missing = [p for p in want if p not in got]
    assert not missing, (
        "{}: matching_time_indices dropped pairs (short idx, long idx) {} "
        "although the long stamp is the nearest counterpart within "
        "max_diff={} and is not claimed by any other pose; got {}".format(
            name, missing, max_diff, got))
    assert got == want, "{}: unexpected pairs {} != {}".format(
        name, got, want)

    traj_short = make_traj(stamps_short, 1)
    traj_long = make_traj(stamps_long, 2)
    out_s, out_l = sync.associate_trajectories(traj_short, traj_long,
                                               max_diff, offset)
    assert out_s.num_poses == out_l.num_poses
    assert out_s.num_poses == len(want), (
        "{} (second longer): expected {} pairs, got {}".format(
            name, len(want), out_s.num_poses))
    assert np.array_equal(out_s.timestamps,
                          np.array(stamps_short)[[i for i, _ in want]])
    assert np.array_equal(out_l.timestamps,
                          np.array(stamps_long)[[j for _, j in want]])

    # long trajectory first, short trajectory second (offset applies to
    # short, i.e. the long one is searched with -offset)
    want = expected_pairs(stamps_short, stamps_long, max_diff, -offset)
    out_l, out_s = sync.associate_trajectories(traj_long, traj_short,
                                               max_diff, offset)
    assert out_s.num_poses == out_l.num_poses
    assert out_s.num_poses == len(want), (
        "{} (first longer): expected {} pairs, got {}".format(
            name, len(want), out_s.num_poses))
    assert np.array_equal(out_s.timestamps,
                          np.array(stamps_short)[[i for i, _ in want]])
    assert np.array_equal(out_l.timestamps,
                          np.array(stamps_long)[[j for _, j in want]])


def main():
    # minimal constellation
    check("minimal", [0.0, 1.0], [0.6, 1.1, 5.0], max_diff=0.7, offset=0.0)
    check("minimal with offset", [0.0, 1.0], [0.6, 1.1, 5.0], max_diff=0.7,
          offset=0.05)

    # 20 Hz reference with a dropout between 12.0 s and 12.33 s, 5 Hz estimate
    t0 = 1.5e9
    ref = t0 + 10.0 + 0.05 * np.arange(200)
    ref = ref[(ref <= t0 + 12.0 + 1e-6) | (ref >= t0 + 12.33)]
    ref = np.concatenate([ref, [t0 + 12.33]])
    ref.sort()
    est = t0 + 10.0 + 0.2 * np.arange(45) + 0.004
    assert len(est) < len(ref)
    check("dropout", list(est), list(ref), max_diff=0.15, offset=0.0)

    # small max_diff (the usual case): same data
    check("dropout, default max_diff", list(est), list(ref), max_diff=0.01,
          offset=0.0)

    print("demo_c: OK")


if __name__ == "__main__":
    main()
