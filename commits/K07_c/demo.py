"""
C07 / variant c: EuRoC csv 'timestamp[ns], p_x, p_y, p_z, q_w, q_x, q_y, q_z,
...' is loaded to the numbers in the file, nanoseconds converted to seconds -
for any float literal spelling of the fields.

Run as:  cd /tmp/seed4/C07 && /venv/bin/python /tmp/seed4_out/C07/demo_c.py
"""
import os
import sys

sys.path.insert(0, os.getcwd())

import io
import shutil
import tempfile

import numpy as np

from evo.tools import file_interface

HEADER = ("#timestamp, p_RS_R_x [m], p_RS_R_y [m], p_RS_R_z [m], q_RS_w [], "
          "q_RS_x [], q_RS_y [], q_RS_z [], v_RS_R_x [m s^-1]")
STAMPS_NS = [1403636580838555648, 1403636580843555584, 1403636580848555520]
POSES = [
    "4.688319,-1.786938,0.783338,0.534108,-0.153029,-0.827383,-0.082152,0.1",
    "4.688177,-1.786770,0.787350,0.534640,-0.152990,-0.826976,-0.082863,0.2",
    "4.688028,-1.786598,0.791382,0.535178,-0.152945,-0.826562,-0.083605,0.3",
]

# Different spellings of the same nanosecond stamps. All of them are valid
# float literals (and are parsed to the same float64 by any csv/float parser).
SPELLINGS = {
    "plain integer": lambda ns: str(ns),
    "integer with trailing .0": lambda ns: str(ns) + ".0",
    "exponent notation (repr of float, as written by pandas / numpy)":
        lambda ns: repr(float(ns)),
    "exponent notation (%.18e, as written by np.savetxt)":
        lambda ns: "%.18e" % ns,
    "upper case exponent": lambda ns: ("%.15e" % ns).upper(),
}


def reference(lines):
    """independent parser of the EuRoC convention"""
    rows = [[float(v) for v in line.split(",")] for line in lines
            if not line.startswith("#")]
    values = np.array(rows)
    return values[:, 0] / 1e9, values[:, 1:4], values[:, 4:8]


def check(traj, lines, what):
    stamps_ref, xyz_ref, quat_ref = reference(lines)
    assert traj.num_poses == len(stamps_ref), \
        "{}: expected {} poses, got {}".format(what, len(stamps_ref),
                                               traj.num_poses)
    # 1 microsecond tolerance: far above float64 resolution at 1.4e9 s.
    assert np.allclose(traj.timestamps, stamps_ref, rtol=0, atol=1e-6), \
        "EuRoC stamps spelled as {}:\n  file     {}\n  loaded   {!r} s\n" \
        "  expected {!r} s".format(
            what, [line.split(",")[0] for line in lines[1:]],
            traj.timestamps.tolist(), stamps_ref.tolist())
    assert np.array_equal(traj.positions_xyz, xyz_ref), what
    assert np.array_equal(traj.orientations_quat_wxyz, quat_ref), what


def main():
    tmp_dir = tempfile.mkdtemp(prefix="c07_demo_c_")
    try:
        for what, spell in SPELLINGS.items():
            lines = [HEADER] + [
                spell(ns) + "," + pose for ns, pose in zip(STAMPS_NS, POSES)
            ]
            content = "\n".join(lines) + "\n"
            path = os.path.join(tmp_dir, "data.csv")
            with open(path, "w") as f:
                f.write(content)
            for source in (path, io.StringIO(content)):
                try:
                    traj = file_interface.read_euroc_csv_trajectory(source)
                except file_interface.FileInterfaceException as e:
                    raise AssertionError(
                        "well-formed EuRoC csv with stamps spelled as {} "
                        "was rejected: {}".format(what, e))
                check(traj, lines, what)
    finally:
        shutil.rmtree(tmp_dir, ignore_errors=True)
    print("demo_c: OK")


if __name__ == "__main__":
    main()
