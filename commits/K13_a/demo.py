"""
C13 demo a: merge_results() must not modify any of its input results.
Exits 0 if the first input is untouched after merging (and the merged values
are right), non-zero otherwise.
"""
import os
import sys

sys.path.insert(0, os.getcwd())

import copy

import numpy as np

from evo.core import result


def make(values, stats):
    r = result.Result()
    r.add_info({"title": "t", "est_name": "e"})
    r.add_stats(dict(stats))
    r.add_np_array("error_array", np.array(values, dtype=float))
    r.add_np_array("timestamps", np.arange(len(values), dtype=float))
    return r


def check(inputs, expected_error_array):
    snapshots = [copy.deepcopy(r) for r in inputs]
    merged = result.merge_results(inputs)
    assert np.allclose(merged.np_arrays["error_array"], expected_error_array), \
        "merged error_array is wrong: {}".format(merged.np_arrays["error_array"])
    assert abs(merged.stats["rmse"] -
               np.mean([r.stats["rmse"] for r in snapshots])) < 1e-12, \
        "merged rmse is not the mean of the inputs"
    for i, (before, after) in enumerate(zip(snapshots, inputs)):
        assert before.stats == after.stats, \
            "merge_results() modified the stats of input #{}".format(i)
        assert before.np_arrays.keys() == after.np_arrays.keys()
        for key in before.np_arrays:
            assert np.array_equal(before.np_arrays[key], after.np_arrays[key]), \
                "merge_results() modified np_arrays[{!r}] of input #{}: " \
                "{} -> {}".format(key, i, before.np_arrays[key],
                                  after.np_arrays[key])
    assert merged is not inputs[0]


# equal lengths -> average
check([make([1, 2, 3], {"rmse": 1.0}), make([3, 2, 1], {"rmse": 3.0}),
       make([2, 2, 2], {"rmse": 5.0})], [2, 2, 2])
# unequal lengths -> append
check([make([1, 2, 3], {"rmse": 1.0}), make([7], {"rmse": 3.0})],
      [1, 2, 3, 7])
print("OK: inputs untouched")
