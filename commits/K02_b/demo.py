#!/usr/bin/env python
"""
C02 / variant b: with a delta in meters / radians / degrees the pose pairs
are selected on the estimate by default and on the reference with
pairs_from_reference=True. The RPE values must be the definition applied to
exactly those pairs.
"""
import os
import sys

sys.path.insert(0, os.getcwd())

import copy
import logging

import numpy as np

logging.disable(logging.CRITICAL)

from evo.core import filters, metrics
from evo.core import lie_algebra as lie
from evo.core.trajectory import PoseTrajectory3D
from evo.core.units import Unit
from evo import main_rpe


def make_trajectories(n=30):
    """Reference with constant motion, estimate with 25 % scale drift and a
    faster rotation, so that path/angle based pairs differ between the two."""
    ref_step = lie.se3(lie.so3_exp(np.array([0.0, 0.0, 0.10])),
                       np.array([1.0, 0.0, 0.0]))
    est_step = lie.se3(lie.so3_exp(np.array([0.0, 0.01, 0.13])),
                       np.array([1.25, 0.0, 0.02]))
    ref_poses, est_poses = [np.eye(4)], [np.eye(4)]
    for _ in range(n - 1):
        ref_poses.append(ref_poses[-1].dot(ref_step))
        est_poses.append(est_poses[-1].dot(est_step))
    stamps = np.arange(n, dtype=float) * 0.1
    return (PoseTrajectory3D(poses_se3=ref_poses, timestamps=stamps),
            PoseTrajectory3D(poses_se3=est_poses, timestamps=stamps.copy()))


def select_pairs(poses, delta, unit, rel_tol, all_pairs):
    # Directly with the low-level filters (not via evo.core.metrics).
    if unit == Unit.meters:
        return filters.filter_pairs_by_path(poses, delta, delta * rel_tol,
                                            all_pairs)
    return filters.filter_pairs_by_angle(poses, delta, delta * rel_tol,
                                         unit == Unit.degrees, all_pairs)


def definition(ref, est, id_pairs):
    values = []
    for i, j in id_pairs:
        q_rel = np.linalg.inv(ref.poses_se3[i]).dot(ref.poses_se3[j])
        p_rel = np.linalg.inv(est.poses_se3[i]).dot(est.poses_se3[j])
        e = np.linalg.inv(q_rel).dot(p_rel)
        values.append(np.linalg.norm(e[:3, 3]))
    return np.array(values)


def check(delta, unit, all_pairs, from_ref):
    ref, est = make_trajectories()
    rel_tol = 0.1
    src = ref if from_ref else est
    other = est if from_ref else ref
    id_pairs = select_pairs(src.poses_se3, delta, unit, rel_tol, all_pairs)
    other_pairs = select_pairs(other.poses_se3, delta, unit, rel_tol,
                               all_pairs)
    assert id_pairs and id_pairs != other_pairs, "test data not suitable"
    exp_ends = [int(j) for _, j in id_pairs]
    exp_values = definition(ref, est, id_pairs)
    what = (f"delta={delta} {unit.value}, all_pairs={all_pairs}, "
            f"pairs_from_reference={from_ref}")

    rpe = metrics.RPE(metrics.PoseRelation.translation_part, delta, unit,
                      rel_tol, all_pairs, from_ref)
    rpe.process_data((ref, est))
    assert [int(j) for j in rpe.delta_ids] == exp_ends, (
        f"[{what}] RPE.delta_ids {[int(j) for j in rpe.delta_ids]} are not "
        f"the end indices {exp_ends} of the pairs selected on the "
        f"{'reference' if from_ref else 'estimate'}")
    assert np.allclose(rpe.error, exp_values, rtol=1e-9, atol=1e-12), (
        f"[{what}] values are not the definition over the selected pairs")

    result = main_rpe.rpe(copy.deepcopy(ref), copy.deepcopy(est),
                          metrics.PoseRelation.translation_part, delta, unit,
                          rel_tol, all_pairs, from_ref, ref_name="ref",
                          est_name="est")
    assert np.allclose(result.np_arrays["error_array"], exp_values,
                       rtol=1e-9, atol=1e-12), (
        f"[{what}] main_rpe.rpe(): values are not the definition over the "
        "selected pairs")
    assert np.allclose(result.np_arrays["timestamps"],
                       est.timestamps[exp_ends]), (
        f"[{what}] main_rpe.rpe(): timestamps are not those of the pair "
        "end poses")


if __name__ == "__main__":
    for from_ref in (False, True):
        for all_pairs in (False, True):
            check(5.0, Unit.meters, all_pairs, from_ref)
            check(0.5, Unit.radians, all_pairs, from_ref)
            check(30.0, Unit.degrees, all_pairs, from_ref)
    print("OK: pairs are selected on the documented trajectory")
