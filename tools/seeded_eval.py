#!/usr/bin/env python3-vt
"""Run checks against each seeded change on a scratch copy of /repo (outside
/repo and /verif; removed afterwards).  usage: seeded_eval.py [ids...] [--all-props]"""
import json, os, shutil, subprocess, sys, tempfile
from concurrent.futures import ThreadPoolExecutor
V = os.path.dirname(os.path.dirname(os.path.abspath(__file__)))
props = [json.loads(l)["id"] for l in open(os.path.join(V, "properties.jsonl"))]
manifest = json.load(open(os.path.join(V, "MANIFEST.json")))
claimed = [c["property_id"] for c in manifest["checks"]]
args = [a for a in sys.argv[1:] if not a.startswith("--")]
allp = "--all-props" in sys.argv
seeds = sorted(d for d in os.listdir(os.path.join(V, "seeded")) if os.path.isdir(os.path.join(V, "seeded", d)))
if args:
    seeds = [s for s in seeds if s in args or s[:3] in args]

def one(sid):
    meta = json.load(open(os.path.join(V, "seeded", sid, "meta.json")))
    d = tempfile.mkdtemp(prefix="evo_seed_")
    try:
        shutil.copytree("/repo/evo", os.path.join(d, "evo"), ignore=shutil.ignore_patterns("__pycache__"))
        shutil.copytree("/repo/contrib", os.path.join(d, "contrib"))
        pr = subprocess.run(["git", "apply", "--include=evo/*", "--include=contrib/*", os.path.join(V, "seeded", sid, "patch.diff")], cwd=d, capture_output=True, text=True)
        if pr.returncode != 0:
            return sid, "PATCH-FAILED " + pr.stdout[:200]
        out = {}
        targets = [p for p in (props if allp else (meta.get("checked_by") or [meta["property"]])) if os.path.exists(os.path.join(V, "sa", "rules", p.lower() + ".py"))]
        for p in targets:
            r = subprocess.run([sys.executable, os.path.join(V, "check"), p, "--repo", d, "--json", "--no-evidence"], capture_output=True, text=True)
            if r.returncode == 2:
                out[p] = "ANALYSIS-ERROR " + r.stdout.strip()[-300:]
            else:
                try:
                    j = json.loads(r.stdout.strip().splitlines()[-1])
                    out[p] = sorted({x["rule"] for x in j["violated"]})
                    if j.get("undecided") and out[p] == base.get(p, []):
                        out[p] = "ANALYSIS-ERROR " + "; ".join(j["undecided"])[:300]
                except Exception:
                    out[p] = "?? " + (r.stdout + r.stderr)[-200:]
        return sid, out
    finally:
        shutil.rmtree(d, ignore_errors=True)

base = {}
for p in props:
    if os.path.exists(os.path.join(V, "sa", "rules", p.lower() + ".py")):
        r = subprocess.run([sys.executable, os.path.join(V, "check"), p, "--json", "--no-evidence"], capture_output=True, text=True)
        try:
            base[p] = sorted({x["rule"] for x in json.loads(r.stdout.strip().splitlines()[-1])["violated"]})
        except Exception:
            base[p] = "ERR"
print("baseline (unchanged tree):", {k: v for k, v in base.items() if v})
with ThreadPoolExecutor(16) as ex:
    for sid, out in ex.map(one, seeds):
        if isinstance(out, dict):
            own = sid[:3]
            det = {p: v for p, v in out.items() if v and v != base.get(p)}
            status = "DETECTED" if det else "missed"
            print(f"{sid}: {status} {det}")
        else:
            print(sid, out)
