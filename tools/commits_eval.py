#!/usr/bin/env python3-vt
"""Third false-alarm corpus: realistic *legitimate* commits (modernisations,
new features, bug fixes; commits/K*/) applied to scratch copies, all 20 checks
run on each.  Expected: silence, except for the alarms a commit's meta.json
lists under `true_alarms` (commits that, read against the full property text,
do deviate): those must be reported, and nothing else.
Output per commit: silent / TRUE-ALARM-ONLY / FALSE-ALARM {...} / UNDECIDED {...}."""
import glob, json, os, shutil, subprocess, sys, tempfile
from concurrent.futures import ThreadPoolExecutor
V = os.path.dirname(os.path.dirname(os.path.abspath(__file__)))
dirs = [os.path.abspath(a) for a in sys.argv[1:]] or sorted(
    glob.glob(os.path.join(V, "commits", "K*")))
KNOWN = ("no-uniqueness", "Plane.XZ:axes='sxyz':angle_position=1")


def one(d):
    meta = json.load(open(os.path.join(d, "meta.json")))
    expected = (meta.get("true_alarms") or {}).get("alarms", {})
    kfa = meta.get("known_false_alarm") or {}
    t = tempfile.mkdtemp(prefix="evo_commit_")
    try:
        shutil.copytree("/repo/evo", os.path.join(t, "evo"),
                        ignore=shutil.ignore_patterns("__pycache__"))
        shutil.copytree("/repo/contrib", os.path.join(t, "contrib"))
        pr = subprocess.run(["git", "apply", "--include=evo/*",
                             "--include=contrib/*",
                             os.path.join(d, "patch.diff")], cwd=t,
                            capture_output=True, text=True)
        if pr.returncode:
            return d, "PATCH-FAILED", {}
        r = subprocess.run([sys.executable,
                            os.path.join(V, "tools", "check_all.py"), t],
                           capture_output=True, text=True)
        j = json.loads(r.stdout.strip().splitlines()[-1])
        false, undec, true = {}, {}, {}
        for pid, v in j.items():
            viol = [x for x in v["violated"]
                    if not any(k in x for k in KNOWN)]
            exp = expected.get(pid, [])
            fa = [x for x in viol if not any(e in x for e in exp)]
            tr = [x for x in viol if any(e in x for e in exp)]
            if fa:
                false[pid] = fa
            if tr:
                true[pid] = tr
            if (v["undecided"] or v["error"]) and not viol:
                undec[pid] = v["undecided"] or v["error"]
        missing = [pid for pid in expected if pid not in true and
                   pid not in undec and pid not in false]
        if false and all(pid in kfa for pid in false):
            return d, "KNOWN-FALSE-ALARM", false
        if false:
            return d, "FALSE-ALARM", {"false": false, "undecided": undec}
        if undec:
            return d, "UNDECIDED", undec
        if true:
            return d, "TRUE-ALARM-ONLY", true
        return d, "silent", {}
    finally:
        shutil.rmtree(t, ignore_errors=True)


with ThreadPoolExecutor(8) as ex:
    tally = {}
    for d, verdict, detail in ex.map(one, dirs):
        tally[verdict] = tally.get(verdict, 0) + 1
        print(f"{verdict:16s} {os.path.basename(d)} "
              f"{json.dumps(detail)[:600] if detail else ''}")
    print(" ".join(f"{k}={v}" for k, v in sorted(tally.items())),
          f"of {len(dirs)}")
    sys.exit(1 if tally.get("FALSE-ALARM") or tally.get("PATCH-FAILED") else 0)
