#!/usr/bin/env python3-vt
"""Development aid: legitimate rewrites of geometry.umeyama_alignment that
C03 must accept (exit 0) — exercises the equivariance typing on the idioms a
maintainer would plausibly use (vectorised covariance, keepdims means, @,
negative indices, variance, one-sided centring)."""
import os, shutil, subprocess, sys, tempfile
V = os.path.dirname(os.path.dirname(os.path.abspath(__file__)))
src = open("/repo/evo/core/geometry.py").read()
LOOP = '''    sigma_x = 1.0 / n * (np.linalg.norm(x - mean_x[:, np.newaxis])**2)

    # covariance matrix, eq. 38
    outer_sum = np.zeros((m, m))
    for i in range(n):
        outer_sum += np.outer((y[:, i] - mean_y), (x[:, i] - mean_x))
    cov_xy = np.multiply(1.0 / n, outer_sum)
'''
variants = {
    "vectorised": src.replace(LOOP, '''    x_c = x - mean_x[:, np.newaxis]
    y_c = y - mean_y[:, np.newaxis]
    sigma_x = np.sum(x_c**2) / n
    cov_xy = y_c.dot(x_c.T) / n
'''),
    "keepdims_matmul": src.replace('''    mean_x = x.mean(axis=1)
    mean_y = y.mean(axis=1)
''', '''    mean_x = np.mean(x, axis=1)
    mean_y = np.mean(y, axis=1)
''').replace(LOOP, '''    x_c = x - np.mean(x, axis=1, keepdims=True)
    y_c = y - np.mean(y, axis=1, keepdims=True)
    sigma_x = (x_c**2).sum() / n
    cov_xy = (y_c @ x_c.T) / n
''').replace("    r = u.dot(s).dot(v)", "    r = u @ s @ v").replace(
        '''    c = 1 / sigma_x * np.trace(np.diag(d).dot(s)) if with_scale else 1.0
    t = mean_y - np.multiply(c, r.dot(mean_x))''',
        '''    c = np.trace(np.diag(d) @ s) / sigma_x if with_scale else 1.0
    t = mean_y - c * (r @ mean_x)'''),
    "neg_index": src.replace("s[m - 1, m - 1] = -1", "s[-1, -1] = -1"),
    "var_sigma": src.replace(
        "    sigma_x = 1.0 / n * (np.linalg.norm(x - mean_x[:, np.newaxis])**2)",
        "    sigma_x = x.var(axis=1).sum()"),
    # (centring only one factor is *not* among the legitimate rewrites: it is
    #  algebraically equal but loses eps * offset^2 — seeded/C03i; variant
    #  eqv-one-sided-centring of sa/rules/c03.py expects C03.5 to fire)
    "float_minus_one": src.replace("s[m - 1, m - 1] = -1",
                                   "s[m - 1, m - 1] = -1.0"),
    "shape_unpack": src.replace("    m, n = x.shape\n",
                                "    m = x.shape[0]\n    n = x.shape[1]\n"),
    "sum_outer": src.replace(LOOP, '''    sigma_x = np.linalg.norm(x - mean_x[:, np.newaxis])**2 / n
    x_c = x - mean_x[:, np.newaxis]
    y_c = y - mean_y[:, np.newaxis]
    cov_xy = np.dot(y_c, x_c.T) * (1.0 / n)
'''),
}
bad = 0
for k, v in variants.items():
    assert v != src, k
    d = tempfile.mkdtemp(prefix="evo_umy_")
    try:
        shutil.copytree("/repo/evo", d + "/evo",
                        ignore=shutil.ignore_patterns("__pycache__"))
        shutil.copytree("/repo/contrib", d + "/contrib")
        open(d + "/evo/core/geometry.py", "w").write(v)
        r = subprocess.run([sys.executable, V + "/check", "C03", "--tier",
                            "quick", "--repo", d, "--no-evidence"],
                           capture_output=True, text=True)
        lines = [l for l in r.stdout.splitlines()
                 if "VIOLATION" in l or "violated" in l or "ANALYSIS" in l]
        print(("silent      " if r.returncode == 0 else "FALSE-ALARM ") + k,
              r.returncode)
        for l in lines:
            print("    " + l[:400])
        bad += r.returncode != 0
    finally:
        shutil.rmtree(d, ignore_errors=True)
sys.exit(1 if bad else 0)
