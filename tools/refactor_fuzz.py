#!/usr/bin/env python3-vt
"""Refactoring fuzzer (development aid, like tools/mutate.py — not a registered
check): applies *semantics-preserving* syntax-tree transformations to one file
of /repo/evo at a time on a scratch copy and runs all 20 checks on the result.
Every VIOLATION is a false alarm of the checker by construction; "declined"
(exit 2) is recorded.  Nothing of evo is executed.

Transformations (each is the identity on behaviour for the code in evo):
  flip-if      if c: A else: B          ->  if not (c): B else: A
  nest-return  if c: <..return/raise>; rest  ->  if c: <..> else: rest
  temp-return  return E                 ->  _ret_value = E; return _ret_value
  demorgan     if a and b: ...          ->  if not (not (a) or not (b)): ...
  flip-cmp     a < b / a == b ...       ->  b > a / b == a ...   (single op)
  bool-cond    if c: / while c:         ->  if bool(c): (plain names/calls only)
  rename       local variables get a suffix (functions without nested
               functions, global / nonlocal, locals(), exec, eval)
  np-dot       x.dot(y)                 ->  np.dot(x, y)   (module imports np)
  named-const  float literals of a function body become module constants
  unparse      the file re-printed by ast.unparse (layout and comments gone)
  comp-to-loop / loop-to-comp   list comprehension <-> append loop
  hoist-arg    first nested call argument bound to a temporary first
  split-and    if a and b: X -> nested ifs;  ternary-to-if / if-to-ternary;
  dict-call    {"a": x} -> dict(a=x)
  unnest-else / loop-continue / continue-to-if   guard-clause forms
  unalias-imports   import a.b as c -> import a.b, c.x -> a.b.x

usage: refactor_fuzz.py [--files a.py,b.py] [--transforms t1,t2] [--jobs N]
       [--per-function]   -> JSON lines on stdout, summary on stderr
"""
import ast
import copy
import json
import os
import shutil
import subprocess
import sys
import tempfile
from concurrent.futures import ThreadPoolExecutor

V = os.path.dirname(os.path.dirname(os.path.abspath(__file__)))
REPO = os.environ.get("FUZZ_REPO", "/repo")
KNOWN = ("no-uniqueness", "Plane.XZ:axes='sxyz':angle_position=1")

FILES = [
    "evo/core/filters.py", "evo/core/geometry.py", "evo/core/lie_algebra.py",
    "evo/core/metrics.py", "evo/core/result.py", "evo/core/sync.py",
    "evo/core/trajectory.py", "evo/core/units.py", "evo/common_ape_rpe.py",
    "evo/main_ape.py", "evo/main_rpe.py", "evo/main_traj.py",
    "evo/main_res.py", "evo/main_config.py", "evo/entry_points.py",
    "evo/tools/file_interface.py", "evo/tools/pandas_bridge.py",
    "evo/tools/plot.py", "evo/tools/settings.py", "evo/tools/user.py",
]


def _ends_in_jump(body):
    return bool(body) and isinstance(body[-1], (ast.Return, ast.Raise,
                                                ast.Continue, ast.Break))


class FlipIf(ast.NodeTransformer):
    def visit_If(self, n):
        self.generic_visit(n)
        if n.orelse and not (len(n.orelse) == 1 and
                             isinstance(n.orelse[0], ast.If)):
            return ast.If(test=ast.UnaryOp(op=ast.Not(), operand=n.test),
                          body=n.orelse, orelse=n.body)
        return n


class NestReturn(ast.NodeTransformer):
    """in a statement list: `if c: ...jump` followed by rest -> else: rest"""

    def _block(self, stmts):
        out = []
        for i, s in enumerate(stmts):
            if isinstance(s, ast.If) and not s.orelse and \
                    _ends_in_jump(s.body) and i + 1 < len(stmts) and \
                    not isinstance(s.body[-1], (ast.Continue, ast.Break)):
                rest = self._block(stmts[i + 1:])
                out.append(ast.If(test=s.test, body=s.body, orelse=rest))
                return out
            out.append(s)
        return out

    def visit_FunctionDef(self, n):
        self.generic_visit(n)
        n.body = self._block(n.body)
        return n


class TempReturn(ast.NodeTransformer):
    def visit_FunctionDef(self, n):
        self.generic_visit(n)

        class R(ast.NodeTransformer):
            def visit_FunctionDef(self, m):
                return m            # not into nested functions

            def visit_Lambda(self, m):
                return m

            def visit_Return(self, r):
                if r.value is None or isinstance(r.value, (ast.Name,
                                                           ast.Constant)):
                    return r
                return [ast.Assign(targets=[ast.Name("_ret_value",
                                                     ast.Store())],
                                   value=r.value),
                        ast.Return(ast.Name("_ret_value", ast.Load()))]
        n.body = [x for s in n.body for x in (
            lambda t: t if isinstance(t, list) else [t])(R().visit(s))]
        return n


class DeMorgan(ast.NodeTransformer):
    def visit_If(self, n):
        self.generic_visit(n)
        t = n.test
        if isinstance(t, ast.BoolOp) and isinstance(t.op, ast.And):
            n.test = ast.UnaryOp(ast.Not(), ast.BoolOp(
                ast.Or(), [ast.UnaryOp(ast.Not(), v) for v in t.values]))
        elif isinstance(t, ast.BoolOp) and isinstance(t.op, ast.Or):
            n.test = ast.UnaryOp(ast.Not(), ast.BoolOp(
                ast.And(), [ast.UnaryOp(ast.Not(), v) for v in t.values]))
        return n


_FLIP = {ast.Lt: ast.Gt, ast.Gt: ast.Lt, ast.LtE: ast.GtE, ast.GtE: ast.LtE,
         ast.Eq: ast.Eq, ast.NotEq: ast.NotEq}


def _pure(e):
    return all(isinstance(x, (ast.Name, ast.Attribute, ast.Constant,
                              ast.Subscript, ast.Load, ast.BinOp, ast.Add,
                              ast.Sub, ast.Mult, ast.Div, ast.UnaryOp,
                              ast.USub, ast.Tuple, ast.Slice))
               for x in ast.walk(e))


class FlipCmp(ast.NodeTransformer):
    def visit_Compare(self, n):
        self.generic_visit(n)
        if len(n.ops) == 1 and type(n.ops[0]) in _FLIP and \
                _pure(n.left) and _pure(n.comparators[0]):
            return ast.Compare(left=n.comparators[0],
                               ops=[_FLIP[type(n.ops[0])]()],
                               comparators=[n.left])
        return n


class BoolCond(ast.NodeTransformer):
    def _wrap(self, t):
        if isinstance(t, (ast.Name, ast.Attribute, ast.Call)):
            return ast.Call(ast.Name("bool", ast.Load()), [t], [])
        return t

    def visit_If(self, n):
        self.generic_visit(n)
        n.test = self._wrap(n.test)
        return n


class NpDot(ast.NodeTransformer):
    def visit_Call(self, n):
        self.generic_visit(n)
        if isinstance(n.func, ast.Attribute) and n.func.attr == "dot" and \
                len(n.args) == 1 and not n.keywords:
            return ast.Call(ast.Attribute(ast.Name("np", ast.Load()), "dot",
                                          ast.Load()),
                            [n.func.value, n.args[0]], [])
        return n


class Rename(ast.NodeTransformer):
    def visit_FunctionDef(self, n):
        bad = False
        for x in ast.walk(n):
            if x is not n and isinstance(x, (ast.FunctionDef, ast.Lambda,
                                             ast.ClassDef, ast.Global,
                                             ast.Nonlocal, ast.ListComp,
                                             ast.DictComp, ast.SetComp,
                                             ast.GeneratorExp)):
                # (comprehensions have their own scope: their targets are
                # not locals of the function; keep it simple and skip)
                if not isinstance(x, (ast.ListComp, ast.DictComp, ast.SetComp,
                                      ast.GeneratorExp)):
                    bad = True
            if isinstance(x, ast.Call) and isinstance(x.func, ast.Name) and \
                    x.func.id in ("locals", "vars", "exec", "eval"):
                bad = True
        if bad:
            return n
        params = {a.arg for a in n.args.args + n.args.kwonlyargs +
                  n.args.posonlyargs}
        if n.args.vararg:
            params.add(n.args.vararg.arg)
        if n.args.kwarg:
            params.add(n.args.kwarg.arg)
        comp_targets = set()
        for x in ast.walk(n):
            if isinstance(x, (ast.ListComp, ast.DictComp, ast.SetComp,
                              ast.GeneratorExp)):
                for g in x.generators:
                    for y in ast.walk(g.target):
                        if isinstance(y, ast.Name):
                            comp_targets.add(y.id)
        assigned = set()
        for x in ast.walk(n):
            if isinstance(x, ast.Name) and isinstance(x.ctx, ast.Store):
                assigned.add(x.id)
            if isinstance(x, (ast.Import, ast.ImportFrom)):
                for a in x.names:
                    assigned.discard((a.asname or a.name).split(".")[0])
                    comp_targets.add((a.asname or a.name).split(".")[0])
            if isinstance(x, ast.ExceptHandler) and x.name:
                comp_targets.add(x.name)
        locs = assigned - params - comp_targets

        class R(ast.NodeTransformer):
            def visit_Name(self, m):
                if m.id in locs:
                    return ast.Name(m.id + "_v", m.ctx)
                return m
        return R().visit(n)


class NamedConst(ast.NodeTransformer):
    def __init__(self):
        self.consts = {}

    def visit_FunctionDef(self, n):
        outer = self

        class R(ast.NodeTransformer):
            def visit_Constant(self, c):
                if isinstance(c.value, float) and c.value not in (0.0, 1.0):
                    name = "_FUZZ_CONST_%d" % len(outer.consts)
                    outer.consts[name] = c.value
                    return ast.Name(name, ast.Load())
                return c
        n.body = [R().visit(s) for s in n.body]   # (not the defaults)
        return n

    def finish(self, tree):
        pos = 0
        for i, s in enumerate(tree.body):
            if isinstance(s, (ast.Import, ast.ImportFrom)) or (
                    isinstance(s, ast.Expr) and isinstance(
                        getattr(s, "value", None), ast.Constant)):
                pos = i + 1
        for k, v in reversed(list(self.consts.items())):
            tree.body.insert(pos, ast.Assign([ast.Name(k, ast.Store())],
                                             ast.Constant(v)))
        return tree


def _names(node):
    return {x.id for x in ast.walk(node) if isinstance(x, ast.Name)}


class CompToLoop(ast.NodeTransformer):
    """x = [E for t in it if c]  ->  x = []; for t_: if c: x.append(E)
    (statement level, one generator, name target; the loop variable gets a
    fresh name because a loop variable leaks and a comprehension's does not)"""

    def _rewrite(self, stmts):
        out = []
        for s in stmts:
            if isinstance(s, ast.Assign) and len(s.targets) == 1 and \
                    isinstance(s.targets[0], ast.Name) and \
                    isinstance(s.value, ast.ListComp) and \
                    len(s.value.generators) == 1 and \
                    not s.value.generators[0].is_async and \
                    s.targets[0].id not in _names(s.value):
                g = s.value.generators[0]
                tnames = {x.id for x in ast.walk(g.target)
                          if isinstance(x, ast.Name)}

                class R(ast.NodeTransformer):
                    def visit_Name(self, m):
                        if m.id in tnames:
                            return ast.Name(m.id + "_it", m.ctx)
                        return m
                tgt = R().visit(copy.deepcopy(g.target))
                elt = R().visit(copy.deepcopy(s.value.elt))
                conds = [R().visit(copy.deepcopy(c)) for c in g.ifs]
                body = [ast.Expr(ast.Call(ast.Attribute(
                    ast.Name(s.targets[0].id, ast.Load()), "append",
                    ast.Load()), [elt], []))]
                for c in reversed(conds):
                    body = [ast.If(c, body, [])]
                out.append(ast.Assign([ast.Name(s.targets[0].id,
                                                ast.Store())],
                                      ast.List([], ast.Load())))
                out.append(ast.For(tgt, g.iter, body, []))
            else:
                out.append(s)
        return out

    def generic_visit(self, n):
        super().generic_visit(n)
        for fld in ("body", "orelse", "finalbody"):
            b = getattr(n, fld, None)
            if isinstance(b, list) and b and isinstance(b[0], ast.stmt):
                setattr(n, fld, self._rewrite(b))
        return n


class LoopToComp(ast.NodeTransformer):
    """x = []; for t in it: x.append(E)  ->  x = [E for t in it]
    (adjacent statements, the loop body is that one append or an `if c:`
    around it, E and c do not mention x, t is not used after the loop)"""

    def _rewrite(self, stmts, later_names):
        out = []
        i = 0
        while i < len(stmts):
            s = stmts[i]
            nxt = stmts[i + 1] if i + 1 < len(stmts) else None
            done = False
            if isinstance(s, ast.Assign) and len(s.targets) == 1 and \
                    isinstance(s.targets[0], ast.Name) and \
                    isinstance(s.value, ast.List) and not s.value.elts and \
                    isinstance(nxt, ast.For) and not nxt.orelse and \
                    len(nxt.body) == 1:
                x = s.targets[0].id
                b = nxt.body[0]
                conds = []
                while isinstance(b, ast.If) and not b.orelse and \
                        len(b.body) == 1:
                    conds.append(b.test)
                    b = b.body[0]
                if isinstance(b, ast.Expr) and isinstance(b.value, ast.Call) \
                        and isinstance(b.value.func, ast.Attribute) and \
                        b.value.func.attr == "append" and \
                        isinstance(b.value.func.value, ast.Name) and \
                        b.value.func.value.id == x and \
                        len(b.value.args) == 1 and not b.value.keywords:
                    e = b.value.args[0]
                    tn = {y.id for y in ast.walk(nxt.target)
                          if isinstance(y, ast.Name)}
                    rest = set()
                    for r_ in stmts[i + 2:]:
                        rest |= _names(r_)
                    if x not in _names(e) and all(
                            x not in _names(c) for c in conds) and \
                            x not in _names(nxt.iter) and \
                            not (tn & (rest | later_names)) and not any(
                                isinstance(y, (ast.Yield, ast.YieldFrom,
                                               ast.Await, ast.NamedExpr))
                                for y in ast.walk(nxt)):
                        out.append(ast.Assign(
                            [ast.Name(x, ast.Store())],
                            ast.ListComp(e, [ast.comprehension(
                                nxt.target, nxt.iter, conds, 0)])))
                        i += 2
                        done = True
            if not done:
                out.append(s)
                i += 1
        return out

    def visit_FunctionDef(self, n):
        self.generic_visit(n)
        n.body = self._rewrite(n.body, set())
        return n


class HoistArg(ast.NodeTransformer):
    """y = f(g(a), ...)  ->  _arg0 = g(a); y = f(_arg0, ...)   (the nested
    call is the first thing f's call evaluates after a plain callee name)"""

    def _rewrite(self, stmts):
        out = []
        for s in stmts:
            call = None
            if isinstance(s, (ast.Assign, ast.Expr, ast.Return)) and \
                    isinstance(s.value, ast.Call):
                call = s.value
            if call is not None and call.args and \
                    isinstance(call.args[0], ast.Call) and \
                    isinstance(call.func, (ast.Name, ast.Attribute)) and \
                    all(isinstance(x, (ast.Name, ast.Attribute, ast.Load))
                        for x in ast.walk(call.func)):
                out.append(ast.Assign([ast.Name("_arg0", ast.Store())],
                                      call.args[0]))
                call.args[0] = ast.Name("_arg0", ast.Load())
            out.append(s)
        return out

    def visit_FunctionDef(self, n):
        self.generic_visit(n)
        if not any(isinstance(x, (ast.Lambda, ast.FunctionDef)) and x is not n
                   for x in ast.walk(n)):
            n.body = self._rewrite(n.body)
        return n


class SplitAnd(ast.NodeTransformer):
    """if a and b: X   (no else)  ->  if a: if b: X"""

    def visit_If(self, n):
        self.generic_visit(n)
        if not n.orelse and isinstance(n.test, ast.BoolOp) and \
                isinstance(n.test.op, ast.And):
            body = n.body
            for v in reversed(n.test.values):
                body = [ast.If(v, body, [])]
            return body[0]
        return n


class TernaryToIf(ast.NodeTransformer):
    """x = A if c else B  ->  if c: x = A else: x = B   (statement level)"""

    def _rewrite(self, stmts):
        out = []
        for s in stmts:
            if isinstance(s, ast.Assign) and len(s.targets) == 1 and \
                    isinstance(s.targets[0], ast.Name) and \
                    isinstance(s.value, ast.IfExp):
                t = s.targets[0].id
                out.append(ast.If(
                    s.value.test,
                    [ast.Assign([ast.Name(t, ast.Store())], s.value.body)],
                    [ast.Assign([ast.Name(t, ast.Store())],
                                s.value.orelse)]))
            elif isinstance(s, ast.Return) and isinstance(s.value, ast.IfExp):
                out.append(ast.If(s.value.test, [ast.Return(s.value.body)],
                                  [ast.Return(s.value.orelse)]))
            else:
                out.append(s)
        return out

    def generic_visit(self, n):
        super().generic_visit(n)
        for fld in ("body", "orelse", "finalbody"):
            b = getattr(n, fld, None)
            if isinstance(b, list) and b and isinstance(b[0], ast.stmt):
                setattr(n, fld, self._rewrite(b))
        return n


class IfToTernary(ast.NodeTransformer):
    """if c: x = A else: x = B -> x = A if c else B; if c: return A else:
    return B -> return A if c else B"""

    def visit_If(self, n):
        self.generic_visit(n)
        if len(n.body) == 1 and len(n.orelse) == 1:
            a, b = n.body[0], n.orelse[0]
            if isinstance(a, ast.Assign) and isinstance(b, ast.Assign) and \
                    len(a.targets) == 1 and len(b.targets) == 1 and \
                    isinstance(a.targets[0], ast.Name) and \
                    isinstance(b.targets[0], ast.Name) and \
                    a.targets[0].id == b.targets[0].id:
                return ast.Assign([ast.Name(a.targets[0].id, ast.Store())],
                                  ast.IfExp(n.test, a.value, b.value))
            if isinstance(a, ast.Return) and isinstance(b, ast.Return) and \
                    a.value is not None and b.value is not None:
                return ast.Return(ast.IfExp(n.test, a.value, b.value))
        return n


class DictCall(ast.NodeTransformer):
    """{"a": x, "b": y}  ->  dict(a=x, b=y)   (identifier keys only)"""

    def visit_Dict(self, n):
        self.generic_visit(n)
        import keyword
        if n.keys and all(isinstance(k, ast.Constant) and isinstance(
                k.value, str) and k.value.isidentifier() and
                not keyword.iskeyword(k.value) for k in n.keys):
            return ast.Call(ast.Name("dict", ast.Load()), [],
                            [ast.keyword(k.value, v)
                             for k, v in zip(n.keys, n.values)])
        return n


class UnnestElse(ast.NodeTransformer):
    """if c: ...jump else: rest  ->  if c: ...jump; rest"""

    def _rewrite(self, stmts):
        out = []
        for s in stmts:
            if isinstance(s, ast.If) and s.orelse and _ends_in_jump(s.body):
                out.append(ast.If(s.test, s.body, []))
                out.extend(self._rewrite(s.orelse))
            else:
                out.append(s)
        return out

    def generic_visit(self, n):
        super().generic_visit(n)
        for fld in ("body", "orelse", "finalbody"):
            b = getattr(n, fld, None)
            if isinstance(b, list) and b and isinstance(b[0], ast.stmt):
                setattr(n, fld, self._rewrite(b))
        return n


class LoopContinue(ast.NodeTransformer):
    """for ..: if c: body   ->  for ..: if not c: continue; body
    (the if is the whole loop body and has no else)"""

    def visit_For(self, n):
        self.generic_visit(n)
        if len(n.body) == 1 and isinstance(n.body[0], ast.If) and \
                not n.body[0].orelse:
            i = n.body[0]
            n.body = [ast.If(ast.UnaryOp(ast.Not(), i.test),
                             [ast.Continue()], [])] + i.body
        return n


class ContinueToIf(ast.NodeTransformer):
    """for ..: if c: continue; rest  ->  for ..: if not c: rest
    (first statement of the body, rest has no further continue / break)"""

    def visit_For(self, n):
        self.generic_visit(n)
        if len(n.body) >= 2 and isinstance(n.body[0], ast.If) and \
                not n.body[0].orelse and len(n.body[0].body) == 1 and \
                isinstance(n.body[0].body[0], ast.Continue):
            n.body = [ast.If(ast.UnaryOp(ast.Not(), n.body[0].test),
                             n.body[1:], [])]
        return n


class UnaliasImports(ast.NodeTransformer):
    """import a.b as c  ->  import a.b   and every  c.x -> a.b.x"""

    def __init__(self):
        self.alias = {}

    def visit_Module(self, n):
        for s in n.body:
            if isinstance(s, ast.Import):
                for a in s.names:
                    if a.asname and a.asname != a.name:
                        self.alias[a.asname] = a.name
                        a.asname = None
        shadow = {x.id for x in ast.walk(n) if isinstance(x, ast.Name) and
                  isinstance(x.ctx, ast.Store)} | {
            a.arg for x in ast.walk(n) if isinstance(x, ast.arguments)
            for a in x.args + x.kwonlyargs}
        for k in list(self.alias):
            if k in shadow:
                # (a local of that name somewhere: leave this alias alone)
                for s in n.body:
                    if isinstance(s, ast.Import):
                        for a in s.names:
                            if a.name == self.alias[k] and a.asname is None:
                                a.asname = k
                del self.alias[k]
        self.generic_visit(n)
        return n

    def visit_Name(self, m):
        if m.id in self.alias and isinstance(m.ctx, ast.Load):
            parts = self.alias[m.id].split(".")
            e = ast.Name(parts[0], ast.Load())
            for p_ in parts[1:]:
                e = ast.Attribute(e, p_, ast.Load())
            return e
        return m


TRANSFORMS = {"unnest-else": UnnestElse, "loop-continue": LoopContinue,
              "continue-to-if": ContinueToIf,
              "unalias-imports": UnaliasImports,
              "split-and": SplitAnd, "ternary-to-if": TernaryToIf,
              "if-to-ternary": IfToTernary, "dict-call": DictCall,
              "comp-to-loop": CompToLoop, "loop-to-comp": LoopToComp,
              "hoist-arg": HoistArg,
              "flip-if": FlipIf, "nest-return": NestReturn,
              "temp-return": TempReturn, "demorgan": DeMorgan,
              "flip-cmp": FlipCmp, "bool-cond": BoolCond, "rename": Rename,
              "np-dot": NpDot, "named-const": NamedConst,
              "unparse": None}


def transform_source(src: str, tname: str, only_func=None):
    if "+" in tname:
        # a chain of transformations applied one after the other
        cur, changed = src, False
        for t in tname.split("+"):
            nxt = transform_source(cur, t, only_func)
            if nxt is not None:
                cur, changed = nxt, True
        return cur if changed else None
    tree = ast.parse(src)
    if tname == "unparse":
        # the same program re-printed (comments, layout, line numbers gone)
        return ast.unparse(tree)
    tr = TRANSFORMS[tname]()
    if only_func is None:
        new = tr.visit(copy.deepcopy(tree))
    else:
        new = copy.deepcopy(tree)
        for node in ast.walk(new):
            for fld in ("body",):
                body = getattr(node, fld, None)
                if isinstance(body, list):
                    for i, s in enumerate(body):
                        if isinstance(s, ast.FunctionDef) and \
                                s.name == only_func[0] and \
                                s.lineno == only_func[1]:
                            r = tr.visit(s)
                            body[i] = r
    if isinstance(tr, NamedConst):
        new = tr.finish(new)
    ast.fix_missing_locations(new)
    out = ast.unparse(new)
    if tname == "np-dot" and "np.dot" in out and \
            "import numpy as np" not in out:
        return None
    return out if ast.dump(ast.parse(out)) != ast.dump(tree) else None


def functions_of(src):
    return [(n.name, n.lineno) for n in ast.walk(ast.parse(src))
            if isinstance(n, ast.FunctionDef)]


def run_variant(v):
    rel, tname, only = v
    src = open(os.path.join(REPO, rel)).read()
    try:
        new = transform_source(src, tname, only)
    except Exception as ex:             # a bug of the fuzzer itself
        return dict(file=rel, transform=tname, func=only, outcome="fuzzer-error",
                    detail=repr(ex)[:200])
    if new is None:
        return dict(file=rel, transform=tname, func=only, outcome="no-change")
    d = tempfile.mkdtemp(prefix="evo_fuzz_")
    try:
        shutil.copytree(os.path.join(REPO, "evo"), d + "/evo",
                        ignore=shutil.ignore_patterns("__pycache__"))
        shutil.copytree(os.path.join(REPO, "contrib"), d + "/contrib")
        open(os.path.join(d, rel), "w").write(new)
        r = subprocess.run([os.path.join(V, "tools", "check_all.py"), d],
                           capture_output=True, text=True)
        j = json.loads(r.stdout.strip().splitlines()[-1])
        viol, und = {}, {}
        for p, res in j.items():
            vs = [x for x in res["violated"]
                  if not any(k in x for k in KNOWN)]
            if vs:
                viol[p] = {k: (res.get("msgs") or {}).get(k, "")[:240]
                           for k in vs[:4]}
            if res["error"] or res["undecided"]:
                und[p] = (res["error"] or (res.get("why") or ["?"])[0])[:160]
        return dict(file=rel, transform=tname, func=only,
                    outcome="VIOLATION" if viol else (
                        "declined" if und else "silent"),
                    violated=viol, declined=und)
    finally:
        shutil.rmtree(d, ignore_errors=True)


def main():
    args = sys.argv[1:]
    files, trs, jobs, perfn = FILES, list(TRANSFORMS), 8, False
    for i, a in enumerate(args):
        if a == "--files":
            files = args[i + 1].split(",")
        if a == "--transforms":
            trs = args[i + 1].split(",")
        if a == "--jobs":
            jobs = int(args[i + 1])
        if a == "--per-function":
            perfn = True
    variants = []
    for rel in files:
        src = open(os.path.join(REPO, rel)).read()
        for t in trs:
            if perfn:
                for fn in functions_of(src):
                    variants.append((rel, t, fn))
            else:
                variants.append((rel, t, None))
    counts = {}
    with ThreadPoolExecutor(jobs) as ex:
        for res in ex.map(run_variant, variants):
            counts[res["outcome"]] = counts.get(res["outcome"], 0) + 1
            if res["outcome"] != "no-change":
                print(json.dumps(res), flush=True)
    print("summary:", counts, file=sys.stderr)


if __name__ == "__main__":
    main()
