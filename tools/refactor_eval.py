#!/usr/bin/env python3-vt
"""Apply behaviour-preserving refactoring patches to scratch copies and run all
checks: any VIOLATION / ANALYSIS-ERROR is a false alarm of the machinery."""
import glob, json, os, shutil, subprocess, sys, tempfile
from concurrent.futures import ThreadPoolExecutor
V = os.path.dirname(os.path.dirname(os.path.abspath(__file__)))
pats = [os.path.abspath(a) for a in sys.argv[1:]] or sorted(glob.glob(os.path.join(V, "refactors", "*", "patch.diff")))


def one(p):
    d = tempfile.mkdtemp(prefix="evo_ref_")
    try:
        shutil.copytree("/repo/evo", os.path.join(d, "evo"), ignore=shutil.ignore_patterns("__pycache__"))
        shutil.copytree("/repo/contrib", os.path.join(d, "contrib"))
        pr = subprocess.run(["git", "apply", "--include=evo/*", "--include=contrib/*", p], cwd=d, capture_output=True, text=True)
        if pr.returncode:
            return p, "PATCH-FAILED " + (pr.stdout + pr.stderr)[:100]
        r = subprocess.run([sys.executable, os.path.join(V, "tools", "check_all.py"), d], capture_output=True, text=True)
        try:
            j = json.loads(r.stdout.strip().splitlines()[-1])
        except Exception:
            return p, "?? " + r.stderr[-300:]
        sys.path.insert(0, V)
        from sa.core import UNDECIDABLE_REFACTORS
        rid = p.split("/")[-2]
        bad = {}
        for k, v in j.items():
            floor = (v["error"] or "").startswith("rule ")   # instance floor
            if k in UNDECIDABLE_REFACTORS.get(rid, ()) and \
                    (not v["error"] or floor) \
                    and (v["undecided"] or floor) and not [
                        x for x in v["violated"]
                        if "no-uniqueness" not in x and
                        "Plane.XZ:axes='sxyz':angle_position=1" not in x]:
                continue       # listed: honest "cannot decide" (core.py)
            viol = [x for x in v["violated"] if "no-uniqueness" not in x and "Plane.XZ:axes='sxyz':angle_position=1" not in x]
            if viol or v["error"] or v["undecided"]:
                bad[k] = {"violated": viol, "error": v["error"], "undecided": v["undecided"]}
        return p, bad
    finally:
        shutil.rmtree(d, ignore_errors=True)


with ThreadPoolExecutor(8) as ex:
    nbad = 0
    for p, bad in ex.map(one, pats):
        name = "/".join(p.split("/")[-2:])
        if bad:
            nbad += 1
            print("FALSE-ALARM", name, json.dumps(bad)[:900])
        else:
            print("silent     ", name)
    print(f"{len(pats) - nbad}/{len(pats)} silent")
