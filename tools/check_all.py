#!/usr/bin/env python3-vt
"""Run all 20 property checks on one tree in a single process; print JSON
{pid: {"violated": [rule...], "undecided": n, "error": str|None}}."""
import json, os, sys, traceback
V = os.path.dirname(os.path.dirname(os.path.abspath(__file__)))
sys.path.insert(0, V)
sys.dont_write_bytecode = True
from sa import core, lib          # noqa: E402
from sa.progdb import AnalysisError  # noqa: E402


def run(repo, pids=None):
    out = {}
    for i in range(1, 21):
        pid = f"C{i:02d}"
        if pids and pid not in pids:
            continue
        lib._SWEEP_CACHE.clear()
        try:
            mod, ctx = core.run_rules(pid, repo, "quick", 0)
            core._IMPORT_CACHE.clear()
            viol = sorted({o.key for o in ctx.obligations if not o.ok})
            err = None
            if not viol and not ctx.undecided:
                # like `check`: instance floors are enforced on a clean run
                for rule, n in getattr(mod, "FLOORS", {}).items():
                    try:
                        ctx.floor(rule, n)
                    except AnalysisError as e:
                        err = str(e)[:200]
                        break
            out[pid] = {"violated": viol, "undecided": len(ctx.undecided),
                        "error": err,
                        "why": [str(u)[:300] for u in ctx.undecided][:4],
                        "msgs": {o.key: f"{o.site}: {o.msg}"[:400]
                                 for o in ctx.obligations if not o.ok}}
        except AnalysisError as e:
            out[pid] = {"violated": [], "undecided": 0, "error": str(e)[:200]}
        except Exception:
            out[pid] = {"violated": [], "undecided": 0,
                        "error": "CRASH " + traceback.format_exc()[-300:]}
    return out


if __name__ == "__main__":
    print(json.dumps(run(sys.argv[1], set(sys.argv[2:]) or None)))
