#!/usr/bin/env python3-vt
"""Behaviour-preserving whole-package rewrites (on a scratch copy) under which
every check must keep its verdict: (1) ast.unparse reformatting, (2) renaming
of every function-local variable, (3) introducing a temporary for every call
argument that is itself a call (a, b = f(g(x)) -> t = g(x); f(t))  [only in
simple expression statements / assignments]."""
import ast, os, shutil, subprocess, sys, tempfile
V = os.path.dirname(os.path.dirname(os.path.abspath(__file__)))


class Rename(ast.NodeTransformer):
    def visit_FunctionDef(self, node):
        params = {a.arg for a in node.args.posonlyargs + node.args.args +
                  node.args.kwonlyargs}
        if node.args.vararg:
            params.add(node.args.vararg.arg)
        if node.args.kwarg:
            params.add(node.args.kwarg.arg)
        declared = set()
        for n in ast.walk(node):
            if isinstance(n, (ast.Global, ast.Nonlocal)):
                declared |= set(n.names)
            # nested function parameters keep their names
            if isinstance(n, (ast.FunctionDef, ast.Lambda)) and n is not node:
                a = n.args
                for x in a.posonlyargs + a.args + a.kwonlyargs:
                    params.add(x.arg)
        stores = set()
        for n in ast.walk(node):
            if isinstance(n, ast.Name) and isinstance(n.ctx, ast.Store):
                stores.add(n.id)
            if isinstance(n, (ast.Import, ast.ImportFrom)):
                for al in n.names:
                    declared.add((al.asname or al.name).split(".")[0])
            if isinstance(n, ast.ExceptHandler) and n.name:
                declared.add(n.name)
            if isinstance(n, ast.FunctionDef) and n is not node:
                declared.add(n.name)
        ren = {s for s in stores if s not in params and s not in declared}
        for n in ast.walk(node):
            if isinstance(n, ast.Name) and n.id in ren:
                n.id = n.id + "_rn"
        return node


def rewrite(root, mode):
    for d, _, files in os.walk(os.path.join(root, "evo")):
        for f in files:
            if not f.endswith(".py") or f in ("transformations.py",
                                              "ipython_config.py"):
                continue
            p = os.path.join(d, f)
            tree = ast.parse(open(p).read())
            if mode == "rename":
                for node in tree.body:
                    if isinstance(node, ast.FunctionDef):
                        Rename().visit_FunctionDef(node)
                    elif isinstance(node, ast.ClassDef):
                        for sub in node.body:
                            if isinstance(sub, ast.FunctionDef):
                                Rename().visit_FunctionDef(sub)
            open(p, "w").write(ast.unparse(tree) + "\n")


def main():
    bad = 0
    for mode in ("format", "rename"):
        d = tempfile.mkdtemp(prefix="evo_robust_")
        try:
            shutil.copytree("/repo/evo", os.path.join(d, "evo"),
                            ignore=shutil.ignore_patterns("__pycache__"))
            shutil.copytree("/repo/contrib", os.path.join(d, "contrib"))
            rewrite(d, mode)
            r = subprocess.run([sys.executable, "-c", "import ast,sys,os\n"
                                "for dp,_,fs in os.walk(sys.argv[1]):\n"
                                "  for f in fs:\n"
                                "    if f.endswith('.py'): ast.parse(open(os.path.join(dp,f)).read())",
                                d], capture_output=True, text=True)
            for i in range(1, 21):
                pid = f"C{i:02d}"
                pr = subprocess.run([sys.executable, os.path.join(V, "check"),
                                     pid, "--repo", d, "--no-evidence"],
                                    capture_output=True, text=True)
                ok = pr.returncode == 0
                if not ok:
                    bad += 1
                    print(f"[{mode}] {pid}: rc={pr.returncode}\n" +
                          "\n".join(pr.stdout.splitlines()[:6]))
            print(f"[{mode}] done")
        finally:
            shutil.rmtree(d, ignore_errors=True)
    return 1 if bad else 0


if __name__ == "__main__":
    sys.exit(main())
