#!/usr/bin/env python3-vt
"""Regenerate /verif/MANIFEST.json from the rule modules' MANIFEST dicts."""
import importlib, json, os, sys
V = os.path.dirname(os.path.dirname(os.path.abspath(__file__)))
sys.path.insert(0, V)
props = [json.loads(l) for l in open(os.path.join(V, "properties.jsonl"))]
NA_FILE = os.path.join(V, "not_applicable.json")
na = json.load(open(NA_FILE)) if os.path.exists(NA_FILE) else {}
checks, not_app = [], []
for p in props:
    pid = p["id"]
    path = os.path.join(V, "sa", "rules", pid.lower() + ".py")
    if os.path.exists(path) and pid not in na:
        mod = importlib.import_module("sa.rules." + pid.lower())
        m = getattr(mod, "MANIFEST", None)
        if m is None:
            not_app.append({"property_id": pid, "reason": "checker under construction; not claimed yet"})
            continue
        checks.append({
            "property_id": pid,
            "quick_cmd": f"python3-vt check {pid} --tier quick",
            "thorough_cmd": f"python3-vt check {pid} --tier thorough",
            "evidence_file": f"evidence/{pid}.json",
            "replay_cmd_template": f"python3-vt check {pid} --tier quick --replay {{path}}",
            "engine": "sa",
            "level_claimed": {"category": "other", "text": m["text"], "design_ref": m.get("design_ref", f"DESIGN.md section 5, {pid}")},
            "level_note": m["note"],
            "technique": m["technique"],
        })
    else:
        not_app.append({"property_id": pid, "reason": na.get(pid, "checker under construction; not claimed yet")})
man = {
    "version": 1,
    "setup_cmd": "python3-vt -c \"import ast, sys; sys.path.insert(0, '/verif'); import sa.core; print('static analysis framework ready (stdlib only, nothing to build)')\"",
    "hooks": {"guard": "EVO_VERIF", "enable": "none needed: the checks read /repo's sources (static analysis); evo is never imported, built or instrumented, so there are no hook commits",
              "baseline_off_cmd": "cd /repo && /venv/bin/python -m pytest -ra -q -p no:cacheprovider --timeout=900 --continue-on-collection-errors",
              "source_commits": [], "add_only": True},
    "engines": [{"name": "sa", "path": "sa/", "serves_properties": [c["property_id"] for c in checks],
                 "kind_free_text": "custom static analyser on python ast (stdlib only, run under python3-vt): program database with import/class/callee resolution, structured abstract interpreter producing symbolic provenance terms, live-condition formulas and an ordered event log, per-configuration constant folding (SCCP-style specialisation), 3-valued formula folding for must-pass-through/guard rules, per-property rule modules, variant-based self-validation in the thorough tier"}],
    "checks": checks,
    "not_applicable": not_app,
    "notes": "All checks: exit 0 = every obligation discharged (KNOWN-FINDING lines for findings listed in known_findings.json), exit 1 + VIOLATION line = a rule is violated by a construct not listed there, exit 2 + ANALYSIS-ERROR = the analysis could not decide (anchor vanished / unknown idiom / instance floor) - never a verdict. Every claimed property is decided only for the structural clauses named in its level text; undecided (numerical) clauses are listed in level_note, DESIGN.md section 5 and each evidence file.",
}
json.dump(man, open(os.path.join(V, "MANIFEST.json"), "w"), indent=1)
print("claimed:", [c["property_id"] for c in checks])
print("not applicable:", [n["property_id"] for n in not_app])
