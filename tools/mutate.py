#!/usr/bin/env python3-vt
"""Generic single-point mutation sweep used to look for blind spots of the
rule set (development aid, not a registered check).  For every mutant of the
core files: run all 20 checks on a scratch copy; if none fires, run the pinned
test-suite to see whether the tests kill it.  Survivors of both are written to
the report for manual triage (equivalent mutant / outside all properties /
genuine blind spot)."""
import ast, copy, json, os, shutil, subprocess, sys, tempfile, time
from concurrent.futures import ProcessPoolExecutor
V = os.path.dirname(os.path.dirname(os.path.abspath(__file__)))
FILES = ["evo/core/trajectory.py", "evo/core/metrics.py", "evo/core/filters.py",
         "evo/core/sync.py", "evo/core/geometry.py", "evo/core/lie_algebra.py",
         "evo/core/result.py", "evo/core/units.py",
         "evo/tools/file_interface.py", "evo/tools/pandas_bridge.py",
         "evo/tools/user.py", "evo/tools/settings.py", "evo/main_config.py",
         "evo/main_ape.py", "evo/main_rpe.py", "evo/common_ape_rpe.py",
         "evo/main_traj.py", "evo/tools/plot.py", "evo/entry_points.py"]
CMP = {ast.Lt: ast.LtE, ast.LtE: ast.Lt, ast.Gt: ast.GtE, ast.GtE: ast.Gt,
       ast.Eq: ast.NotEq, ast.NotEq: ast.Eq, ast.In: ast.NotIn,
       ast.NotIn: ast.In, ast.Is: ast.IsNot, ast.IsNot: ast.Is}
BIN = {ast.Add: ast.Sub, ast.Sub: ast.Add, ast.Mult: ast.Div,
       ast.Div: ast.Mult}
SKIP_FUNCS = {"__str__", "__eq__", "__ne__", "print_traj_info", "main",
              "tabbed_qt5_window", "tabbed_tk_window", "show", "ros_map",
              "map_tile", "get_supported_topics", "read_bag_trajectory",
              "trajectories", "apply_settings", "set_aspect_equal"}


def sites(tree):
    """yield (kind, node index path description, mutator fn)"""
    out = []
    for fn in ast.walk(tree):
        if not isinstance(fn, ast.FunctionDef) or fn.name in SKIP_FUNCS:
            continue
        for n in ast.walk(fn):
            if isinstance(n, ast.Call) and isinstance(n.func, ast.Attribute) \
                    and isinstance(n.func.value, ast.Name) and \
                    n.func.value.id == "logger":
                n._skip = True
        for n in ast.walk(fn):
            if getattr(n, "_skip", False):
                for c in ast.walk(n):
                    c._skip = True
        for n in ast.walk(fn):
            if getattr(n, "_skip", False):
                continue
            if isinstance(n, ast.Compare) and len(n.ops) == 1 and \
                    type(n.ops[0]) in CMP:
                out.append(("cmp", fn.name, n))
            elif isinstance(n, ast.BinOp) and type(n.op) in BIN and not (
                    isinstance(n.left, ast.Constant) and
                    isinstance(n.left.value, str)):
                out.append(("binop", fn.name, n))
            elif isinstance(n, ast.Constant) and isinstance(
                    n.value, (int, float)) and not isinstance(n.value, bool):
                out.append(("const", fn.name, n))
            elif isinstance(n, ast.Constant) and isinstance(n.value, bool):
                out.append(("bool", fn.name, n))
            elif isinstance(n, ast.UnaryOp) and isinstance(n.op, ast.Not):
                out.append(("not", fn.name, n))
            elif isinstance(n, ast.Call) and len(n.args) >= 2 and not any(
                    isinstance(a, ast.Starred) for a in n.args):
                out.append(("swapargs", fn.name, n))
            elif isinstance(n, (ast.Assign, ast.AugAssign, ast.Expr)) and \
                    not (isinstance(n, ast.Expr) and isinstance(
                        n.value, ast.Constant)):
                out.append(("delstmt", fn.name, n))
            elif isinstance(n, ast.BoolOp) and len(n.values) == 2:
                out.append(("boolop", fn.name, n))
    return out


def mutants_of(path):
    src = open(os.path.join("/repo", path)).read()
    base = ast.parse(src)
    n_sites = len(sites(base))
    res = []
    for i in range(n_sites):
        tree = ast.parse(src)
        kind, fname, n = sites(tree)[i]
        line = getattr(n, "lineno", 0)
        desc = None
        if kind == "cmp":
            old = type(n.ops[0]).__name__
            n.ops[0] = CMP[type(n.ops[0])]()
            desc = f"{old}->{type(n.ops[0]).__name__}"
        elif kind == "binop":
            old = type(n.op).__name__
            n.op = BIN[type(n.op)]()
            desc = f"{old}->{type(n.op).__name__}"
        elif kind == "const":
            old = n.value
            n.value = old + 1 if old != 1 else 0
            desc = f"{old}->{n.value}"
        elif kind == "bool":
            n.value = not n.value
            desc = f"->{n.value}"
        elif kind == "not":
            # replace `not x` by `x`: mutate in place via attribute copy
            repl = n.operand
            n.__class__ = repl.__class__
            n.__dict__.update(copy.copy(repl.__dict__))
            desc = "drop not"
        elif kind == "swapargs":
            n.args[0], n.args[1] = n.args[1], n.args[0]
            desc = "swap first two args"
        elif kind == "delstmt":
            n.__class__ = ast.Pass
            for k in list(n.__dict__):
                if k not in ("lineno", "col_offset", "end_lineno",
                             "end_col_offset"):
                    del n.__dict__[k]
            desc = "delete statement"
        elif kind == "boolop":
            n.op = ast.Or() if isinstance(n.op, ast.And) else ast.And()
            desc = "and<->or"
        try:
            new = ast.unparse(tree)
            compile(new, path, "exec")
        except Exception:
            continue
        res.append({"file": path, "func": fname, "line": line, "kind": kind,
                    "desc": desc, "src": new})
    return res


def work(chunk):
    d = tempfile.mkdtemp(prefix="evo_mut_")
    out = []
    try:
        shutil.copytree("/repo/evo", os.path.join(d, "evo"),
                        ignore=shutil.ignore_patterns("__pycache__"))
        shutil.copytree("/repo/contrib", os.path.join(d, "contrib"))
        shutil.copytree("/repo/test", os.path.join(d, "test"),
                        ignore=shutil.ignore_patterns("__pycache__"))
        shutil.copy("/repo/pyproject.toml", d)
        home = os.path.join(d, "home")
        os.makedirs(home)
        env = dict(os.environ, HOME=home, PYTHONDONTWRITEBYTECODE="1")
        for m in chunk:
            p = os.path.join(d, m["file"])
            orig = open(p).read()
            open(p, "w").write(m["src"])
            try:
                pr = subprocess.run([sys.executable,
                                     os.path.join(V, "tools", "check_all.py"),
                                     d], capture_output=True, text=True,
                                    timeout=300)
                try:
                    r = json.loads(pr.stdout.strip().splitlines()[-1])
                except Exception:
                    r = {"?": {"violated": [], "undecided": 0,
                               "error": pr.stderr[-200:]}}
                fired = {k: v["violated"] for k, v in r.items()
                         if [x for x in v["violated"]
                             if "no-uniqueness" not in x and
                             "Plane.XZ:axes='sxyz':angle_position=1" not in x]}
                errs = {k: (v["error"] or f"undecided x{v['undecided']}")
                        for k, v in r.items()
                        if v["error"] or v["undecided"]}
                rec = {k: m[k] for k in ("file", "func", "line", "kind",
                                         "desc")}
                rec["fired"] = {k: len(v) for k, v in fired.items()}
                rec["errors"] = {k: str(v)[:80] for k, v in errs.items()}
                if not fired and not errs:
                    t = subprocess.run(
                        ["/venv/bin/python", "-m", "pytest", "-q",
                         "-p", "no:cacheprovider", "--timeout=120",
                         "--continue-on-collection-errors"],
                        cwd=d, env=env, capture_output=True, text=True,
                        timeout=600)
                    tail = t.stdout.strip().splitlines()[-1] if \
                        t.stdout.strip() else ""
                    import re
                    mm = re.search(r"(\d+) passed", tail)
                    # pinned baseline: 82 passed (1 failed, 3 errors always)
                    rec["tests"] = "survived" if mm and \
                        int(mm.group(1)) >= 82 else "killed"
                    rec["tests_tail"] = tail[:80]
                out.append(rec)
            except subprocess.TimeoutExpired:
                out.append({**{k: m[k] for k in ("file", "func", "line",
                                                 "kind", "desc")},
                            "errors": {"timeout": "1"}, "fired": {}})
            finally:
                open(p, "w").write(orig)
    finally:
        shutil.rmtree(d, ignore_errors=True)
    return out


def main():
    outp = sys.argv[1] if len(sys.argv) > 1 else "/tmp/mutation_report.jsonl"
    files = sys.argv[2:] or FILES
    allm = []
    for f in files:
        ms = mutants_of(f)
        allm.extend(ms)
        print(f, len(ms), flush=True)
    print("total mutants", len(allm), flush=True)
    nw = int(os.environ.get("MUT_WORKERS", "14"))
    chunks = [allm[i::nw * 8] for i in range(nw * 8)]
    t0 = time.time()
    done = 0
    with open(outp, "w") as fo, ProcessPoolExecutor(nw) as ex:
        for res in ex.map(work, chunks):
            for r in res:
                fo.write(json.dumps(r) + "\n")
            fo.flush()
            done += len(res)
            print(f"{done}/{len(allm)} {time.time() - t0:.0f}s", flush=True)


if __name__ == "__main__":
    main()
