"""Shared helpers for rule modules."""
from __future__ import annotations

from typing import Callable, Dict, Iterable, List, Optional, Tuple

from .interp import Event, Interp, Result
from .progdb import AnalysisError, Function, Program
from . import terms as tm
from .terms import T, const

VENDORED = ("evo.core.transformations", "evo.ipython_config")


def subject_functions(prog: Program, include_contrib=False) -> List[Function]:
    out = []
    for q, f in sorted(prog.functions.items()):
        if f.module.name in VENDORED:
            continue
        if not include_contrib and not f.module.name.startswith("evo"):
            continue
        out.append(f)
    return out


_SWEEP_CACHE: Dict[Tuple[int, str], Dict[str, Result]] = {}


def sweep(prog: Program, tag: str = "plain", include_contrib=False,
          **kw) -> Dict[str, Result]:
    """run the interpreter (no inlining unless asked) over every function"""
    key = (id(prog), tag + str(include_contrib))
    if key in _SWEEP_CACHE:
        return _SWEEP_CACHE[key]
    res = {}
    for f in subject_functions(prog, include_contrib):
        it = Interp(prog, **kw)
        try:
            res[f.qualname] = it.run(f)
        except RecursionError:
            raise AnalysisError(f"interpreter recursion in {f.qualname}")
    _SWEEP_CACHE[key] = res
    return res


def run(prog: Program, qualname: str, config: Optional[Dict[str, T]] = None,
        assume: Optional[Callable[[T], Optional[bool]]] = None,
        inline=None, max_depth: int = 3, **kw) -> Result:
    f = prog.func(qualname)
    it = Interp(prog, inline=inline or (lambda fn: False), assume=assume,
                max_depth=max_depth, **kw)
    return it.run(f, dict(config or {}))


def enum_t(prog: Program, cq: str, member: str) -> T:
    c = prog.cls(cq)
    if member not in c.members:
        raise AnalysisError(f"enum member vanished: {cq}.{member}")
    return tm.enum(c.qualname, member)


def arg_of(e: Event, name: str, pos: Optional[int] = None) -> Optional[T]:
    """actual argument of a call event by callee parameter name (resolved
    callee) or keyword / position (external callee)"""
    b = e.data.get("bound")
    if b is not None and name in b:
        return b[name]
    for k, v in e.data["kwargs"]:
        if k == name:
            return v
    if b is None and pos is not None and pos < len(e.data["args"]):
        return e.data["args"][pos]
    return None


def is_call_to(t: T, *names: str) -> bool:
    n = tm.callee_name(t) if isinstance(t, T) else None
    if n is None:
        return False
    return any(n == x or (x.startswith(".") and n.endswith(x)) or
               (n.startswith(".") and x.endswith(n) and "." in x[:-len(n)])
               for x in names)


def derives_from(t: T, pred: Callable[[T], bool]) -> bool:
    return any(pred(x) for x in t.walk())


def norm_loops(t: T) -> T:
    """rename loop ids in order of appearance so that two structurally equal
    computations from different runs / functions compare equal"""
    order: Dict[int, int] = {}

    def collect(x: T):
        for s in _walk_ordered(x):
            lid = None
            if s.op == "elem":
                lid = s.args[1]
            elif s.op == "index":
                lid = s.args[0]
            elif s.op in ("loopvar", "loopout"):
                lid = s.args[1]
            elif s.op == "iter":
                lid = s.args[0]
            elif s.op == "comp":
                for _, l in s.args[2]:
                    if l not in order:
                        order[l] = len(order) + 1
            if lid is not None and lid not in order:
                order[lid] = len(order) + 1
    collect(t)

    def rw(x: T):
        if x.op == "elem":
            return T("elem", x.args[0], order.get(x.args[1], x.args[1]))
        if x.op == "index":
            return T("index", order.get(x.args[0], x.args[0]))
        if x.op == "iter":
            return T("iter", order.get(x.args[0], x.args[0]))
        if x.op in ("loopvar", "loopout"):
            a = list(x.args)
            a[1] = order.get(a[1], a[1])
            return T(x.op, *a)
        if x.op == "comp":
            loops = tuple((it, order.get(l, l)) for it, l in x.args[2])
            return T("comp", x.args[0], x.args[1], loops, x.args[3])
        return None
    return t.map(rw)


def _walk_ordered(t: T):
    """pre-order, left-to-right (deterministic)"""
    seen = set()
    out = []

    def rec(x):
        if isinstance(x, T):
            if id(x) in seen:
                return
            seen.add(id(x))
            out.append(x)
            for a in x.args:
                rec(a)
        elif isinstance(x, (tuple, list)):
            for a in x:
                rec(a)
    rec(t)
    return out


def strip_named(t: T) -> T:
    def rw(x: T):
        if x.op == "named":
            return x.args[1]
        return None
    return t.map(rw)


def fmt(t) -> str:
    return tm.show(t)[:400]


# ------------------------------------------------------------------ E-CMP
_FLIP = {"Lt": "Gt", "Gt": "Lt", "LtE": "GtE", "GtE": "LtE", "Eq": "Eq",
         "NotEq": "NotEq"}
_NEG = {"Lt": "GtE", "GtE": "Lt", "Gt": "LtE", "LtE": "Gt", "Eq": "NotEq",
        "NotEq": "Eq"}


def norm_cmp(atom: T, positive: bool = True):
    """normalise a comparison literal to (lhs, rel, rhs) with rel in
    {Lt, LtE, Eq, NotEq}; `not (a > b)` and `a <= b` and `b >= a` coincide"""
    if atom.op == "not":
        return norm_cmp(atom.args[0], not positive)
    if atom.op == "unop" and atom.args[0] in ("Invert", "Not"):
        # ~(a < b) on boolean arrays / not (a < b): the element-wise negation
        return norm_cmp(atom.args[1], not positive)
    if is_call_to(atom, "numpy.logical_not", "numpy.invert") and \
            len(atom.args[1]) == 1:
        return norm_cmp(atom.args[1][0], not positive)
    if atom.op != "cmp":
        return None
    op, l, r = atom.args
    if op not in _NEG:
        return None
    if not positive:
        op = _NEG[op]
    if op in ("Gt", "GtE"):
        op, l, r = _FLIP[op], r, l
    return (l, op, r)


def conj_literals(formula: T):
    """literals of a conjunction (formula assumed and-of-literals at top)"""
    if tm.is_const(formula):
        return []
    if formula.op == "and":
        out = []
        for a in formula.args:
            out.extend(conj_literals(a))
        return out
    return [formula]


def comparisons(formula: T):
    """all normalised comparison literals that must hold (top-level
    conjuncts only) for the formula to be true"""
    out = []
    for lit in conj_literals(formula):
        n = norm_cmp(lit)
        if n is not None:
            out.append(n)
    return out


# ------------------------------------------------- comprehension fusion
def fuse_elems(t: T) -> T:
    """elem(comp[f(elem(X)) for .. in X]) -> f(elem(X)) : iterating a list
    that was built element-wise is the element-wise composition.  Also looks
    through np.array(list) wrappers.  Only unconditional single-generator
    comprehensions are fused (conditions change the pairing)."""
    def rw(x: T):
        if x.op != "elem":
            return None
        src, lid = x.args
        while src.op == "call" and is_call_to(src, "numpy.array",
                                              "numpy.asarray",
                                              "builtins.list") and \
                len(src.args[1]) == 1:
            src = src.args[1][0]
        if src.op == "comp" and len(src.args[2]) == 1 and not src.args[3] \
                and src.args[0] in ("list", "gen"):
            it, inner = src.args[2][0]

            def ren(y: T):
                if y.op == "elem" and y.args[1] == inner:
                    return T("elem", y.args[0], lid)
                if y.op == "index" and y.args[0] == inner:
                    return T("index", lid)
                return None
            return src.args[1].map(ren)
        if src is not x.args[0]:
            return T("elem", src, lid)
        return None
    prev = None
    cur = t
    for _ in range(6):
        if cur is prev:
            break
        prev = cur
        cur = cur.map(rw)
    return cur


def extra_defaults(f, known: Iterable[str], prog=None
                   ) -> Optional[Dict[str, T]]:
    """constant defaults of the parameters a function has gained beyond the
    ones a rule knows: the property quantifies over the documented call
    forms, i.e. over the new optional parameters at their defaults.  None if
    a new parameter has no constant default (the call forms changed)."""
    import ast as _ast
    known = list(known)
    if f.params[:len(known)] != known:
        return None
    dflt = f.defaults()
    out = {}
    for p in f.params[len(known):] + list(f.kwonly):
        d = dflt.get(p)
        if isinstance(d, _ast.Constant):
            out[p] = const(d.value)
            continue
        if isinstance(d, _ast.UnaryOp) and isinstance(d.op, _ast.USub) and \
                isinstance(d.operand, _ast.Constant) and \
                isinstance(d.operand.value, (int, float)):
            out[p] = const(-d.operand.value)
            continue
        if d is None or prog is None:
            return None
        # an enum member / named constant as default
        from .interp import Interp, Frame
        v = Interp(prog).eval(d, Frame(None, f.module, {}, {}, None, 99),
                              tm.TRUE)
        while v.op == "named":
            v = v.args[1]
        if v.op not in ("const", "enum"):
            return None
        out[p] = v
    return out


def exact_text(t: T) -> T:
    """look through text conversions that are exact by construction:
      * `s if float(s) == v else <shortest round-trip repr of v>` with
        s = fmt % v  (the formatted text is used only when it parses back to
        the identical float; np.format_float_positional(v, unique=True) and
        repr(v) round-trip by definition)  ->  v
      * [x for x in X] / np.array([x for x in X], dtype=object)  ->  X
    so that rules about *which* values reach a writer see through them."""
    def shortest(a: T, v: T) -> bool:
        if is_call_to(a, "numpy.format_float_positional",
                      "numpy.format_float_scientific") and a.args[1] and \
                a.args[1][0] is v:
            kw = dict(a.args[2])
            return "precision" not in kw and len(a.args[1]) == 1 and \
                tm.is_const(kw.get("unique", const(True)), True)
        return is_call_to(a, "builtins.repr") and len(a.args[1]) == 1 and \
            a.args[1][0] is v

    def rw(x: T):
        if x.op == "ite":
            c, A, B = x.args
            for (neg, txt, alt) in ((False, B, A), (True, A, B)):
                # txt: the formatted text, used when the check passed
                if not (txt.op == "binop" and txt.args[0] == "Mod" and
                        tm.is_const(txt.args[1])):
                    continue
                v = txt.args[2]
                want = "Eq" if neg else "NotEq"
                conj = list(c.args) if c.op == ("or" if neg else "and") \
                    else [c]
                chk = [a for a in conj if a.op == "cmp" and
                       a.args[0] == want and any(
                           is_call_to(f, "builtins.float") and f.args[1] and
                           f.args[1][0] is txt and o is v
                           for f, o in ((a.args[1], a.args[2]),
                                        (a.args[2], a.args[1])))]
                rest = [a for a in conj if a not in chk]
                finite = all(
                    is_call_to(a.args[0] if a.op == "not" else a,
                               "numpy.isfinite", "math.isfinite")
                    for a in rest)
                if chk and finite and shortest(alt, v):
                    return v
        if x.op == "comp" and x.args[0] in ("list", "gen") and \
                len(x.args[2]) == 1 and not x.args[3]:
            it, lid = x.args[2][0]
            if x.args[1] is T("elem", it, lid):
                return it
        if is_call_to(x, "numpy.array", "numpy.asarray") and \
                len(x.args[1]) == 1 and dict(x.args[2]).get("dtype") is \
                tm.glob("builtins.object"):
            return x.args[1][0]
        return None
    prev = None
    for _ in range(4):
        if t is prev:
            break
        prev = t
        t = t.map(rw)
    return t


class _NoValue(Exception):
    pass


def const_eval(t: T, env: Optional[Dict[T, object]] = None):
    """python value of a term built from constants, the substituted leaves of
    `env`, string / integer operations, comparisons and conditionals; raises
    _NoValue where it cannot tell (used to evaluate small pure helpers —
    name mangling, prefix tests — on concrete option names)"""
    env = env or {}

    def ev(x: T):
        if x in env:
            return env[x]
        while x.op == "named":
            x = x.args[1]
        if tm.is_const(x):
            return tm.const_val(x)
        if x.op in ("tuple", "list"):
            return tuple(ev(a) for a in x.args)
        if x.op == "ite":
            return ev(x.args[1]) if ev(x.args[0]) else ev(x.args[2])
        if x.op == "not":
            return not ev(x.args[0])
        if x.op == "and":
            return all(ev(a) for a in x.args)
        if x.op == "or":
            return any(ev(a) for a in x.args)
        if x.op == "boolop":
            vals = [ev(a) for a in x.args[1]]
            r = vals[0]
            for v in vals[1:]:
                r = (r and v) if x.args[0] == "And" else (r or v)
            return r
        if x.op == "unop":
            v = ev(x.args[1])
            return {"Not": lambda: not v, "USub": lambda: -v,
                    "UAdd": lambda: +v}[x.args[0]]()
        if x.op == "cmp":
            a, b = ev(x.args[1]), ev(x.args[2])
            return {"Eq": lambda: a == b, "NotEq": lambda: a != b,
                    "Lt": lambda: a < b, "LtE": lambda: a <= b,
                    "Gt": lambda: a > b, "GtE": lambda: a >= b,
                    "In": lambda: a in b, "NotIn": lambda: a not in b,
                    "Is": lambda: a is b, "IsNot": lambda: a is not b,
                    }[x.args[0]]()
        if x.op == "binop" and x.args[0] in ("Add", "Sub", "Mult", "Div"):
            a, b = ev(x.args[1]), ev(x.args[2])
            return {"Add": lambda: a + b, "Sub": lambda: a - b,
                    "Mult": lambda: a * b, "Div": lambda: a / b
                    }[x.args[0]]()
        if x.op == "global" and x.args[0] in ("numpy.pi", "math.pi"):
            import math as _m
            return _m.pi
        if x.op == "sub":
            b = ev(x.args[0])
            i = x.args[1]
            if i.op == "slice":
                return b[slice(*[None if z is tm.NONE else ev(z)
                                 for z in i.args])]
            return b[ev(i)]
        if x.op == "fstr":
            return "".join(str(ev(a)) for a in x.args)
        if x.op == "call":
            n = tm.callee_name(x) or ""
            if n == "builtins.isinstance" and len(x.args[1]) == 2:
                ty = x.args[1][1]
                names = [t_.args[0] for t_ in (
                    ty.args if ty.op == "tuple" else (ty,))
                    if t_.op in ("global", "cls")]
                pyt = {"builtins.str": str, "builtins.bool": bool,
                       "builtins.int": int, "builtins.float": float,
                       "builtins.list": list, "builtins.tuple": tuple,
                       "builtins.dict": dict}
                if names and all(n_ in pyt for n_ in names):
                    return isinstance(ev(x.args[1][0]), tuple(pyt[n_]
                                                     for n_ in names))
            args = [ev(a) for a in x.args[1]]
            if n in ("numpy.deg2rad", "numpy.radians", "math.radians") and \
                    len(args) == 1:
                import math as _m
                return _m.radians(args[0])
            if n in ("numpy.rad2deg", "numpy.degrees", "math.degrees") and \
                    len(args) == 1:
                import math as _m
                return _m.degrees(args[0])
            if n in ("builtins.float",) and len(args) == 1:
                return float(args[0])
            if n in ("builtins.max", "builtins.min", "builtins.abs") and \
                    args and not x.args[2]:
                return {"builtins.max": max, "builtins.min": min,
                        "builtins.abs": abs}[n](*args)
            if n == "builtins.len":
                return len(args[0])

            if n in ("builtins.str", "builtins.int", "builtins.bool"):
                return {"builtins.str": str, "builtins.int": int,
                        "builtins.bool": bool}[n](*args)
            if n in (".startswith", ".endswith", ".lower", ".upper",
                     ".strip", ".lstrip", ".rstrip", ".replace",
                     ".removeprefix", ".removesuffix", ".isdigit",
                     ".isnumeric", ".isdecimal", ".count", ".find"):
                recv = ev(tm.method_recv(x))
                if isinstance(recv, str):
                    return getattr(recv, n[1:])(*args)
            if n in (".match", ".fullmatch", ".search") and len(args) == 1:
                # a precompiled constant pattern applied to a constant text:
                # None / a match object (only its None-ness is used)
                rc = tm.method_recv(x)
                while rc.op == "named":
                    rc = rc.args[1]
                if is_call_to(rc, "re.compile") and rc.args[1] and \
                        tm.is_const(rc.args[1][0]) and not rc.args[2] and \
                        len(rc.args[1]) == 1 and isinstance(args[0], str):
                    import re as _re
                    return getattr(_re.compile(tm.const_val(rc.args[1][0])),
                                   n[1:])(args[0])
            if n in ("re.match", "re.fullmatch", "re.search") and \
                    len(args) == 2 and all(isinstance(a, str) for a in args):
                import re as _re
                return getattr(_re, n[3:])(*args)
            if n == ".is_integer" and not args:
                recv = ev(tm.method_recv(x))
                if isinstance(recv, float):
                    return recv.is_integer()
        raise _NoValue(tm.show(x)[:60])
    try:
        return ev(t)
    except _NoValue:
        raise
    except Exception as e:        # type errors of the evaluated program
        raise _NoValue(str(e))


def split_comp_ite(t: T) -> T:
    """[f(x) for x in (A if c else B)]  ->  [f(x) for x in A] if c else
    [f(x) for x in B]: a comprehension over a conditionally replaced list is
    the conditional of the two comprehensions"""
    def rw(z: T):
        if z.op == "comp" and len(z.args[2]) == 1:
            it, lid = z.args[2][0]
            if it.op == "ite":
                c, a, b = it.args
                hole = T("elem", it, lid)

                def over(src):
                    el = T("elem", src, lid)
                    body = z.args[1].map(lambda y: el if y is hole else None)
                    conds = tuple(k.map(lambda y: el if y is hole else None)
                                  for k in z.args[3])
                    return T("comp", z.args[0], body, ((src, lid),), conds)
                return tm.ite(c, over(a), over(b))
        if is_call_to(z, *_WRAP) and len(z.args[1]) == 1 and \
                not z.args[2] and z.args[1][0].op == "ite":
            c, a, b = z.args[1][0].args
            return tm.ite(c, tm.call(z.args[0], (a,), ()),
                          tm.call(z.args[0], (b,), ()))
        return None
    prev = None
    for _ in range(4):
        if t is prev:
            break
        prev = t
        t = t.map(rw)
    return t


def index_comp(t: T) -> T:
    """np.array([f(x) for x in X])[k] is f(X[k]) (k an integer index)"""
    def rw(z: T):
        if z.op == "sub" and z.args[1].op not in ("slice", "tuple"):
            c = _as_comp(z.args[0])
            if c is not None:
                elt, lid, it = c
                hole = T("elem", it, lid)
                k = z.args[1]
                return elt.map(lambda y: tm.sub(it, k) if y is hole
                               else None)
        return None
    return t.map(rw)


def index_form(t: T) -> T:
    """loop elements of a leading slice written as subscripts: the k-th
    element of X[:m] (m a bound, no start / step) is X[k], so
    `for i, x in enumerate(X[:-1])` and `for i in range(n - 1): x = X[i]`
    give one term"""
    def rw(z: T):
        if z.op == "elem" and z.args[0].op == "sub":
            sl = z.args[0].args[1]
            if sl.op == "slice" and sl.args[0] is tm.NONE and \
                    sl.args[2] is tm.NONE:
                return tm.sub(z.args[0].args[0], T("index", z.args[1]))
        if z.op == "elem" and is_call_to(z.args[0], "builtins.range") and \
                len(z.args[0].args[1]) == 1:
            return T("index", z.args[1])
        return None
    return t.map(rw)


def _arrayish(t: T) -> bool:
    if t.op == "sub":
        return t.args[1].op == "slice" and _arrayish_base(t.args[0])
    if t.op == "binop":
        return _arrayish(t.args[1]) or _arrayish(t.args[2])
    if is_call_to(t, *_UFUNCS) and len(t.args[1]) == 1:
        return _arrayish(t.args[1][0])
    return _arrayish_base(t)


def _arrayish_base(t: T) -> bool:
    return t.op == "call" and not is_call_to(
        t, "builtins.int", "builtins.float", "builtins.len",
        "numpy.argmin", "numpy.argmax", "numpy.linalg.norm", "numpy.sum") \
        or t.op in ("comp", "list", "attr")


def push_index(t: T) -> T:
    """E[c] for an element-wise array expression E: the subscript is moved
    to the array operands — abs(A)[c] = abs(A[c]), (A - s)[c] = A[c] - s"""
    def rw(z: T):
        if z.op != "sub" or z.args[1].op in ("slice", "tuple"):
            return None
        e, c = z.args
        if is_call_to(e, *_UFUNCS) and len(e.args[1]) == 1 and \
                not e.args[2] and _arrayish(e.args[1][0]):
            return tm.call(e.args[0], (rw_full(tm.sub(e.args[1][0], c)),),
                           ())
        if e.op == "binop" and _arrayish(e):
            a, b = e.args[1], e.args[2]
            return T("binop", e.args[0],
                     rw_full(tm.sub(a, c)) if _arrayish(a) else a,
                     rw_full(tm.sub(b, c)) if _arrayish(b) else b)
        return None

    def rw_full(z: T) -> T:
        r = rw(z)
        return z if r is None else r
    prev = None
    for _ in range(6):
        if t is prev:
            break
        prev = t
        t = t.map(rw)
    return t


def strip_copies(t: T) -> T:
    """value-preserving wrappers removed: float(x), np.array(x) / np.asarray
    / np.copy(x) / x.copy() without further arguments"""
    def rw(z: T):
        if is_call_to(z, "builtins.float", "numpy.array", "numpy.asarray",
                      "numpy.copy", "numpy.float64") and \
                len(z.args[1]) == 1 and not z.args[2] and \
                z.args[1][0].op not in ("list", "tuple", "comp"):
            return z.args[1][0]
        if is_call_to(z, ".copy") and not z.args[1] and not z.args[2]:
            return tm.method_recv(z)
        return None
    return t.map(rw)


def strip_asarray(t: T) -> T:
    """np.asarray(a) / np.asarray(a, dtype=float) / np.asanyarray(a) hold the
    values of a: rules about *which* values are combined look through them"""
    def rw(z: T):
        if is_call_to(z, "numpy.asarray", "numpy.asanyarray",
                      "numpy.asfarray") and len(z.args[1]) == 1:
            kw = dict(z.args[2])
            dt = kw.get("dtype")
            if set(kw) <= {"dtype"} and (dt is None or dt is tm.glob(
                    "builtins.float") or (dt.op == "global" and dt.args[0] in
                                          ("numpy.float64", "numpy.double"))):
                return z.args[1][0]
        return None
    return t.map(rw)


def step_norms(nrm: T, x: T) -> Optional[bool]:
    """is `nrm` the array of consecutive step lengths |x_k - x_(k+1)| of the
    n x m point array x?  True / False; None if nrm is not a row-norm at all.
    Spellings: norm(x[:-1] - x[1:], axis=1) (either order) and
    norm(np.diff(x, axis=0), axis=1)."""
    nrm = strip_asarray(nrm)
    if not is_call_to(nrm, "numpy.linalg.norm") or not nrm.args[1]:
        return None
    S1 = T("slice", const(1), tm.NONE, tm.NONE)
    SM1 = T("slice", tm.NONE, const(-1), tm.NONE)
    ax = dict(nrm.args[2]).get("axis")
    d = nrm.args[1][0]
    consecutive = False
    if d.op == "binop" and d.args[0] == "Sub":
        consecutive = {d.args[1], d.args[2]} == {tm.sub(x, SM1),
                                                 tm.sub(x, S1)}
    elif is_call_to(d, "numpy.diff") and d.args[1] and d.args[1][0] is x:
        consecutive = tm.is_const(dict(d.args[2]).get("axis", const(-1)), 0) \
            and (len(d.args[1]) == 1 or tm.is_const(d.args[1][1], 1))
    return bool(consecutive and ax is not None and tm.is_const(ax) and
                ax.args[1] in (1, -1))


# ------------------------------------------------- de-vectorisation
# A vectorised numpy expression and the comprehension it replaces denote the
# same array.  `devectorise` rewrites the vectorised spellings evo-sized code
# uses into the canonical element-wise form the rules reason about:
#   a, b = (np.array(c) for c in zip(*P)); a   ->  array([p[0] for p in P])
#   X[I]            (I element-wise over P)    ->  array([X[i_p] for p in P])
#   A op B          (both element-wise over P) ->  array([a_p op b_p for ..])
#   norm(M, axis=1) (M element-wise / rows)    ->  array([norm(m) for m in M])
#   ufunc(A)        (abs, sqrt, ... )          ->  array([ufunc(a) for ..])
# Only shapes whose meaning is unambiguous are rewritten; everything else is
# left as it is (the consuming rule then reports an unknown idiom).
_FRESH = [10 ** 6]
_UFUNCS = ("numpy.abs", "numpy.absolute", "numpy.fabs", "numpy.sqrt",
           "numpy.square", "numpy.rad2deg", "numpy.degrees",
           "numpy.deg2rad", "numpy.radians", "numpy.negative")
_WRAP = ("numpy.array", "numpy.asarray", "builtins.list", "builtins.tuple")


_LIDS: Dict[int, tuple] = {}


def _fresh(it: T) -> int:
    """one loop id per iterable, so that equal arrays get equal terms"""
    got = _LIDS.get(id(it))
    if got is None:
        _FRESH[0] += 1
        got = _LIDS[id(it)] = (_FRESH[0], it)
    return got[0]


def _as_comp(t: T):
    """(element, lid, iterable) if t is an unconditional single-generator
    element-wise array"""
    src = t
    while is_call_to(src, *_WRAP) and len(src.args[1]) == 1:
        src = src.args[1][0]
    if src.op == "comp" and src.args[0] in ("list", "gen") and \
            len(src.args[2]) == 1 and not src.args[3]:
        it, lid = src.args[2][0]
        return src.args[1], lid, it
    return None


def _mk_array(elt: T, it: T, lid: int) -> T:
    return tm.call(tm.glob("numpy.array"),
                   (T("comp", "list", elt, ((it, lid),), ()),), ())


def _rename(elt: T, old: int, new: int) -> T:
    def ren(y: T):
        if y.op == "elem" and y.args[1] == old:
            return T("elem", y.args[0], new)
        if y.op == "index" and y.args[0] == old:
            return T("index", new)
        return None
    return elt.map(ren) if old != new else elt


def _is_scalar(t: T) -> bool:
    return tm.is_const(t) and isinstance(tm.const_val(t), (int, float))


def devectorise(t: T) -> T:
    def rw(x: T):
        # k-th item of a transposed pair list
        if x.op == "sub" and tm.is_const(x.args[1]) and \
                isinstance(tm.const_val(x.args[1]), int):
            k = tm.const_val(x.args[1])
            c = x.args[0]
            base = c
            while is_call_to(base, *_WRAP) and len(base.args[1]) == 1:
                base = base.args[1][0]
            if base.op == "comp" and len(base.args[2]) == 1 and \
                    not base.args[3]:
                it, lid = base.args[2][0]
                if is_call_to(it, "builtins.zip") and len(it.args[1]) == 1 \
                        and it.args[1][0].op == "star" and k >= 0:
                    P = it.args[1][0].args[0]
                    L = _fresh(P)
                    col = T("comp", "list",
                            tm.sub(T("elem", P, L), const(k)), ((P, L),), ())
                    hole = T("elem", it, lid)
                    return base.args[1].map(
                        lambda y: col if y is hole else None)
            # np.array(pairs, dtype=int).T[k]: column k of the pair list
            if c.op == "attr" and c.args[1] == "T" and k >= 0 and \
                    is_call_to(c.args[0], "numpy.array", "numpy.asarray") \
                    and len(c.args[0].args[1]) == 1 and all(
                        kw == "dtype" for kw, _ in c.args[0].args[2]):
                P = c.args[0].args[1][0]
                L = _fresh(P)
                return T("comp", "list", tm.sub(T("elem", P, L), const(k)),
                         ((P, L),), ())
            if is_call_to(base, "builtins.zip") and \
                    len(base.args[1]) == 1 and \
                    base.args[1][0].op == "star" and k >= 0:
                P = base.args[1][0].args[0]
                L = _fresh(P)
                return T("comp", "list", tm.sub(T("elem", P, L), const(k)),
                         ((P, L),), ())
        # map fusion: [f(y) for y in [g(x) for x in X]] = [f(g(x)) for x in X]
        if x.op == "comp" and len(x.args[2]) == 1 and \
                x.args[0] in ("list", "gen"):
            it, lid = x.args[2][0]
            inner = it
            while is_call_to(inner, "numpy.array", "numpy.asarray",
                             "builtins.list") and len(inner.args[1]) == 1 \
                    and not inner.args[2]:
                inner = inner.args[1][0]
            if inner.op == "comp" and inner.args[0] in ("list", "gen") and \
                    len(inner.args[2]) == 1 and not inner.args[3]:
                src, il = inner.args[2][0]
                hole = T("elem", it, lid)
                uses_index = any(y.op == "index" and y.args[0] == lid
                                 for z in (x.args[1],) + tuple(x.args[3])
                                 for y in z.walk())
                if not uses_index:
                    sub_ = lambda z: z.map(lambda y: inner.args[1]
                                           if y is hole else None)
                    return T("comp", x.args[0], sub_(x.args[1]),
                             ((src, il),), tuple(sub_(c) for c in x.args[3]))
        # fancy indexing with an element-wise index array
        if x.op == "sub":
            ci = _as_comp(x.args[1])
            if ci is not None and _as_comp(x.args[0]) is None:
                ie, lid, it = ci
                return _mk_array(tm.sub(x.args[0], ie), it, lid)
        if x.op == "binop":
            a, b = x.args[1], x.args[2]
            ca, cb = _as_comp(a), _as_comp(b)
            if ca and cb and ca[2] is cb[2]:
                return _mk_array(T("binop", x.args[0], ca[0],
                                   _rename(cb[0], cb[1], ca[1])),
                                 ca[2], ca[1])
            if ca and _is_scalar(b):
                return _mk_array(T("binop", x.args[0], ca[0], b), ca[2],
                                 ca[1])
            if cb and _is_scalar(a):
                return _mk_array(T("binop", x.args[0], a, cb[0]), cb[2],
                                 cb[1])
        if is_call_to(x, "numpy.linalg.norm") and len(x.args[1]) == 1:
            kw = dict(x.args[2])
            ax = kw.get("axis")
            if ax is not None and tm.is_const(ax) and \
                    tm.const_val(ax) in (1, -1) and len(kw) == 1:
                m = x.args[1][0]
                cm = _as_comp(m)
                nrm = tm.glob("numpy.linalg.norm")
                if cm:
                    return _mk_array(tm.call(nrm, (cm[0],), ()), cm[2],
                                     cm[1])
                L = _fresh(m)
                return _mk_array(tm.call(nrm, (T("elem", m, L),), ()), m, L)
        if is_call_to(x, *_UFUNCS) and len(x.args[1]) == 1 and \
                not x.args[2]:
            cm = _as_comp(x.args[1][0])
            if cm:
                return _mk_array(tm.call(x.args[0], (cm[0],), ()), cm[2],
                                 cm[1])
        return None
    return t.map(rw)


def per_element(t: T):
    """(element term, loop id, iterable) of an array built element-wise:
    np.array([f(x) for x in X]) -> (f(elem(X)), lid, X)"""
    t = devectorise(t)
    src = t
    while src.op == "call" and is_call_to(src, "numpy.array", "numpy.asarray",
                                          "builtins.list") and \
            len(src.args[1]) >= 1:
        src = src.args[1][0]
    if src.op == "comp" and len(src.args[2]) == 1 and src.args[0] in (
            "list", "gen"):
        it, lid = src.args[2][0]
        return fuse_elems(src.args[1]), lid, it, src.args[3]
    return None


def keyed_writes(res, base_pred=lambda b: True):
    """normalised stream of `container[key] = value` writes: item stores and
    `.update(...)` with a dict / pair comprehension or a dict literal.
    Yields (key, value, guard formula, event)."""
    out = []
    for e in res.events:
        if e.kind == "setitem" and base_pred(e.data["base"]):
            out.append((e.data["index"], e.data["value"], e.live, e))
        elif e.kind == "call" and e.data.get("mutates_recv") and \
                e.data.get("name") == ".update" and \
                e.data.get("recv") is not None and \
                base_pred(e.data["recv"]) and len(e.data["args"]) == 1:
            a = e.data["args"][0]
            while a.op == "named":
                a = a.args[1]
            if a.op == "comp" and a.args[1].op == "tuple" and \
                    len(a.args[1].args) == 2:
                k, v = a.args[1].args
                out.append((k, v, tm.mk_and(e.live, *a.args[3]), e))
            elif a.op == "dict":
                for k, v in a.args:
                    out.append((k, v, e.live, e))
            elif a.op == "comp" and len(a.args[2]) == 1 and \
                    a.args[1] is T("elem", a.args[2][0][0], a.args[2][0][1]) \
                    and is_call_to(a.args[2][0][0], ".items"):
                # update(item for item in d.items() if ...): the items
                # themselves are the (key, value) pairs
                el = a.args[1]
                out.append((tm.sub(el, const(0)), tm.sub(el, const(1)),
                            tm.mk_and(e.live, *a.args[3]), e))
            else:
                out.append((None, a, e.live, e))
        elif e.kind == "call" and e.data.get("name") == ".setdefault" and \
                e.data.get("recv") is not None and \
                base_pred(e.data["recv"]) and len(e.data["args"]) == 2:
            # d.setdefault(k, v): d[k] = v where k is absent
            k, v = e.data["args"]
            out.append((k, v, tm.mk_and(e.live, T("cmp", "NotIn", k,
                                                  root_object(
                                                      e.data["recv"]))), e))
    return out


def _known_functions():
    from .known_functions import KNOWN_FUNCTIONS
    return KNOWN_FUNCTIONS


def opaque(t, transparent=()) -> bool:
    """the value passes through something this analysis does not read: an
    unknown name / generator, a library iterator adaptor (itertools.starmap,
    compress, islice ...), a function object taken from a table, a call to a
    function or class of the program that was not looked through, a lookup
    in a table that does not fold.  A rule that fails on such a value has no
    evidence of a deviation.  `transparent`: anchor terms the rule knows (the
    id-pair list ...), read as leaves."""
    if not isinstance(t, T):
        return False
    skip = {id(y) for k in transparent if isinstance(k, T)
            for y in k.walk()}
    for x in t.walk():
        if id(x) in skip:
            continue
        if x.op == "unknown":
            return True
        if x.op == "call":
            n = tm.callee_name(x) or ""
            if n.startswith(("itertools.", "functools.", "operator.")):
                return True
            if x.args[0].op == "func" and n.startswith(
                    "evo.core.lie_algebra.") and n in _known_functions():
                continue     # the Lie-group helpers of the pinned tree: what
                #              they compute is known to the rules
            if x.args[0].op in ("func", "cls", "bound", "closure", "call",
                                "sub", "elem", "ite", "loopvar", "loopout"):
                return True
            if n in ("builtins.next", "builtins.iter", "builtins.getattr"):
                return True
        if x.op == "sub" and Interp_unname(x.args[0]).op == "dict":
            return True
    return False


def indirect_calls(r) -> list:
    """call events of a run whose callee is a value rather than a name (a
    function taken from a table / a parameter / a conditional, a
    functools.partial ...): what such a call does is not read here, so a
    rule that misses a call it expects has no evidence that it is absent"""
    out = []
    for e in r.of_kind("call"):
        fn = e.data.get("fn")
        n = e.data.get("name") or ""
        if n.startswith(("functools.", "itertools.", "operator.")):
            out.append(e)
        elif isinstance(fn, T) and e.data.get("target") is None and \
                Interp_unname(fn).op in ("sub", "elem", "ite", "loopvar",
                                         "loopout", "call", "param",
                                         "unknown"):
            out.append(e)
    return out


def Interp_unname(v):
    while isinstance(v, T) and v.op == "named":
        v = v.args[1]
    return v


def root_object(t: T) -> T:
    """the object a (loop-carried / mutated) container value started as"""
    for _ in range(12):
        if t.op == "loopvar":
            t = t.args[2]
        elif t.op == "loopout":
            t = t.args[2]
        elif t.op in ("mut", "upd"):
            t = t.args[0]
        else:
            break
    return t


# sample command line of the probe: distinct values, so that a crossing of
# the two thresholds shows (with 1 / 1 it would not)
PROBE_DIST, PROBE_ANGLE_DEG = 2.0, 3.0


def motion_filter_probe(prog, caller, call_pred, dist_cli: T, ang_cli: T):
    """What does the motion filter behind each selected call compare with?
    The caller is interpreted with the method and evo.core.filters looked
    through; for every call the thresholds that meet the accumulated
    distance and the rotation angle in a comparison are evaluated for
    (distance, angle) = (2.0, 3.0) given on the command line.  Whatever the
    signature in between (a degrees flag, a unit enum, a helper that converts
    once) the distance must arrive as 2.0 and the angle — typed in degrees —
    as 3 pi/180 rad.  Returns [(call event, distance value | None, angle value
    | None)]; None where no such comparison was found / evaluated."""
    from .interp import Interp

    def inline(fn):
        return fn.qualname.endswith((".motion_filter",)) or \
            fn.qualname == "evo.core.filters.filter_by_motion"
    r = Interp(prog, inline=inline, max_depth=4).run(caller)
    calls = [e for e in r.of_kind("call") if call_pred(e)]
    out = []
    env = {dist_cli: PROBE_DIST, ang_cli: PROBE_ANGLE_DEG}
    for k, ce in enumerate(calls):
        hi = min([x.idx for x in calls if x.idx > ce.idx] or
                 [len(r.events) + 1])
        dist_v = ang_v = None
        seen = set()
        for e in r.events:
            if not (ce.idx < e.idx < hi) or e.depth <= ce.depth:
                continue
            pool = list(tm.atoms(e.live))
            for key in ("value",):
                v = e.data.get(key)
                if isinstance(v, T):
                    pool += [a for x in v.walk() if x.op == "ite"
                             for a in tm.atoms(x.args[0])]
            for a in pool:
                while a.op == "not":
                    a = a.args[0]
                if id(a) in seen or a.op != "cmp":
                    continue
                seen.add(id(a))
                if a.args[0] not in ("Lt", "LtE", "Gt", "GtE"):
                    continue       # a threshold test is an order comparison
                for mine, other in ((a.args[1], a.args[2]),
                                    (a.args[2], a.args[1])):
                    is_ang = any(x.op == "call" and (
                        tm.callee_name(x) or "").endswith("so3_log_angle")
                        for x in mine.walk())
                    is_dist = any(x.op == "call" and (
                        tm.callee_name(x) or "").endswith(
                        "accumulated_distances") for x in mine.walk())
                    if not (is_ang or is_dist) or any(
                            x.op == "call" and (tm.callee_name(x) or "")
                            .endswith(("so3_log_angle",
                                       "accumulated_distances"))
                            for x in other.walk()):
                        continue
                    try:
                        val = float(const_eval(other, env))
                    except Exception:
                        continue
                    if is_ang:
                        ang_v = val
                    else:
                        dist_v = val
        out.append((ce, dist_v, ang_v))
    return out


# ------------------------------------------------- position algebra
def count_rel(x: T):
    """length of an index source relative to n = number of poses: 0 for n,
    -1 for n-1; None when unknown."""
    if x.op == "call" and tm.callee_name(x) == "builtins.len":
        return 0
    if x.op == "binop" and x.args[0] == "Sub" and \
            tm.is_const(x.args[2]) and isinstance(x.args[2].args[1], int):
        c = count_rel(x.args[1])
        return None if c is None else c - x.args[2].args[1]
    return None


def index_source(x: T):
    """(offset, count) of an index sequence 0+offset, 1+offset, ...: range(N),
    np.arange(0, N, 1) and their [1:] / [:-1] slices."""
    if x.op == "sub" and x.args[1].op == "slice":
        lo, hi, st = x.args[1].args
        inner = index_source(x.args[0])
        if inner is None or st is not tm.NONE:
            return None
        o, c = inner
        if c is None:
            return None
        if lo is not tm.NONE:
            if not (tm.is_const(lo) and isinstance(lo.args[1], int)
                    and lo.args[1] >= 0):
                return None
            o, c = o + lo.args[1], c - lo.args[1]
        if hi is not tm.NONE:
            if not (tm.is_const(hi) and isinstance(hi.args[1], int)
                    and hi.args[1] < 0):
                return None
            c = c + hi.args[1]
        return o, c
    if x.op == "call" and tm.callee_name(x) in (
            "builtins.list", "builtins.tuple", "numpy.array",
            "numpy.asarray") and len(x.args[1]) == 1:
        return index_source(x.args[1][0])
    if x.op == "call" and tm.callee_name(x) in ("builtins.range",
                                                "numpy.arange"):
        pos = list(x.args[1])
        if len(pos) == 1:
            return 0, count_rel(pos[0])
        if len(pos) in (2, 3) and tm.is_const(pos[0], 0) and \
                (len(pos) == 2 or tm.is_const(pos[2], 1)):
            return 0, count_rel(pos[1])
    return None


def index_position(i: T):
    """(loop id, offset, count) of an index term k+offset."""
    off = 0
    while i.op == "binop" and i.args[0] == "Add" and \
            tm.is_const(i.args[2]) and isinstance(i.args[2].args[1], int):
        off += i.args[2].args[1]
        i = i.args[1]
    if i.op == "index":
        # the counter of enumerate(...): position k of whatever is
        # enumerated; how many there are is the other operands' business
        return i.args[0], off, 0
    if i.op != "elem":
        return None
    src = index_source(i.args[0])
    if src is None:
        return None
    return i.args[1], off + src[0], src[1]


def seq_position(p: T):
    """p as element k+offset of some sequence: (loop id, offset, count
    relative to the sequence length, sequence)."""
    if p.op == "sub" and p.args[1].op != "slice":
        q = index_position(p.args[1])
        if q is None:
            return None
        return q[0], q[1], q[2], p.args[0]
    if p.op == "elem":
        seq, off, cnt = p.args[0], 0, 0
        while seq.op == "sub" and seq.args[1].op == "slice":
            lo, hi, st = seq.args[1].args
            if st is not tm.NONE:
                return None
            if lo is not tm.NONE:
                if not (tm.is_const(lo) and isinstance(lo.args[1], int)
                        and lo.args[1] >= 0):
                    return None
                off, cnt = off + lo.args[1], cnt - lo.args[1]
            if hi is not tm.NONE:
                if not (tm.is_const(hi) and isinstance(hi.args[1], int)
                        and hi.args[1] < 0):
                    return None
                cnt += hi.args[1]
            seq = seq.args[0]
        return p.args[1], off, cnt, seq
    return None




# ---------------------------------------------------------- argparse tables
STD_ACTIONS = ("store", "store_const", "store_true", "store_false", "append",
               "append_const", "count", "help", "version", "extend")
PLAIN_TYPES = ("int", "float", "str")


def parser_arguments(prog, module_pred=lambda name: name.endswith("_parser")):
    """every `<x>.add_argument(...)` of the command-line parser modules:
    (module name, ast.Call, option strings, {keyword: ast node})"""
    import ast
    out = []
    for name, m in sorted(prog.modules.items()):
        if not module_pred(name):
            continue
        for n in ast.walk(m.tree):
            if isinstance(n, ast.Call) and isinstance(n.func, ast.Attribute) \
                    and n.func.attr == "add_argument":
                opts = [a.value for a in n.args
                        if isinstance(a, ast.Constant) and
                        isinstance(a.value, str)]
                kws = {k.arg: k.value for k in n.keywords if k.arg}
                out.append((name, n, opts, kws))
    return out


def parse_time_transform(kws):
    """None if the argument's value reaches the namespace as typed (plain
    int/float/str conversion, standard action); else a description of the
    parse-time transformation"""
    import ast
    t = kws.get("type")
    if t is not None and not (isinstance(t, ast.Name) and
                              t.id in PLAIN_TYPES):
        return f"type={ast.unparse(t)}"
    a = kws.get("action")
    if a is not None and not (isinstance(a, ast.Constant) and
                              a.value in STD_ACTIONS):
        return f"action={ast.unparse(a)}"
    return None


# ------------------------------------------------- linear integer forms
def linear(t: T, depth: int = 0):
    """t as an integer-linear form {atom term or 1: coefficient}; atoms are
    the maximal non-arithmetic sub-terms (len(x), loop indices, ...). None
    if t is not linear (products of atoms, divisions, ...)."""
    from fractions import Fraction
    while t.op == "named":
        t = t.args[1]
    if tm.is_const(t) and isinstance(t.args[1], int) and \
            not isinstance(t.args[1], bool):
        return {1: t.args[1]} if t.args[1] else {}
    if t.op == "binop" and t.args[0] in ("Add", "Sub") and depth < 20:
        a, b = linear(t.args[1], depth + 1), linear(t.args[2], depth + 1)
        if a is None or b is None:
            return None
        out = dict(a)
        sgn = 1 if t.args[0] == "Add" else -1
        for k, v in b.items():
            out[k] = out.get(k, 0) + sgn * v
            if out[k] == 0:
                del out[k]
        return out
    if t.op == "binop" and t.args[0] == "Mult" and depth < 20:
        a, b = linear(t.args[1], depth + 1), linear(t.args[2], depth + 1)
        if a is None or b is None:
            return None
        for c, o in ((a, b), (b, a)):
            if set(c) <= {1}:
                k = c.get(1, 0)
                return {x: v * k for x, v in o.items() if v * k}
        return None
    if t.op == "unop" and t.args[0] == "USub":
        a = linear(t.args[1], depth + 1)
        return None if a is None else {k: -v for k, v in a.items()}
    return {t: 1}


def linear_cmp(atom: T, positive: bool = True):
    """integer comparison  l REL r  as a canonical `form <= 0` / `form == 0`
    / `form != 0`: returns (kind, frozenset(form items)) with kind in
    {"le", "eq", "ne"}; strict comparisons use integrality (a < b is
    a + 1 <= b). None if not linear."""
    if atom.op == "not":
        return linear_cmp(atom.args[0], not positive)
    if atom.op != "cmp":
        return None
    op, l, r = atom.args
    neg = {"Lt": "GtE", "GtE": "Lt", "Gt": "LtE", "LtE": "Gt", "Eq": "NotEq",
           "NotEq": "Eq"}
    if op not in neg:
        return None
    if not positive:
        op = neg[op]
    a, b = linear(l), linear(r)
    if a is None or b is None:
        return None

    def sub(x, y, c=0):
        out = dict(x)
        for k, v in y.items():
            out[k] = out.get(k, 0) - v
        out[1] = out.get(1, 0) + c
        return frozenset((k, v) for k, v in out.items() if v)
    if op == "LtE":
        return "le", sub(a, b)
    if op == "Lt":
        return "le", sub(a, b, 1)
    if op == "GtE":
        return "le", sub(b, a)
    if op == "Gt":
        return "le", sub(b, a, 1)
    if op == "Eq":
        f1, f2 = sub(a, b), sub(b, a)
        return "eq", min(f1, f2, key=lambda f: sorted(map(str, f)))
    f1, f2 = sub(a, b), sub(b, a)
    return "ne", min(f1, f2, key=lambda f: sorted(map(str, f)))


def lin_form(**coeffs):
    raise NotImplementedError


def same_linear(a: T, b_form: dict) -> bool:
    la = linear(a)
    return la is not None and la == {k: v for k, v in b_form.items() if v}


def implies(a: T, b: T, limit: int = 12, given=None) -> Optional[bool]:
    """does the path condition `a` imply `b`?  Decided by enumerating the
    truth values of the atoms of both (None beyond `limit` atoms); `given`
    fixes atoms whose value is known."""
    import itertools
    ats = []
    fixed = []
    for x in tm.atoms(a) + tm.atoms(b):
        g = given(x) if given is not None else None
        if g is not None:
            fixed.append((x, g))
        elif not any(x is y for y in ats):
            ats.append(x)
    if len(ats) > limit:
        return None
    for vals in itertools.product((True, False), repeat=len(ats)):
        def val(t, vals=vals):
            for x, v in zip(ats, vals):
                if t is x:
                    return v
            for x, v in fixed:
                if t is x:
                    return v
            return None
        if tm.fold(a, val) is True and tm.fold(b, val) is not True:
            return False
    return True


def cli_namespace(prog, module_name: str, given=()):
    """The argparse namespace of one parser module after parsing a command
    line that gives exactly the *flag* options `given` (store_true /
    store_false / store_const) and leaves every other optional argument out:
    {dest: value term, or None where the value comes from the command line
    (positionals) or from a default that is not a constant expression}.
    argparse semantics: the first action added for a dest sets its default;
    store_const without default= starts as None."""
    import ast
    from .interp import Interp, Frame
    mod = prog.modules[module_name]
    it = Interp(prog)
    ns = {}
    acts = {}
    calls = [(n, o, k) for m, n, o, k in parser_arguments(
        prog, lambda nm: nm == module_name)]
    calls.sort(key=lambda c: (c[0].lineno, c[0].col_offset))

    def ev(node):
        try:
            v = it.eval(node, Frame(None, mod, {}, {}, None, 99), tm.TRUE)
        except Exception:
            return None
        v = it._refold(it.unname(v))
        while v.op == "named":
            v = v.args[1]
        return v if v.op in ("const", "enum", "list", "tuple") else None
    for n, opts, kws in calls:
        d = kws.get("dest")
        longs = [o for o in opts if o.startswith("--")]
        if isinstance(d, ast.Constant):
            dest = d.value
        elif longs:
            dest = longs[0][2:].replace("-", "_")
        elif opts and not opts[0].startswith("-"):
            ns.setdefault(opts[0], None)           # positional
            continue
        else:
            continue
        act = kws.get("action")
        act = act.value if isinstance(act, ast.Constant) else (
            "store" if act is None else "?")
        dflt = kws.get("default")
        if dflt is not None:
            val = ev(dflt)
        elif act == "store_true":
            val = const(False)
        elif act == "store_false":
            val = const(True)
        else:
            val = tm.NONE
        if dest not in ns:
            ns[dest] = val
        for o in opts:
            acts[o] = (dest, act, kws)
    for g in given:
        if g not in acts:
            return None
        dest, act, kws = acts[g]
        if act == "store_true":
            ns[dest] = const(True)
        elif act == "store_false":
            ns[dest] = const(False)
        elif act == "store_const" and kws.get("const") is not None:
            ns[dest] = ev(kws["const"])
        else:
            return None
    return ns


def dict_priority(t: T, unname=lambda v: v, depth: int = 0
                  ) -> Optional[List[T]]:
    """A dict value as the list of its sources, highest priority first: for
    every key the value comes from the first source that has it.
      X.copy(), dict(X)                         -> sources of X
      R.update(A)                               -> A over R
      R.update({k: v for k, v in S.items() if k not in R})   (soft merge)
                                                -> R over S
      {**A, **B}, A | B                         -> B over A
    None where a conditional or loop-built value is met."""
    if depth > 12:
        return None
    t = unname(t)
    while t.op == "named":
        t = t.args[1]
    rec = lambda x: dict_priority(x, unname, depth + 1)
    if is_call_to(t, ".copy") and not t.args[1]:
        return rec(tm.method_recv(t))
    if is_call_to(t, "builtins.dict", "copy.copy", "copy.deepcopy") and \
            len(t.args[1]) == 1 and not t.args[2]:
        return rec(t.args[1][0])
    if t.op == "mut" and t.args[1] == "update" and len(t.args[2]) == 1:
        recv, a = t.args[0], unname(t.args[2][0])
        base = rec(recv)
        if base is None:
            return None
        if a.op == "comp" and a.args[0] == "dict" and len(a.args[2]) == 1:
            it, lid = a.args[2][0]
            el = a.args[1]
            if not (is_call_to(it, ".items") and el.op == "tuple" and
                    len(el.args) == 2):
                return None
            src = tm.method_recv(it)
            item = T("elem", it, lid)
            k_, v_ = tm.sub(item, const(0)), tm.sub(item, const(1))
            if el.args[0] is not k_ or el.args[1] is not v_:
                return None
            other = rec(src)
            if other is None:
                return None
            conds = a.args[3]
            if not conds:
                return other + base
            if len(conds) == 1 and conds[0].op == "cmp" and \
                    conds[0].args[0] == "NotIn" and conds[0].args[1] is k_ \
                    and root_object(unname(conds[0].args[2])) is \
                    root_object(unname(recv)):
                return base + other
            return None
        other = rec(a)
        return None if other is None else other + base
    if t.op == "binop" and t.args[0] == "BitOr":
        a, b = rec(t.args[1]), rec(t.args[2])
        return None if a is None or b is None else b + a
    if t.op == "dict" and t.args and all(
            isinstance(kv, tuple) and kv[0].op == "star" and
            tm.is_const(kv[0].args[0], "**") for kv in t.args):
        # {**A, **B}: B over A
        out = []
        for _, v in reversed(t.args):
            src = rec(v)
            if src is None:
                return None
            out += src
        return out
    if t.op in ("ite", "loopout", "loopvar", "upd"):
        return None
    return [t]


def push_elem(t: T) -> T:
    """element l of an array computed element-wise is the computation applied
    to element l: elem(X.tolist()) = elem(X), elem(X.astype(ty)) =
    ty(elem(X)), elem(np.floor(X)) = np.floor(elem(X)), elem(A op B) =
    elem(A) op elem(B) (a scalar stays itself), elem(np.divmod(A, c)[k]) =
    divmod(elem(A), c)[k].  Vectorised preparation of per-message values thus
    reads like the per-message code."""
    INT = ("numpy.int64", "numpy.int32", "builtins.int", "numpy.intp")
    FLT = ("numpy.float64", "builtins.float")

    def arrayish(x: T) -> bool:
        return not (tm.is_const(x) or x.op in ("param",) and False)

    def pe(x: T, lid) -> T:
        x0 = x
        while x0.op == "named":
            x0 = x0.args[1]
        if tm.is_const(x0) or x0.op == "param" and x0.args[0] in (
                "max_diff", "delta"):
            return x0
        e_ = T("elem", x, lid)
        r_ = rw(e_)
        return e_ if r_ is None else r_

    def rw(x: T):
        if x.op != "elem":
            return None
        a, lid = x.args
        if is_call_to(a, ".tolist") and not a.args[1]:
            return rw(T("elem", tm.method_recv(a), lid)) or \
                T("elem", tm.method_recv(a), lid)
        if is_call_to(a, ".astype") and len(a.args[1]) == 1:
            ty = a.args[1][0]
            inner = T("elem", tm.method_recv(a), lid)
            inner = rw(inner) or inner
            if ty.op == "global" and ty.args[0] in INT:
                return tm.call(tm.glob("builtins.int"), (inner,), ())
            if ty.op == "global" and ty.args[0] in FLT:
                return tm.call(tm.glob("builtins.float"), (inner,), ())
            return None
        if is_call_to(a, "numpy.floor", "numpy.ceil", "numpy.abs",
                      "numpy.rint", "numpy.trunc") and len(a.args[1]) == 1:
            inner = T("elem", a.args[1][0], lid)
            return tm.call(a.args[0], (rw(inner) or inner,), ())
        if a.op == "binop" and a.args[0] in ("Add", "Sub", "Mult", "Div",
                                             "FloorDiv", "Mod"):
            return T("binop", a.args[0], pe(a.args[1], lid),
                     pe(a.args[2], lid))
        if a.op == "sub" and tm.is_const(a.args[1]) and is_call_to(
                a.args[0], "numpy.divmod", "builtins.divmod") and \
                len(a.args[0].args[1]) == 2:
            num, den = a.args[0].args[1]
            return tm.sub(tm.call(tm.glob("builtins.divmod"),
                                  (pe(num, lid), pe(den, lid)), ()),
                          a.args[1])
        return None
    return t.map(rw)
