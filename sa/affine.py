"""E-AFF: entries of numpy constructions as affine forms over source entries.

Which combination of source entries ends up at position (i, j, ...) of an
array that is built by comprehensions, stacking, concatenation, repetition,
broadcast arithmetic, matrix-vector products, block stores and reshapes?  The
coordinate-frame markers of plot.draw_coordinate_axes can be written pose by
pose ([[p[:3, 3], p.dot(unit_x)[:3]] for p in poses]) or vectorised
(origins + scale * poses[:, :3, :3] ..., stacked, swapped, reshaped); both
are decided by evaluating the *entry* of the final array at a generic
position and comparing the forms.

Shapes.  A dimension is a tuple of *factors*, most significant first; a
factor is an int or the symbol "n" (the number of poses).  A dimension of
6n rows that came from concatenating three (n, 2, ...) blocks and flattening
is (3, "n", 2); an index into it is a tuple of digits, one per factor — an
int for an int factor, the symbol "p" (the generic pose) for "n".  Reshape
re-groups the flat factor list; it never splits a factor (otherwise
AffError: not understood).

Entries.  A *form* is a dict  key -> coefficient, key = ("src", name,
digits...) | ("one",) | ("sym", name);  a coefficient is a polynomial
{(symbol, ...): number} in the scalar symbols (marker_scale).  Products are
accepted where one factor is a pure scalar form.
"""
from __future__ import annotations

from typing import Dict, List, Optional, Tuple

from . import terms as tm
from .lib import is_call_to
from .terms import T

N = "n"
P = "p"


class AffError(Exception):
    pass


class AffShapeError(AffError):
    """the construction cannot run: numpy refuses the shapes (e.g. a 3 x 3
    block stored into a 4 x 3 selection) — positive evidence, not a gap of
    the algebra"""


# ------------------------------------------------------------- polynomials
# A form is a polynomial  {monomial: coefficient}; a monomial is a sorted
# tuple of atoms, an atom one of
#     ("src", name, digits...)   an entry of a source array
#     ("s", name)                a scalar symbol (marker_scale, 1/scale ...)
#     ("sym", name)              an opaque value (a colour, a string)
#     ("inv", key)               the reciprocal of a non-constant form
ONE = ()


def _mono(*atoms) -> tuple:
    return tuple(sorted(atoms, key=repr))


def p_const(v) -> dict:
    return {ONE: float(v)} if v else {}


def atom(a: tuple) -> dict:
    return {(a,): 1.0}


def f_add(a: dict, b: dict, sign=1.0) -> dict:
    out = dict(a)
    for k, v in b.items():
        n = out.get(k, 0.0) + sign * v
        if abs(n) < 1e-12:
            out.pop(k, None)
        else:
            out[k] = n
    return out


def mul(a: dict, b: dict) -> dict:
    out: dict = {}
    for ka, va in a.items():
        for kb, vb in b.items():
            k = _mono(*(ka + kb))
            # x * (1/x) cancels
            k = _cancel(k)
            n = out.get(k, 0.0) + va * vb
            if abs(n) < 1e-12:
                out.pop(k, None)
            else:
                out[k] = n
    if len(out) > 4000:
        raise AffError("polynomial too large")
    return out


def _cancel(k: tuple) -> tuple:
    ks = list(k)
    for x in list(ks):
        if x[0] == "inv" and len(x[1]) == 1 and x[1][0][1] == 1.0 and \
                len(x[1][0][0]) == 1 and x[1][0][0][0] in ks and x in ks:
            ks.remove(x)
            ks.remove(x[1][0][0][0])
    return tuple(ks)


def inverse(f: dict) -> dict:
    """1 / f: a number for a constant, otherwise an `inv` atom"""
    if set(f) == {ONE}:
        return {ONE: 1.0 / f[ONE]}
    if not f:
        raise AffError("division by zero")
    return atom(("inv", tuple(sorted(f.items(), key=repr))))


def f_scalar(f: dict) -> Optional[float]:
    """the number, if the form is a constant"""
    if not f:
        return 0.0
    if set(f) == {ONE}:
        return f[ONE]
    return None


def subst(f: dict, sym: tuple, value: float) -> dict:
    """the form with a scalar atom replaced by a number"""
    out: dict = {}
    for k, v in f.items():
        c = v
        ks = []
        for x in k:
            if x == sym:
                c *= value
            else:
                ks.append(x)
        out = f_add(out, {tuple(ks): c})
    return out


def show(f: dict) -> str:
    def at(x):
        if x[0] == "src":
            return f"{x[1]}[{', '.join(map(str, x[2:]))}]"
        if x[0] == "inv":
            return "1/(" + show(dict(x[1])) + ")"
        return str(x[1])
    parts = []
    for k, v in sorted(f.items(), key=lambda kv: repr(kv[0])):
        body = "*".join(at(x) for x in k)
        if not body:
            parts.append(f"{v:g}")
        elif v == 1:
            parts.append(body)
        elif v == -1:
            parts.append("-" + body)
        else:
            parts.append(f"{v:g}*{body}")
    return " + ".join(parts).replace("+ -", "- ") or "0"


# ------------------------------------------------------------------ shapes
def fsize(factors) -> Tuple[int, int]:
    c, k = 1, 0
    for f in factors:
        if f == N:
            k += 1
        else:
            c *= f
    return c, k


def _strip1(factors):
    out = tuple(f for f in factors if f != 1)
    return out


class Aff:
    def __init__(self, sources: Dict[T, Tuple[str, list]],
                 scalars: Dict[T, str], counts, symbols: Dict[T, str] = None,
                 unname=lambda t: t):
        self.sources = dict(sources)
        self.scalars = dict(scalars)
        self.counts = list(counts)
        self.symbols = dict(symbols or {})
        self.unname = unname
        self.bind: Dict[int, tuple] = {}

    # ---------------------------------------------------------- sizes
    def size(self, t: T) -> Tuple[int, int]:
        t = self.unname(t)
        if tm.is_const(t) and type(tm.const_val(t)) is int:
            return tm.const_val(t), 0
        if any(t is c for c in self.counts):
            return 1, 1
        if t.op == "binop" and t.args[0] == "Mult":
            a, b = self.size(t.args[1]), self.size(t.args[2])
            return a[0] * b[0], a[1] + b[1]
        if is_call_to(t, "builtins.len") and t.args[1]:
            d = self.dims(t.args[1][0])
            return fsize(d[0])
        if t.op == "sub" and tm.is_const(t.args[1]) and \
                t.args[0].op == "attr" and t.args[0].args[1] == "shape":
            d = self.dims(t.args[0].args[0])
            return fsize(d[tm.const_val(t.args[1])])
        raise AffError(f"size {tm.show(t)[:50]}")

    def _factors_of(self, t: T) -> tuple:
        c, k = self.size(t)
        return _strip1(((c,) if c != 1 or k == 0 else ()) + (N,) * k) \
            if not (c == 1 and k == 0) else (1,)

    # ----------------------------------------------------------- dims
    def dims(self, t: T) -> List[tuple]:
        t = self.unname(t)
        if t in self.sources:
            return [tuple(d) for d in self.sources[t][1]]
        if t in self.scalars or t in self.symbols or tm.is_const(t):
            return []
        if t.op in ("list", "tuple"):
            if not t.args:
                return [(0,)]
            return [(len(t.args),)] + self.dims(t.args[0])
        if t.op == "elem":
            return self.dims(t.args[0])[1:]
        if t.op == "comp" and t.args[0] in ("list", "gen") and \
                len(t.args[2]) == 1 and not t.args[3]:
            it, lid = t.args[2][0]
            d0 = self.dims(it)[0]
            self.bind[lid] = tuple(P if f == N else 0 for f in d0)
            try:
                return [d0] + self.dims(t.args[1])
            finally:
                self.bind.pop(lid, None)
        if t.op == "call":
            return self._call_dims(t)
        if t.op == "attr" and t.args[1] == "T":
            return list(reversed(self.dims(t.args[0])))
        if t.op == "upd":
            return self.dims(t.args[0])
        if t.op == "sub":
            base = self.dims(t.args[0])
            out = []
            for kind, d, _ in self._selectors(t.args[1], base):
                if kind == "int":
                    continue
                out.append(d)
            return out
        if t.op == "binop":
            op, a, b = t.args
            ta, tb = self.unname(a), self.unname(b)
            if op == "Mult" and ta.op in ("list", "tuple") and \
                    self._is_size(tb):
                return [_strip1(self._factors_of(tb) + (len(ta.args),)) or
                        (1,)] + self.dims(ta.args[0])
            if op == "Mult" and tb.op in ("list", "tuple") and \
                    self._is_size(ta):
                return [_strip1(self._factors_of(ta) + (len(tb.args),)) or
                        (1,)] + self.dims(tb.args[0])
            if op == "Add" and self._listy(ta) and self._listy(tb):
                return self._cat_dims(self._add_parts(t), 0)
            if op == "MatMult":
                da, db = self.dims(a), self.dims(b)
                if len(db) == 1:
                    return da[:-1]
                if len(db) == 2:
                    return da[:-1] + [db[1]]
                raise AffError("matmul rank")
            return self._bcast(self.dims(a), self.dims(b))
        if t.op == "unop":
            return self.dims(t.args[1])
        raise AffError(f"shape of {tm.show(t)[:60]}")

    def _listy(self, t: T) -> bool:
        t = self.unname(t)
        if t.op in ("list", "tuple"):
            return True
        if t.op == "binop" and t.args[0] == "Mult":
            return any(self.unname(x).op in ("list", "tuple")
                       for x in t.args[1:])
        if t.op == "binop" and t.args[0] == "Add":
            return self._listy(t.args[1]) and self._listy(t.args[2])
        return False

    def _add_parts(self, t: T) -> list:
        """a + b + c of lists: the concatenated parts, in order"""
        t = self.unname(t)
        if t.op == "binop" and t.args[0] == "Add" and \
                self._listy(t.args[1]) and self._listy(t.args[2]):
            return self._add_parts(t.args[1]) + self._add_parts(t.args[2])
        return [t]

    def _is_size(self, t: T) -> bool:
        try:
            self.size(t)
            return True
        except AffError:
            return False

    @staticmethod
    def _bcast(a: list, b: list) -> list:
        out = []
        for k in range(1, max(len(a), len(b)) + 1):
            da = a[-k] if k <= len(a) else (1,)
            db = b[-k] if k <= len(b) else (1,)
            if fsize(da) == (1, 0):
                out.append(db)
            elif fsize(db) == (1, 0) or da == db:
                out.append(da)
            elif fsize(da) == fsize(db) and _strip1(da) == _strip1(db):
                out.append(da)
            else:
                raise AffError(f"broadcast {da} with {db}")
        return list(reversed(out))

    def _axis(self, t: T, rank: int, default=0) -> int:
        v = dict(t.args[2]).get("axis")
        if v is None:
            return default
        v = self.unname(v)
        if not (tm.is_const(v) and type(tm.const_val(v)) is int):
            raise AffError("axis")
        a = tm.const_val(v)
        return a + rank if a < 0 else a

    def _seq_arg(self, t: T) -> list:
        s = self.unname(t.args[1][0]) if t.args[1] else None
        if s is None or s.op not in ("tuple", "list"):
            raise AffError("sequence argument")
        return list(s.args)

    def _cat_dims(self, parts: list, ax: int) -> list:
        ds = [self.dims(p) for p in parts]
        rank = len(ds[0])
        if any(len(d) != rank for d in ds):
            raise AffError("concatenate ranks")
        for k in range(rank):
            if k != ax and len({fsize(d[k]) for d in ds}) != 1:
                raise AffError("concatenate shapes")
        if len({d[ax] for d in ds}) == 1:
            new = _strip1((len(parts),) + ds[0][ax]) or (1,)
        else:
            tot = 0
            for d in ds:
                c, k = fsize(d[ax])
                if k:
                    raise AffError("concatenate of unequal symbolic sizes")
                tot += c
            new = (tot,)
        return ds[0][:ax] + [new] + ds[0][ax + 1:]

    def _shape_arg(self, a: T) -> List[tuple]:
        a = self.unname(a)
        items = a.args if a.op in ("tuple", "list") else (a,)
        return [self._factors_of(x) for x in items]

    def _call_dims(self, t: T) -> List[tuple]:
        n = tm.callee_name(t) or ""
        recv = tm.method_recv(t) if t.args[0].op == "attr" else None
        if n in ("numpy.array", "numpy.asarray", "numpy.copy",
                 "builtins.list", "numpy.asanyarray", "builtins.tuple",
                 "numpy.ascontiguousarray") and t.args[1]:
            return self.dims(t.args[1][0])
        if n in (".copy", ".astype", ".tolist") and recv is not None:
            return self.dims(recv)
        if n in ("builtins.float", "numpy.float64") and len(t.args[1]) == 1:
            return self.dims(t.args[1][0])
        if n in ("numpy.zeros", "numpy.ones", "numpy.empty") and t.args[1]:
            return self._shape_arg(t.args[1][0])
        if n in ("numpy.zeros_like", "numpy.empty_like") and t.args[1]:
            return self.dims(t.args[1][0])
        if n in ("numpy.eye", "numpy.identity") and t.args[1]:
            f = self._factors_of(t.args[1][0])
            return [f, f]
        if n in (".reshape", "numpy.reshape"):
            src, target = self._reshape_parts(t)
            return self._regroup(self.dims(src), target)[0]
        if n in ("numpy.stack",):
            parts = self._seq_arg(t)
            d = self.dims(parts[0])
            ax = self._axis(t, len(d) + 1)
            return d[:ax] + [(len(parts),)] + d[ax:]
        if n in ("numpy.concatenate", "numpy.vstack", "numpy.hstack"):
            parts = self._seq_arg(t)
            d = self.dims(parts[0])
            ax = self._axis(t, len(d)) if n == "numpy.concatenate" else (
                0 if n == "numpy.vstack" or len(d) == 1 else 1)
            return self._cat_dims(parts, ax)
        if n in ("numpy.repeat", ".repeat"):
            x, reps = self._repeat_parts(t, recv)
            d = self.dims(x)
            ax = self._axis(t, len(d), None)
            if ax is None:
                raise AffError("repeat without axis")
            return d[:ax] + [_strip1(d[ax] + self._factors_of(reps)) or
                             (1,)] + d[ax + 1:]
        if n == "numpy.tile" and len(t.args[1]) == 2:
            d = self.dims(t.args[1][0])
            reps = self._shape_arg(t.args[1][1])
            while len(reps) < len(d):
                reps.insert(0, (1,))
            while len(d) < len(reps):
                d.insert(0, (1,))
            return [_strip1(r + x) or (1,) for r, x in zip(reps, d)]
        if n in (".swapaxes", "numpy.swapaxes"):
            x, a, b = self._swap_parts(t, recv)
            d = self.dims(x)
            d[a], d[b] = d[b], d[a]
            return d
        if n in (".transpose", "numpy.transpose"):
            x, perm = self._perm_parts(t, recv)
            d = self.dims(x)
            perm = perm or list(reversed(range(len(d))))
            return [d[k] for k in perm]
        if n in (".dot", "numpy.dot", "numpy.matmul"):
            a, b = self._dot_parts(t, recv)
            da, db = self.dims(a), self.dims(b)
            if len(db) == 1:
                return da[:-1]
            if len(db) == 2:
                return da[:-1] + [db[1]]
        if n in ("numpy.add", "numpy.subtract", "numpy.multiply",
                 "numpy.divide") and len(t.args[1]) == 2:
            return self._bcast(self.dims(t.args[1][0]),
                               self.dims(t.args[1][1]))
        raise AffError(f"shape of {tm.show(t)[:60]}")

    def _repeat_parts(self, t, recv):
        if tm.callee_name(t) == ".repeat":
            return recv, t.args[1][0]
        return t.args[1][0], t.args[1][1]

    def _swap_parts(self, t, recv):
        a = list(t.args[1])
        x = recv if tm.callee_name(t) == ".swapaxes" else a.pop(0)
        v = [self.unname(z) for z in a]
        if len(v) != 2 or not all(tm.is_const(z) for z in v):
            raise AffError("swapaxes")
        r = len(self.dims(x))
        i, j = (tm.const_val(z) for z in v)
        return x, i % r, j % r

    def _perm_parts(self, t, recv):
        a = list(t.args[1])
        x = recv if tm.callee_name(t) == ".transpose" else a.pop(0)
        if len(a) == 1 and self.unname(a[0]).op in ("tuple", "list"):
            a = list(self.unname(a[0]).args)
        ax = dict(t.args[2]).get("axes")
        if ax is not None:
            a = list(self.unname(ax).args)
        v = [self.unname(z) for z in a]
        if not all(tm.is_const(z) for z in v):
            raise AffError("transpose")
        return x, [tm.const_val(z) for z in v]

    def _dot_parts(self, t, recv):
        if tm.callee_name(t) == ".dot":
            return recv, t.args[1][0]
        return t.args[1][0], t.args[1][1]

    def _reshape_parts(self, t):
        if tm.callee_name(t) == ".reshape":
            src = tm.method_recv(t)
            a = list(t.args[1])
        else:
            src, a = t.args[1][0], list(t.args[1][1:])
        if len(a) == 1 and self.unname(a[0]).op in ("tuple", "list"):
            a = list(self.unname(a[0]).args)
        target = []
        for x in a:
            xu = self.unname(x)
            if (tm.is_const(xu) and tm.const_val(xu) == -1) or (
                    xu.op == "unop" and xu.args[0] == "USub" and
                    tm.is_const(xu.args[1], 1)):
                target.append(None)
            else:
                target.append(self.size(x))
        return src, target

    @staticmethod
    def _regroup(src_dims: list, target: list):
        """(new dims, for each new dim the index range into the flat factor
        list)"""
        flat = [f for d in src_dims for f in d if f != 1]
        total = fsize(flat)
        if target.count(None) > 1:
            raise AffError("reshape with two free dimensions")
        if None in target:
            kc, kk = 1, 0
            for s in target:
                if s is not None:
                    kc, kk = kc * s[0], kk + s[1]
            if kc == 0 or total[0] % kc or total[1] < kk:
                raise AffError("reshape size")
            target = [s if s is not None else (total[0] // kc,
                                               total[1] - kk)
                      for s in target]
        out, pos = [], 0
        for s in target:
            got = []
            while fsize(got) != s:
                if pos >= len(flat):
                    raise AffError("reshape splits a factor")
                got.append(flat[pos])
                pos += 1
                c, k = fsize(got)
                if k > s[1] or (s[0] % c if c else True):
                    raise AffError("reshape splits a factor")
            out.append(tuple(got) or (1,))
        if pos != len(flat):
            raise AffError("reshape size")
        return out, flat

    # ------------------------------------------------------ selectors
    def _selectors(self, idx: T, base: list):
        """per entry of the index: (kind, result dim, digit map)"""
        idx = self.unname(idx)
        items = list(idx.args) if idx.op == "tuple" else [idx]
        out = []
        k = 0
        for it in items:
            iu = self.unname(it)
            if (iu.op == "global" and iu.args[0] == "numpy.newaxis") or \
                    iu is tm.NONE:
                out.append(("new", (1,), None))
                continue
            if k >= len(base):
                raise AffError("too many indices")
            d = base[k]
            k += 1
            if iu.op in ("list", "tuple") and iu.args and all(
                    tm.is_const(self.unname(z)) and
                    type(tm.const_val(self.unname(z))) is int
                    for z in iu.args):
                # x[:, [0, 2]]: the listed positions of this dimension
                if len(d) != 1 or d[0] == N:
                    raise AffError("index list on a composite dimension")
                take = [tm.const_val(self.unname(z)) for z in iu.args]
                take = [v + d[0] if v < 0 else v for v in take]
                out.append(("take", (len(take),), take))
                continue
            if iu.op == "slice":
                lo, hi, st = (None if z is tm.NONE else self._int(z)
                              for z in iu.args)
                if st not in (None, 1):
                    raise AffError("strided slice")
                if lo in (None, 0) and hi is None:
                    out.append(("all", d, None))
                    continue
                if len(d) != 1 or d[0] == N:
                    raise AffError("partial slice of a composite dimension")
                size = d[0]
                lo = 0 if lo is None else (lo + size if lo < 0 else lo)
                hi = size if hi is None else (hi + size if hi < 0 else hi)
                hi = min(hi, size)
                out.append(("slice", (max(0, hi - lo),), lo))
            else:
                v = self._int(iu)
                if len(d) != 1 or d[0] == N:
                    raise AffError("integer index of a composite dimension")
                if not -d[0] <= v < d[0]:
                    raise AffShapeError(
                        f"index {v} is out of bounds for a dimension of "
                        f"size {d[0]}")
                out.append(("int", None, v + d[0] if v < 0 else v))
        while k < len(base):
            out.append(("all", base[k], None))
            k += 1
        return out

    def _int(self, t: T) -> int:
        t = self.unname(t)
        if tm.is_const(t) and type(tm.const_val(t)) is int:
            return tm.const_val(t)
        if t.op == "unop" and t.args[0] == "USub":
            return -self._int(t.args[1])
        raise AffError(f"index {tm.show(t)[:40]}")

    # -------------------------------------------------------- entries
    def entry(self, t: T, idx: list) -> dict:
        t = self.unname(t)
        if t in self.sources:
            name, d = self.sources[t]
            if len(idx) != len(d):
                raise AffError("rank")
            return atom(("src", name) + tuple(x for dg in idx for x in dg))
        if t in self.scalars:
            return atom(("s", self.scalars[t]))
        if t in self.symbols:
            return atom(("sym", self.symbols[t]))
        if tm.is_const(t):
            v = tm.const_val(t)
            if isinstance(v, bool) or not isinstance(v, (int, float)):
                return atom(("sym", repr(v)))
            return p_const(v)
        if t.op in ("list", "tuple"):
            if not idx:
                raise AffError("rank")
            return self.entry(t.args[idx[0][0]], idx[1:])
        if t.op == "elem":
            if t.args[1] not in self.bind:
                raise AffError("unbound loop element")
            return self.entry(t.args[0], [self.bind[t.args[1]]] + idx)
        if t.op == "comp" and t.args[0] in ("list", "gen") and \
                len(t.args[2]) == 1 and not t.args[3]:
            it, lid = t.args[2][0]
            old = self.bind.get(lid)
            self.bind[lid] = idx[0]
            try:
                return self.entry(t.args[1], idx[1:])
            finally:
                if old is None:
                    self.bind.pop(lid, None)
                else:
                    self.bind[lid] = old
        if t.op == "attr" and t.args[1] == "T":
            return self.entry(t.args[0], list(reversed(idx)))
        if t.op == "unop" and t.args[0] == "USub":
            return f_add({}, self.entry(t.args[1], idx), -1.0)
        if t.op == "unop" and t.args[0] == "UAdd":
            return self.entry(t.args[1], idx)
        if t.op == "sub":
            base = self.dims(t.args[0])
            full, it = [], iter(idx)
            for kind, d, off in self._selectors(t.args[1], base):
                if kind == "int":
                    full.append((off,))
                elif kind == "new":
                    next(it)
                elif kind == "all":
                    full.append(next(it))
                elif kind == "take":
                    dg = next(it)
                    full.append((off[dg[0]],))
                else:
                    dg = next(it)
                    full.append((dg[0] + off,))
            return self.entry(t.args[0], full)
        if t.op == "upd":
            base, where, val = t.args
            bd = self.dims(base)
            inner, hit = [], True
            for (kind, d, off), dg in zip(self._selectors(where, bd), idx):
                if kind == "int":
                    if dg != (off,):
                        hit = False
                        break
                elif kind == "all":
                    inner.append(dg)
                elif kind == "slice":
                    if not (off <= dg[0] < off + d[0]):
                        hit = False
                        break
                    inner.append((dg[0] - off,))
                else:
                    raise AffError("store through newaxis")
            vd = self.dims(val)
            sel = [d for (kind, d, off) in self._selectors(where, bd)
                   if kind != "int"]
            if len(vd) > len(sel) or any(
                    fsize(a) != fsize(b) and fsize(a) != (1, 0)
                    for a, b in zip(reversed(vd), reversed(sel))):
                raise AffShapeError(
                    f"a value of shape {vd} is stored into a selection of "
                    f"shape {sel} ({tm.show(where)[:30]}): numpy raises "
                    f"'could not broadcast'")
            if not hit:
                return self.entry(base, idx)
            return self.entry(val, self._align(inner, vd))
        if t.op == "binop":
            return self._binop_entry(t, idx)
        if t.op == "call":
            return self._call_entry(t, idx)
        raise AffError(f"entry of {tm.show(t)[:60]}")

    @staticmethod
    def _align(idx: list, dims: list) -> list:
        """numpy broadcasting: trailing alignment, size-1 dims get digit 0"""
        idx = idx[len(idx) - len(dims):] if len(dims) <= len(idx) else idx
        out = []
        for dg, d in zip(idx[-len(dims):] if dims else [], dims):
            if fsize(d) == (1, 0):
                out.append(tuple(0 for _ in d))
            elif len(dg) != len(d):
                # same size, factors with / without unit factors
                it = iter(dg)
                out.append(tuple(0 if f == 1 else next(it) for f in d))
            else:
                out.append(dg)
        return out

    def _binop_entry(self, t: T, idx: list) -> dict:
        op, a, b = t.args
        ta, tb = self.unname(a), self.unname(b)
        if op == "Mult" and (ta.op in ("list", "tuple") and
                             self._is_size(tb) or
                             tb.op in ("list", "tuple") and
                             self._is_size(ta)):
            lst = ta if ta.op in ("list", "tuple") else tb
            dg = idx[0]
            k = dg[-1] if len(lst.args) > 1 else 0
            return self.entry(lst.args[k], idx[1:])
        if op == "Add" and self._listy(ta) and self._listy(tb):
            return self._cat_entry(self._add_parts(t), 0, idx)
        if op == "MatMult":
            return self._dot_entry(a, b, idx)
        da, db = self.dims(a), self.dims(b)
        ea = self.entry(a, self._align(idx, da))
        eb = self.entry(b, self._align(idx, db))
        if op == "Add":
            return f_add(ea, eb)
        if op == "Sub":
            return f_add(ea, eb, -1.0)
        if op == "Mult":
            return mul(ea, eb)
        if op == "Div":
            return mul(ea, inverse(eb))
        if op == "Pow" and f_scalar(eb) in (2.0, 3.0):
            out = ea
            for _ in range(int(f_scalar(eb)) - 1):
                out = mul(out, ea)
            return out
        if op == "MatMult":
            return self._dot_entry(a, b, idx)
        raise AffError(f"operator {op}")

    def _cat_entry(self, parts: list, ax: int, idx: list) -> dict:
        ds = [self.dims(p) for p in parts]
        dg = idx[ax]
        if len({d[ax] for d in ds}) == 1:
            own = ds[0][ax]
            n_own = len([f for f in own if f != 1]) if _strip1(own) else 0
            if len(parts) == 1:
                return self.entry(parts[0], idx)
            which = dg[0]
            rest = tuple(dg[1:])
            rest = self._refit(rest, own)
            return self.entry(parts[which], idx[:ax] + [rest] + idx[ax + 1:])
        pos = dg[0]
        for p, d in zip(parts, ds):
            size = fsize(d[ax])[0]
            if pos < size:
                return self.entry(p, idx[:ax] + [(pos,)] + idx[ax + 1:])
            pos -= size
        raise AffError("concatenate index")

    @staticmethod
    def _refit(digits: tuple, factors: tuple) -> tuple:
        it = iter(digits)
        out = []
        for f in factors:
            out.append(0 if f == 1 else next(it, 0))
        return tuple(out)

    def _dot_entry(self, a: T, b: T, idx: list) -> dict:
        da, db = self.dims(a), self.dims(b)
        k = da[-1]
        if len(k) != 1 or k[0] == N:
            raise AffError("contraction over a symbolic dimension")
        if db and fsize(db[0]) != fsize(k):
            raise AffShapeError(
                f"matrix product of shapes {da} and {db}: the contracted "
                f"dimensions differ, numpy raises 'shapes not aligned'")
        out: dict = {}
        for j in range(k[0]):
            if len(db) == 1:
                ea = self.entry(a, idx + [(j,)])
                eb = self.entry(b, [(j,)])
            elif len(db) == 2:
                ea = self.entry(a, idx[:-1] + [(j,)])
                eb = self.entry(b, [(j,), idx[-1]])
            else:
                raise AffError("dot rank")
            out = f_add(out, mul(ea, eb))
        return out

    def _call_entry(self, t: T, idx: list) -> dict:
        n = tm.callee_name(t) or ""
        recv = tm.method_recv(t) if t.args[0].op == "attr" else None
        if n in ("numpy.array", "numpy.asarray", "numpy.copy",
                 "builtins.list", "numpy.asanyarray", "builtins.tuple",
                 "numpy.ascontiguousarray") and t.args[1]:
            return self.entry(t.args[1][0], idx)
        if n in (".copy", ".astype", ".tolist") and recv is not None:
            return self.entry(recv, idx)
        if n in ("builtins.float", "numpy.float64") and len(t.args[1]) == 1:
            return self.entry(t.args[1][0], idx)
        if n in ("numpy.zeros", "numpy.zeros_like"):
            return {}
        if n == "numpy.ones":
            return p_const(1)
        if n in ("numpy.empty", "numpy.empty_like"):
            return atom(("sym", "uninitialised"))
        if n in ("numpy.eye", "numpy.identity"):
            return p_const(1) if idx[-1] == idx[-2] else {}
        if n in (".reshape", "numpy.reshape"):
            src, target = self._reshape_parts(t)
            sd = self.dims(src)
            flat_digits = [x for dg, d in zip(idx, self.dims(t))
                           for x, f in zip(dg, d) if f != 1]
            out, it = [], iter(flat_digits)
            for d in sd:
                out.append(tuple(0 if f == 1 else next(it) for f in d))
            return self.entry(src, out)
        if n == "numpy.stack":
            parts = self._seq_arg(t)
            ax = self._axis(t, len(self.dims(parts[0])) + 1)
            return self.entry(parts[idx[ax][0]], idx[:ax] + idx[ax + 1:])
        if n in ("numpy.concatenate", "numpy.vstack", "numpy.hstack"):
            parts = self._seq_arg(t)
            d = self.dims(parts[0])
            ax = self._axis(t, len(d)) if n == "numpy.concatenate" else (
                0 if n == "numpy.vstack" or len(d) == 1 else 1)
            return self._cat_entry(parts, ax, idx)
        if n in ("numpy.repeat", ".repeat"):
            x, reps = self._repeat_parts(t, recv)
            d = self.dims(x)
            ax = self._axis(t, len(d), None)
            own = d[ax]
            dg = idx[ax]
            n_own = len([f for f in own if f != 1])
            return self.entry(x, idx[:ax] + [self._refit(dg[:n_own], own)] +
                              idx[ax + 1:])
        if n == "numpy.tile" and len(t.args[1]) == 2:
            d = self.dims(t.args[1][0])
            reps = self._shape_arg(t.args[1][1])
            while len(reps) < len(d):
                reps.insert(0, (1,))
            pad = len(reps) - len(d)
            out = []
            for k, own in enumerate(d):
                r = reps[k + pad]
                nr = len([f for f in r if f != 1])
                out.append(self._refit(idx[k + pad][nr:], own))
            return self.entry(t.args[1][0], out)
        if n in (".swapaxes", "numpy.swapaxes"):
            x, a, b = self._swap_parts(t, recv)
            i2 = list(idx)
            i2[a], i2[b] = i2[b], i2[a]
            return self.entry(x, i2)
        if n in (".transpose", "numpy.transpose"):
            x, perm = self._perm_parts(t, recv)
            r = len(idx)
            perm = perm or list(reversed(range(r)))
            src = [None] * r
            for new_k, old_k in enumerate(perm):
                src[old_k] = idx[new_k]
            return self.entry(x, src)
        if n in (".dot", "numpy.dot", "numpy.matmul"):
            a, b = self._dot_parts(t, recv)
            return self._dot_entry(a, b, idx)
        if n in ("numpy.add", "numpy.subtract", "numpy.multiply",
                 "numpy.divide") and len(t.args[1]) == 2:
            op = {"numpy.add": "Add", "numpy.subtract": "Sub",
                  "numpy.multiply": "Mult", "numpy.divide": "Div"}[n]
            return self._binop_entry(T("binop", op, *t.args[1]), idx)
        raise AffError(f"entry of {tm.show(t)[:60]}")

    # ------------------------------------------------- safe entry points
    def entry_at(self, t: T, idx: list) -> dict:
        """`entry`, with every internal inconsistency (rank mismatch after
        an operation the algebra mis-models, ...) reported as AffError"""
        try:
            return self.entry(t, idx)
        except AffError:
            raise
        except (StopIteration, IndexError, TypeError, KeyError, ValueError,
                RecursionError) as ex:
            raise AffError(f"{type(ex).__name__} while evaluating "
                           f"{tm.show(t)[:60]}")

    def dims_of(self, t: T) -> List[tuple]:
        try:
            return self.dims(t)
        except AffError:
            raise
        except (StopIteration, IndexError, TypeError, KeyError, ValueError,
                RecursionError) as ex:
            raise AffError(f"{type(ex).__name__} in the shape of "
                           f"{tm.show(t)[:60]}")

    # ------------------------------------------------------- queries
    def positions(self, dims: list):
        """all index tuples with every int digit enumerated and the generic
        pose for symbolic factors"""
        import itertools
        per_dim = []
        for d in dims:
            per_dim.append([tuple(c) for c in itertools.product(
                *[[P] if f == N else range(f) for f in d])])
        return [list(c) for c in itertools.product(*per_dim)]
