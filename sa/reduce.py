"""E-RED: keyed reductions.

What does a dictionary hold under a (generic) key k after nested loops have
rebuilt or updated it?  merge_results can sum "per result over all keys"
(rebuilding the dictionary in every iteration) or "per key over all results"
(one scalar accumulator per key); both are the same recurrence on the value
stored under one key.  `value_at(D, KEY)` evaluates a dictionary-valued
provenance term at the symbolic key and returns a scalar term in which every
loop-carried value is a recurrence node

    scan(lid, init, step)     value after loop `lid`, starting at `init`;
                              `step` is one iteration, acc(lid) standing for
                              the value carried in

and `reduction(t)` reads such a scalar as  (init (+) e_1 (+) e_2 ...) [/ d].

Understood dictionary constructions: dict comprehensions over the items /
keys of a dictionary (key kept), loops that store one key per iteration
("map over the keys"), loops that replace / update the whole dictionary
(recurrence), copies, conditionals.  Anything else raises NotUnderstood.
"""
from __future__ import annotations

from typing import Dict, Optional, Tuple

from . import terms as tm
from .interp import Interp
from .lib import is_call_to
from .terms import T, const

KEY = T("key")


class NotUnderstood(Exception):
    pass


def acc(lid) -> T:
    return T("acc", lid)


def _key_space(it: T) -> Optional[Tuple[T, str]]:
    """(dictionary, 'items' | 'keys') an iterable enumerates"""
    it = Interp.unname(it)
    if is_call_to(it, ".items") and not it.args[1]:
        return tm.method_recv(it), "items"
    for _ in range(3):
        if is_call_to(it, "builtins.list", "builtins.tuple",
                      "builtins.sorted") and len(it.args[1]) == 1:
            it = Interp.unname(it.args[1][0])
    if is_call_to(it, ".keys") and not it.args[1]:
        return tm.method_recv(it), "keys"
    if it.op in ("attr", "loopvar", "loopout", "param"):
        return it, "keys"
    return None


def _copy_of(d: T) -> Optional[T]:
    if is_call_to(d, "builtins.dict", "copy.copy", "copy.deepcopy") and \
            len(d.args[1]) == 1 and not d.args[2]:
        return d.args[1][0]
    if is_call_to(d, ".copy") and not d.args[1]:
        return tm.method_recv(d)
    return None


def _carried(lid, init: T, upd: T) -> Optional[T]:
    """the term standing for the value carried into an iteration (a carried
    attribute is named differently from the variable that holds it)"""
    for x in upd.walk():
        if x.op == "loopvar" and x.args[1] == lid and x.args[2] is init:
            return x
    return None


def _cond_store(u: T, lv: T):
    """(index, value) if every alternative of `u` stores the carried
    dictionary under one and the same index or leaves it alone (the entry
    then keeps its value)"""
    idxs = []

    def val(x: T):
        x = Interp.unname(x)
        if x.op == "ite":
            a, b = val(x.args[1]), val(x.args[2])
            return None if a is None or b is None else tm.ite(x.args[0], a, b)
        if x.op == "upd" and x.args[0] is lv:
            idxs.append(x.args[1])
            return x.args[2]
        if x is lv:
            return T("keep")
        return None
    v = val(u)
    if v is None or not idxs or any(i is not idxs[0] for i in idxs):
        return None
    keep = tm.sub(lv, idxs[0])
    return idxs[0], v.map(lambda x: keep if x.op == "keep" else None)


def value_at(d: T, key: T = KEY) -> T:
    """the value the dictionary term `d` holds under `key`"""
    d = Interp.unname(d)
    if d.op == "ite":
        return tm.ite(d.args[0], value_at(d.args[1], key),
                      value_at(d.args[2], key))
    c = _copy_of(d)
    if c is not None:
        return value_at(c, key)
    if d.op == "comp" and d.args[0] == "dict" and len(d.args[2]) == 1 and \
            not d.args[3] and d.args[1].op == "tuple" and \
            len(d.args[1].args) == 2:
        (it, lid), = d.args[2]
        k, v = d.args[1].args
        return _mapped(T("elem", it, lid), it, k, v, key, None)
    if d.op == "loopout":
        name, lid, init, upd = d.args
        lv = _carried(lid, init, upd) or T("loopvar", name, lid, init)
        u = Interp.unname(upd)
        cs = _cond_store(u, lv)
        if cs is not None:
            # one key stored per iteration: a map over the keys
            idx, val = cs
            el = idx.args[0] if idx.op == "sub" and \
                tm.is_const(idx.args[1], 0) else idx
            if el.op == "elem" and el.args[1] == lid:
                return _mapped(el, el.args[0], idx, val, key, (lv, init))
            raise NotUnderstood(f"store under {tm.show(idx)[:60]}")
        return T("scan", lid, value_at(init, key), value_at(upd, key))
    if d.op == "loopvar":
        return acc(d.args[1])
    if d.op == "upd":
        if d.args[1] is key:
            return d.args[2]
        raise NotUnderstood(f"single store {tm.show(d)[:60]}")
    if d.op in ("attr", "param", "sub", "elem"):
        return tm.sub(d, key)
    raise NotUnderstood(tm.show(d)[:80])


def _mapped(el: T, it: T, k: T, v: T, key: T, carried) -> T:
    """value of `{k: v for el in it}` (or of the loop storing d[k] = v) at
    `key`, where the iteration enumerates a dictionary and k is its key"""
    ks = _key_space(it)
    if ks is None:
        raise NotUnderstood(f"iteration space {tm.show(it)[:60]}")
    src, kind = ks
    kterm = tm.sub(el, const(0)) if kind == "items" else el
    vterm = tm.sub(el, const(1)) if kind == "items" else None
    if k is not kterm:
        raise NotUnderstood(f"key expression {tm.show(k)[:60]}")

    def rw(x: T):
        if x is kterm:
            return key
        if vterm is not None and x is vterm:
            return value_at(src, key)
        if x.op == "sub" and x.args[1] is key:
            b = x.args[0]
            if b is src:
                return value_at(src, key)
            if carried is not None and b is carried[0]:
                # this key's own entry has not been written yet
                return value_at(carried[1], key)
            if b.op in ("loopvar", "loopout"):
                return value_at(b, key)
        return None
    return v.map(rw)


def scalarise(t: T) -> T:
    """scalar accumulators (loop-carried plain variables) as scan nodes"""
    def rw(x: T):
        if x.op == "loopout":
            name, lid, init, upd = x.args
            lv = _carried(lid, init, upd) or T("loopvar", name, lid, init)
            return T("scan", lid, init,
                     upd.map(lambda y: acc(lid) if y is lv else None))
        return None
    return t.map(rw)


def hoist(t: T) -> T:
    """conditionals out of recurrences and divisions: a step that is chosen
    by a test which does not change during the loop is a choice between two
    loops; a step that keeps the carried value is no step"""
    t = scalarise(Interp.unname(t))

    def invariant(c: T, lid) -> bool:
        return not any((x.op == "acc" and x.args[0] == lid) or
                       (x.op == "elem" and x.args[1] == lid) or
                       (x.op == "iter" and x.args[0] == lid)
                       for x in c.walk())

    def rw(x: T):
        if x.op == "scan":
            lid, init, step = x.args
            if step is acc(lid):
                return init
            if step.op == "ite" and invariant(step.args[0], lid):
                return tm.ite(step.args[0],
                              T("scan", lid, init, step.args[1]).map(rw),
                              T("scan", lid, init, step.args[2]).map(rw))
        if x.op == "binop" and x.args[0] == "Div" and x.args[1].op == "ite":
            c, a, b = x.args[1].args
            return tm.ite(c, T("binop", "Div", a, x.args[2]),
                          T("binop", "Div", b, x.args[2]))
        if is_call_to(x, "numpy.divide", "numpy.true_divide") and \
                len(x.args[1]) == 2 and not x.args[2] and \
                x.args[1][0].op == "ite":
            c, a, b = x.args[1][0].args
            return tm.ite(c, T("call", x.args[0], (a, x.args[1][1]), ()),
                          T("call", x.args[0], (b, x.args[1][1]), ()))
        return None
    for _ in range(4):
        n = t.map(rw)
        if n is t:
            break
        t = n
    return t


def reduction(t: T) -> Optional[Dict[str, object]]:
    """read a scalar as a left fold:  {kind: 'sum' | 'cat', init, lid,
    addend, reversed, divisor}; None if it is not one"""
    t = scalarise(Interp.unname(t))
    div = None
    if t.op == "binop" and t.args[0] == "Div":
        t, div = t.args[1], t.args[2]
    elif is_call_to(t, "numpy.divide", "numpy.true_divide") and \
            len(t.args[1]) == 2 and not t.args[2]:
        t, div = t.args[1]
    t = Interp.unname(t)
    if t.op != "scan":
        return None
    lid, init, step = t.args
    a = acc(lid)
    step = Interp.unname(step)
    kind = ops = None
    if step.op == "binop" and step.args[0] == "Add":
        kind, ops = "sum", (step.args[1], step.args[2])
    elif is_call_to(step, "numpy.add") and len(step.args[1]) == 2 and \
            not step.args[2]:
        kind, ops = "sum", tuple(step.args[1])
    elif is_call_to(step, "numpy.append") and len(step.args[1]) == 2 and \
            not step.args[2]:
        kind, ops = "cat", tuple(step.args[1])
    elif is_call_to(step, "numpy.concatenate", "numpy.hstack") and \
            len(step.args[1]) == 1 and step.args[1][0].op in (
                "tuple", "list") and len(step.args[1][0].args) == 2:
        kind, ops = "cat", tuple(step.args[1][0].args)
    if kind is None or (ops[0] is a) == (ops[1] is a):
        return None
    addend = ops[1] if ops[0] is a else ops[0]
    if any(x is a for x in addend.walk()):
        return None
    return dict(kind=kind, init=init, lid=lid, addend=addend,
                reversed=ops[1] is a, divisor=div)
