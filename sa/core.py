"""Driver core: obligations, three-outcome contract, evidence, known findings,
thorough-tier self-validation on scratch variants."""
from __future__ import annotations

import importlib
import json
import os
import shutil
import subprocess
import sys
import tempfile
import time
import traceback
from concurrent.futures import ThreadPoolExecutor
from dataclasses import dataclass, field
from typing import Any, Callable, Dict, List, Optional

from .progdb import AnalysisError, Program

VERIF = os.path.dirname(os.path.dirname(os.path.abspath(__file__)))


_PLAIN_DECORATORS = ("property", "staticmethod", "classmethod", "setter",
                     "getter", "deleter", "abstractmethod", "overload",
                     "wraps", "lru_cache", "cache", "cached_property",
                     "dataclass", "total_ordering", "contextmanager",
                     "unique", "final", "override", "no_type_check")


def _program_decorated(fn) -> bool:
    """the function carries a decorator that is not one of the standard
    library's descriptor / bookkeeping decorators"""
    for d in getattr(fn, "decorators", ()) or ():
        base = str(d).split("(")[0].split(".")[-1]
        if base not in _PLAIN_DECORATORS:
            return True
    return False


@dataclass
class Obligation:
    rule: str                 # C17.2
    site: str                 # file:line or qualified name
    ok: bool
    msg: str                  # what was checked / what is wrong
    key: str                  # stable finding key (rule:construct)
    facts: Dict[str, Any] = field(default_factory=dict)
    nontrivial: bool = True   # needed a dataflow / path fact beyond lookup

    def to_json(self):
        return {"rule": self.rule, "site": self.site,
                "status": "discharged" if self.ok else "VIOLATED",
                "what": self.msg, "key": self.key,
                "facts": {k: _short(v) for k, v in self.facts.items()}}


def _short(v, n=300):
    s = v if isinstance(v, (int, float, bool, list, dict)) else str(v)
    if isinstance(s, str) and len(s) > n:
        s = s[:n] + "…"
    return s


class Ctx:
    """what a rule module sees"""

    def __init__(self, pid: str, prog: Program, tier: str, seed: int):
        self.pid = pid
        self.prog = prog
        self.tier = tier
        self.seed = seed
        self.obligations: List[Obligation] = []
        self.analysed: Dict[str, Any] = {"functions": [], "configs": 0,
                                         "call_sites": 0}
        self.notes: List[str] = []
        self.info: List[str] = []
        self.undecided: List[str] = []

    # ---------------------------------------------------------- obligations
    def ob(self, rule: str, site, ok: bool, msg: str, key: Optional[str] =
           None, nontrivial: bool = True, evidence: bool = True,
           **facts) -> bool:
        if not ok and evidence:
            # what a function wrapped by a decorator of the program does is
            # its body *and* the wrapper (a confirmation asked, a guard
            # checked, an argument normalised before the body runs): a
            # missing piece in the body alone is no evidence
            fn_ = getattr(site, "func", None) if hasattr(site, "where") \
                else (site if hasattr(site, "qualname") else None)
            if fn_ is not None and _program_decorated(fn_):
                evidence = False
                msg = (f"[{fn_.qualname} is wrapped by a decorator of the "
                       f"program, not looked through] " + msg)
        if not ok and not evidence:
            # the rule did not find the shape it knows and has no positive
            # evidence of a deviation either: it declines (exit 2), it does
            # not report a violation
            self.undecidable(rule, site, "form not recognised, no evidence "
                             "of a deviation: " + msg)
            return False
        if hasattr(site, "where"):
            site = site.where
        elif hasattr(site, "qualname"):
            site = f"{site.file}:{site.lineno} ({site.qualname})"
        k = key or f"{rule}:{msg}"
        self.obligations.append(Obligation(rule, str(site), bool(ok), msg, k,
                                           facts, nontrivial))
        return bool(ok)

    def unrecognised(self, rule: str, site, msg: str, key: Optional[str] =
                     None):
        """a *secondary* rule whose idiom is not present in this tree: the
        rule is not applied (recorded in the evidence as not decided); unlike
        `undecidable` this does not fail the check. Reserved for fine-grained
        clauses added on top of a property's core rules, where an unknown
        formulation is far more likely a refactoring than a defect."""
        if os.environ.get("SA_STRICT_UNRECOGNISED"):
            return self.undecidable(rule, site, "not applied: " + msg)
        self.ob(rule, site, True, "NOT DECIDED (idiom not recognised, rule "
                "not applied): " + msg, key=key or f"{rule}:not-applied",
                nontrivial=False)
        self.notes.append(f"{rule}: not applied: {msg}")

    def section(self, fn, *args, **kw):
        """run one independent group of rules; an anchor or idiom it needs
        that is missing makes that group undecidable, not the others"""
        try:
            return fn(*args, **kw)
        except AnalysisError as e:
            self.undecided.append(f"{getattr(fn, '__name__', 'section')}: "
                                  f"{e}")
            return None

    def require(self, cond: bool, what: str):
        """anchor / idiom the analysis needs; absence is an analysis error,
        never a verdict"""
        if not cond:
            raise AnalysisError(what)

    def floor(self, rule: str, n: int, what: str = ""):
        have = sum(1 for o in self.obligations if o.rule == rule)
        if have < n:
            raise AnalysisError(
                f"rule {rule} matched {have} instance(s), hand-confirmed "
                f"floor is {n} {what}".strip())

    def analysed_fn(self, *qualnames):
        for q in qualnames:
            if q not in self.analysed["functions"]:
                self.analysed["functions"].append(q)

    def note(self, s: str):
        self.notes.append(s)

    def undecidable(self, rule: str, site, msg: str):
        """third outcome of an obligation: the code uses an idiom the rule
        does not model.  Never a verdict: reported as ANALYSIS-ERROR (exit 2)
        unless a genuine violation is reported by the same run."""
        if hasattr(site, "where"):
            site = site.where
        elif hasattr(site, "qualname"):
            site = f"{site.file}:{site.lineno} ({site.qualname})"
        self.undecided.append(f"{rule} at {site}: {msg}")


_IMPORT_CACHE: dict = {}


def import_rules(ctx: "Ctx", module: str, rules, new_rule: str,
                 pred=None) -> int:
    """run another property's rule module and adopt the obligations of the
    given rule ids under `new_rule` (a shared structural clause, e.g. cache
    coherence of the pipeline's mutators is also a necessary condition of
    'the stored errors belong to the projected trajectories')"""
    if getattr(ctx, "imported", False):
        # a rule module that is itself being run for another property does
        # not pull in third properties (no cycles; the importing property
        # names its sources directly)
        return 10 ** 6
    key = (id(ctx.prog), module)
    sub = _IMPORT_CACHE.get(key)
    if sub is None:
        mod = importlib.import_module(f"sa.rules.{module}")
        sub = Ctx(ctx.pid, ctx.prog, ctx.tier, ctx.seed)
        sub.imported = True
        try:
            mod.check(sub)
        except AnalysisError as e:
            sub.undecided.append(f"* {module}: {e}")
        _IMPORT_CACHE[key] = sub
    if any(u.startswith("* ") for u in sub.undecided):
        ctx.undecided.append(
            f"{new_rule} (shared clause of {module.upper()}): " +
            [u for u in sub.undecided if u.startswith("* ")][0][2:])
        return 10 ** 6
    n = 0
    for o in sub.obligations:
        if o.rule in rules and (pred is None or pred(o)):
            ctx.obligations.append(Obligation(
                new_rule, o.site, o.ok, o.msg,
                o.key.replace(o.rule, new_rule, 1), o.facts, o.nontrivial))
            n += 1
    for u in sub.undecided:
        if any(u.startswith(r) for r in rules):
            ctx.undecided.append(u)
    return n


def load_known() -> dict:
    p = os.path.join(VERIF, "known_findings.json")
    with open(p) as f:
        return json.load(f)


def run_rules(pid: str, repo: str, tier: str, seed: int):
    mod = importlib.import_module(f"sa.rules.{pid.lower()}")
    prog = Program(repo, packages=("evo",), extra_dirs=("contrib",))
    ctx = Ctx(pid, prog, tier, seed)
    try:
        mod.check(ctx)
        if tier == "thorough" and hasattr(mod, "thorough"):
            mod.thorough(ctx)
    except AnalysisError as e:
        # what was decided before the anchor / idiom went missing still
        # stands (a violation found earlier is reported); the rest is
        # undecidable
        ctx.undecided.append(f"analysis stopped: {e}")
    return mod, ctx


def main(argv=None) -> int:
    import argparse
    ap = argparse.ArgumentParser()
    ap.add_argument("pid")
    ap.add_argument("--tier", default=os.environ.get("VERIF_TIER", "quick"),
                    choices=["quick", "thorough"])
    ap.add_argument("--repo", default=os.environ.get("EVO_REPO", "/repo"))
    ap.add_argument("--no-evidence", action="store_true")
    ap.add_argument("--json", action="store_true",
                    help="print violated obligation keys as JSON (selftest)")
    ap.add_argument("--replay", default=None)
    ap.add_argument("--no-selftest", action="store_true")
    args = ap.parse_args(argv)
    pid = args.pid.upper()
    seed = int(os.environ.get("VERIF_SEED", "0") or 0)
    t0 = time.time()
    evidence_path = os.path.join(VERIF, "evidence", f"{pid}.json")
    try:
        mod, ctx = run_rules(pid, args.repo, args.tier, seed)
        floors = getattr(mod, "FLOORS", {})
        if not any(not o.ok for o in ctx.obligations) and \
                not ctx.undecided:
            # a rule that silently matches nothing would pass forever; but a
            # found violation is never masked by a floor
            for rule, n in floors.items():
                ctx.floor(rule, n)
        selftest = None
        if args.tier == "thorough" and not args.no_selftest and \
                hasattr(mod, "VARIANTS") and not args.json:
            selftest = run_selftest(pid, mod, ctx, args.repo)
    except AnalysisError as e:
        print(f"ANALYSIS-ERROR property={pid} {e}")
        return 2
    except Exception:
        tb = traceback.format_exc()
        print(f"ANALYSIS-ERROR property={pid} checker crashed:\n{tb}")
        return 2

    violated = [o for o in ctx.obligations if not o.ok]
    if args.json:
        print(json.dumps({"violated": [{"rule": o.rule, "key": o.key,
                                        "site": o.site, "msg": o.msg}
                                       for o in violated],
                          "undecided": ctx.undecided,
                          "obligations": len(ctx.obligations)}))
        if not violated and ctx.undecided:
            return 2
        return 1 if violated else 0

    known = load_known()
    known_keys = {(k["property"], k["key"]): k for k in known["findings"]}
    new_viol, known_hit = [], []
    for o in violated:
        if (pid, o.key) in known_keys:
            known_hit.append(o)
        else:
            new_viol.append(o)
    # distinct known findings reported once
    seen = set()
    for o in known_hit:
        if o.key in seen:
            continue
        seen.add(o.key)
        kf = known_keys[(pid, o.key)]
        print(f"KNOWN-FINDING: property={pid} {kf['what']} "
              f"[{o.rule} at {o.site}]")
    wall = time.time() - t0
    ev = build_evidence(pid, mod, ctx, args.tier, seed, wall, new_viol,
                        known_hit, selftest)
    if not args.no_evidence:
        os.makedirs(os.path.dirname(evidence_path), exist_ok=True)
        with open(evidence_path, "w") as f:
            json.dump(ev, f, indent=1, default=str)
    rc = 0
    if new_viol:
        print(f"VIOLATION property={pid} replay={evidence_path}")
        for o in new_viol:
            print(f"  violated {o.rule} at {o.site}: {o.msg}"
                  f"  [key={o.key}]")
            for k, v in o.facts.items():
                print(f"      {k}: {_short(v, 400)}")
        rc = 1
    if ctx.undecided:
        for u in ctx.undecided:
            print(f"ANALYSIS-ERROR property={pid} unknown idiom, rule cannot "
                  f"decide: {u}")
        if rc == 0:
            rc = 2
    if selftest is not None and selftest["deviations"]:
        for d in selftest["deviations"]:
            print(f"ANALYSIS-ERROR property={pid} self-validation: {d}")
        if rc == 0:
            rc = 2
    n = len(ctx.obligations)
    print(f"{pid} [{args.tier}] obligations={n} discharged="
          f"{n - len(violated)} violated={len(new_viol)} "
          f"known={len(seen)} wall={wall:.2f}s"
          + (f" selftest={selftest['summary']}" if selftest else ""))
    return rc


def build_evidence(pid, mod, ctx: Ctx, tier, seed, wall, new_viol, known_hit,
                   selftest):
    obs = ctx.obligations
    rules = sorted({o.rule for o in obs})
    distinct_nontrivial = len({(o.rule, o.key, o.site) for o in obs
                               if o.nontrivial})
    samples = [o.to_json() for o in obs if not o.ok][:10]
    per_rule_seen = set()
    for o in obs:
        if o.rule not in per_rule_seen and o.ok:
            per_rule_seen.add(o.rule)
            samples.append(o.to_json())
    cov = {
        "explanation": getattr(mod, "EXPLANATION", "").strip(),
        "rule": ("obligations are enumerated by the rules listed in "
                 "'rules_applied' over the constructs found in /repo's "
                 "current sources; an obligation is non-trivial when it "
                 "needed at least one dataflow / path / constant-propagation "
                 "fact (not a mere name lookup); distinct = distinct "
                 "(rule, construct key, site)"),
        "obligations": len(obs),
        "discharged": sum(1 for o in obs if o.ok),
        "evaluations": len(obs),
        "distinct_nontrivial": distinct_nontrivial,
        "rules_applied": {r: sum(1 for o in obs if o.rule == r)
                          for r in rules},
        "samples": samples[:40],
        "analysed": dict(ctx.analysed, **ctx.prog.stats()),
        "undecided_clauses": getattr(mod, "UNDECIDED", []),
        "exhaustive": True,
        "checker_cmd": f"./check {pid} --tier {tier}",
        "trusted_base": getattr(mod, "TRUSTED", []),
        "known_findings_hit": sorted({o.key for o in known_hit}),
        "notes": ctx.notes,
        "undecidable_obligations": ctx.undecided,
    }
    if selftest is not None:
        cov["self_validation"] = selftest
    return {
        "property_id": pid, "tier": tier, "seed": seed, "level": "other",
        "coverage": cov,
        "assumptions": getattr(mod, "ASSUMPTIONS", []),
        "wall_s": round(wall, 3),
        "violations": len(new_viol),
    }


# --------------------------------------------------------------- self-test
def _apply_variant(root: str, v: dict) -> Optional[str]:
    """returns None if applied, else reason for skipping"""
    if v.get("patch"):
        # only the analysed packages exist in the scratch copy: parts of the
        # patch that touch tests / packaging / docs are left out
        pr = subprocess.run(["git", "apply", "--include=evo/*",
                             "--include=contrib/*", v["patch"]], cwd=root,
                            capture_output=True, text=True)
        if pr.returncode != 0:
            return "patch does not apply to this tree"
        return None
    edits = v.get("edits") or [(v["file"], v["find"], v["replace"])]
    for (rel, find, repl) in edits:
        p = os.path.join(root, rel)
        if not os.path.isfile(p):
            return f"file {rel} missing"
        s = open(p).read()
        if s.count(find) != 1:
            return f"anchor text occurs {s.count(find)}x in {rel}"
        open(p, "w").write(s.replace(find, repl))
    return None


def _run_json(pid: str, repo: str) -> Optional[dict]:
    cmd = [sys.executable, os.path.join(VERIF, "check"), pid, "--repo", repo,
           "--json", "--no-evidence"]
    pr = subprocess.run(cmd, capture_output=True, text=True, timeout=600)
    if pr.returncode == 2:
        try:
            j = json.loads(pr.stdout.strip().splitlines()[-1])
            return {"error": "undecidable: " + "; ".join(j["undecided"])[:400]}
        except Exception:
            return {"error": pr.stdout.strip()[-500:]}
    try:
        return json.loads(pr.stdout.strip().splitlines()[-1])
    except Exception:
        return {"error": (pr.stdout + pr.stderr)[-500:]}


def corpus_variants(pid: str, ctx: Ctx) -> list:
    """patch-based self-validation variants from the two committed corpora:
    every seeded change written for this property must make the check report
    a new violation (or, for the listed exceptions, at least refuse to
    decide); every behaviour-preserving refactoring that touches a file this
    check analysed must leave it silent. Patches that no longer apply to the
    tree under analysis are skipped."""
    out = []
    sdir = os.path.join(VERIF, "seeded")
    if os.path.isdir(sdir):
        for name in sorted(os.listdir(sdir)):
            pf = os.path.join(sdir, name, "patch.diff")
            if not os.path.isfile(pf):
                continue
            # the property whose check has to report the change: the one the
            # seed was written for, unless its meta.json names the property
            # the broken clause belongs to (`checked_by`)
            owners = [name[:3]]
            try:
                owners = json.load(open(os.path.join(
                    sdir, name, "meta.json"))).get("checked_by") or owners
            except Exception:
                pass
            if pid in owners:
                out.append(dict(name=f"seeded/{name}", patch=pf,
                                expect="fire", rule=pid,
                                allow_error=name in UNDECIDABLE_SEEDS))
    files = set()
    for q in ctx.analysed.get("functions", []):
        f = ctx.prog.functions.get(q)
        if f is not None:
            files.add(f.module.relpath if hasattr(f.module, "relpath")
                      else f.file)
    rdir = os.path.join(VERIF, "refactors")
    if os.path.isdir(rdir):
        for name in sorted(os.listdir(rdir)):
            pf = os.path.join(rdir, name, "patch.diff")
            if not os.path.isfile(pf):
                continue
            touched = {l.split(" b/")[1].strip() for l in open(pf)
                       if l.startswith("diff --git")}
            if files and not (touched & files):
                continue
            out.append(dict(name=f"refactors/{name}", patch=pf,
                            expect="silent",
                            allow_error=pid in UNDECIDABLE_REFACTORS.get(
                                name, ())))
    # third corpus: realistic legitimate commits (features, modernisations,
    # bug fixes). Expected silent; an alarm is accepted only where the
    # commit's meta.json lists it as a true alarm (the commit does deviate
    # from the property text), and "cannot decide" is accepted and recorded
    cdir = os.path.join(VERIF, "commits")
    if os.path.isdir(cdir):
        for name in sorted(os.listdir(cdir)):
            pf = os.path.join(cdir, name, "patch.diff")
            mf = os.path.join(cdir, name, "meta.json")
            if not (os.path.isfile(pf) and os.path.isfile(mf)):
                continue
            touched = {l.split(" b/")[1].strip() for l in open(pf)
                       if l.startswith("diff --git")}
            if files and not (touched & files):
                continue
            try:
                meta = json.load(open(mf))
            except Exception:
                continue
            true_keys = ((meta.get("true_alarms") or {}).get("alarms")
                         or {}).get(pid, [])
            kfa = (meta.get("known_false_alarm") or {}).get(pid)
            out.append(dict(name=f"commits/{name}", patch=pf,
                            expect="silent", allow_error=True,
                            true_keys=list(true_keys),
                            known_false_alarm=kfa))
    return out


# seeded changes on which the check refuses to decide (exit 2, "unknown
# idiom") instead of reporting the violation: the defect sits inside code the
# carrying commit re-wrote with an algorithm / representation the rules have
# no model of. One line of reason each; DESIGN.md §13 / §18.
UNDECIDABLE_SEEDS = (
    "C14d",   # vendored euler_from_matrix edited: summary must be re-derived
    "C07j",   # EuRoC stamps parsed with integer arithmetic in a new helper
    "C13j",   # per-array merge strategy table
    "C14k",   # vendored euler_from_matrix edited (assumption A4, as C14d)
    "C14p",   # same: middle angle rewritten with asin / acos
    # wave 8 (optimisations): a fast path / vectorised re-implementation
    # whose agreement with the code it replaces is arithmetic or search
    # semantics the term language does not model. The check named in the
    # seed's `checked_by` (default: its own property) refuses to decide.
    "C01t",   # association by np.searchsorted (C05.3 shared clause)
    "C01u",   # rotation angles from one batched computation (C01.3)
    "C01v",   # motion filter with precomputed running sums (C01.5 wiring)
    "C02t",   # all-pairs path search by np.searchsorted (C10, via checked_by)
    "C02v",   # batched angle / acos-of-trace so3_log_angle (C02.6, C09.4)
    "C04v",   # vendored quaternion_from_matrix edited (C08.4, A4)
    "C05t",   # nearest neighbour by midpoints + searchsorted (C05.3)
    "C05u",   # crop to the common time window before copying (C05.2 form)
    "C08v",   # propagated transform in a single pass (C08.5)
    "C09t",   # acos-of-clamped-trace angle (C09.4: conditioning)
    "C09v",   # closed-form so3_log next to the vendored code (C09.3)
    "C10u",   # pair search skipped by a precomputed path-length test (C10.6)
    "C10v",   # angle/all-pairs search on one stacked Rotation (C10.8)
    "C10r",   # greedy search moved into a generic helper of another module
    "C11u",   # motion filter over precomputed candidate arrays (C11.2)
    "C12t",   # statistics computed only for overridden get_statistic (C12.1)
    "C13t",   # merge strategy decided from a size table (C13.2)
    "C13v",   # loader gained an array-name filter used by evo_res (C13.6)
    "C14t",   # projection of all poses by array operations (C14.1)
    "C14u",   # projection skipped for planar-position trajectories (C15.9)
    "C14v",   # quaternion getter re-implemented (C08.4, via checked_by)
    "C15t",   # association by np.searchsorted (C05.3, via checked_by)
    "C15u",   # quaternion getter re-implemented (C08.4, via checked_by)
    "C17t",   # one directory listing decides which exports need a prompt
    "C17v",   # prompt hoisted in front of the plot export loop (C17.3)
    "C20t",   # marker segments from one reshaped pose array (C20.3)
    "C20v",   # vectorised Euler angles for the default sequence (C20.10)
)

# behaviour-preserving changes on which a check refuses to decide: the same
# honest "cannot decide", on the false-alarm side. One line of reason each.
UNDECIDABLE_REFACTORS = {
    "R14_6": ("C14",),   # vendored euler_from_matrix split into helpers: the
                         # summary (A4) was derived from the original code
    "R14_8": ("C14",),   # same function, middle angle hoisted out of the `if`
    "R02_9": ("C02", "C12", "C05", "C10"),  # delta_ids becomes a property computed from
    #                      id_pairs: a property added later is looked through
    #                      (wave 10), and that rpe() still reduces with the
    #                      end indices of the pairs the values were computed
    #                      for is then not read off `[0] + delta_ids`
    # wave 7
    "R09_10": ("C09", "C01", "C02", "C10", "C12"),
    #                      rotation angles vectorised: one scipy Rotation for
    #                      the whole batch and so3_log_angle re-based on the
    #                      batch of one — needs the batch semantics of
    #                      Rotation.from_matrix / as_rotvec, which the term
    #                      language does not model
    "R10_10": ("C10",),  # path increments from a generator with its own
    #                      state (previous pose) feeding a shared greedy
    #                      search: generators with carried state are opaque
    # wave 8 (behaviour-preserving optimisations, same reasons as the seeds
    # above: equivalence of the fast form is arithmetic / search semantics)
    "R01_11": ("C05",),                # searchsorted association, both
    #                                    neighbours compared (C05.3)
    "R01_12": ("C01", "C12"),          # batched rotation angles (C01.3)
    "R02_11": ("C10",),                # all-pairs search by searchsorted
    "R03_11": ("C03", "C04"),          # covariance as a sum of outer products
    "R03_12": ("C03", "C04", "C08"),   # memoised identity, copied before use
    "R04_11": ("C04", "C03"),          # covariance by cumulative sums
    "R05_11": ("C05",),                # searchsorted + argmin walk-down
    "R05_12": ("C05", "C01", "C02", "C15"),   # crop before deep copy
    "R06_11": ("C06", "C07", "C01", "C02"),   # pandas reader with
    #                                    float_precision='round_trip'
    "R08_12": ("C08", "C15"),          # single-pass propagated transform
    "R09_12": ("C09", "C01", "C02", "C10"),   # atan2 form of the angle
    "R10_11": ("C10",),                # consecutive ids by searchsorted chain
    "R10_12": ("C10", "C02"),          # early exit on total path length
    "R12_11": ("C12",),                # statistics table built once
    "R13_11": ("C13",),                # size table for the merge decision
    "R14_11": ("C14",),                # vectorised projection
    "R14_12": ("C08",),                # batched quaternion conversion
    "R15_11": ("C05",),                # searchsorted association
    "R15_12": ("C08",),                # batched quaternion conversion
    "R16_12": ("C03", "C04"),          # outer-product covariance on copies
    "R17_11": ("C17",),                # directory listing before the prompts
    "R17_12": ("C17",),                # prompt decided once per export call
    "R18_11": ("C18",),                # set: keys located by an index list
    # wave 9 (behaviour-preserving rewrites in five styles). The checks decline on
    # these; first reason as reported by the check:
    "R02_15": ("C02", "C12"),
    #     C02.6 at evo/core/metrics.py:259 (evo.core.metrics.RPE.process_data): RPE[rotation_angle_rad]: reducer idiom n
    "R02_17": ("C01", "C02", "C12"),
    #     C02.6 at evo/core/metrics.py:281 (evo.core.metrics.RPE.process_data): RPE[full_transformation]: error array is
    "R03_13": ("C03",),
    #     C03.2 at evo/core/geometry.py:79: the rank test is a loop over the singular values that raises from inside (lo
    "R03_15": ("C03", "C04"),
    #     C03.5 at evo/core/geometry.py:35 (evo.core.geometry.umeyama_alignment): covariance construction not recognised
    "R04_15": ("C03", "C04"),
    #     C03.6 at evo/core/geometry.py:36 (evo.core.geometry.umeyama_alignment): [with_scale=True] equivariance typing:
    "R05_15": ("C01", "C02", "C05", "C15"),
    #     analysis stopped: append of matching indices not found (unknown idiom)
    "R05_16": ("C01", "C02", "C05", "C15"),
    #     analysis stopped: [snd_longer=True] expected two reduce_to_ids calls
    "R06_15": ("C06", "C13", "C15"),
    #     C06.5 at evo/tools/pandas_bridge.py:45 (evo.tools.pandas_bridge.trajectory_to_df): trajectory_to_df: column co
    "R07_13": ("C01", "C02", "C06", "C07"),
    #     C07.5 at evo/tools/file_interface.py:196 (evo.tools.file_interface.read_euroc_csv_trajectory): form not recogn
    "R07_15": ("C01", "C02", "C06", "C07", "C08"),
    #     C07.1 at evo/tools/file_interface.py:97 (evo.tools.file_interface.read_tum_trajectory_file): read_tum_trajecto
    "R09_15": ("C09", "C10"),
    #     C09.1 at evo/core/lie_algebra.py:56 (evo.core.lie_algebra.hat): hat/vee are not literal signed index tables: n
    "R10_14": ("C10",),
    #     C10.8 at evo/core/filters.py:182: angle/all-pairs search: start index elem<1>(range(max((len(poses) - 1), 0)))
    "R10_15": ("C10", "C11"),
    #     C10.2 at evo/core/filters.py:41 (evo.core.filters.filter_pairs_by_index): frames/all-pairs: the pairs are not 
    "R10_17": ("C10",),
    #     C10.1 at evo/core/filters.py:95 (evo.core.filters.filter_pairs_by_path): form not recognised, no evidence of a
    "R11_14": ("C11",),
    #     _splits: evo.core.trajectory.PoseTrajectory3D.split_distance_gaps: parts comprehension not found (unknown idio
    "R12_14": ("C12",),
    #     _companions: evo.main_ape.ape: companion arrays ('seconds_from_start', 'timestamps', 'distances_from_start', '
    "R13_13": ("C13",),
    #     C13.3 at evo/core/result.py:91 (evo.core.result.merge_results): refusal of differing `np_arrays` key sets: the
    "R13_15": ("C13",),
    #     C13.6 at evo/tools/pandas_bridge.py:138 (evo.tools.pandas_bridge.load_results_as_dataframe): per-file frames a
    "R13_17": ("C13",),
    #     C13.4 at evo/core/result.py:97 (evo.core.result.merge_results): statistics: value under a key is (functools.re
    "R14_13": ("C14",),
    #     C14.2 at evo/core/transformations.py: vendored `euler_from_matrix` was edited: the summary this rule relies on
    "R14_15": ("C01", "C02", "C05", "C10", "C12", "C14"),
    #     C14.1 at evo/core/trajectory.py:204 (evo.core.trajectory.PosePath3D.project): Plane.XY: the axis of the rebuil
    "R14_17": ("C14",),
    #     C14.2 at evo/core/transformations.py: vendored `euler_from_matrix` was edited: the summary this rule relies on
    "R15_15": ("C08", "C11", "C15"),
    #     C08.5 at evo/core/trajectory.py:165 (evo.core.trajectory.PosePath3D.transform): transform[propagate]: accumula
    "R15_17": ("C15",),
    #     C15.4 at evo/main_traj.py:188 (evo.main_traj.run): form not recognised, no evidence of a deviation: reference 
    "R16_14": ("C11",),
    #     _splits: evo.core.trajectory.PoseTrajectory3D.split_time_gaps: parts comprehension not found (unknown idiom)
    "R16_15": ("C06", "C07"),
    #     C06.5 at evo/tools/file_interface.py:123 (evo.tools.file_interface.write_tum_trajectory_file): TUM writer layo
    "R17_15": ("C17",),
    #     rule C17.8 matched 1 instance(s), hand-confirmed floor is 2
    "R18_15": ("C18",),
    #     C18.2 at evo/main_config.py:84 (evo.main_config.is_number): is_number: neither a float() conversion attempt no
    "R19_15": ("C18",),
    #     C18.3 at evo/tools/settings.py:113 (evo.tools.settings.reset): form not recognised, no evidence of a deviation
    "R20_15": ("C20",),
    #     C20.3 at evo/tools/plot.py:442: xy: segment entry (vertex, axis) (0, 0) of the construction is not understood:
    # wave 10 (behaviour-preserving restructurings in five harder styles:
    # object-oriented, data-flow, table-driven, signature work, cross-module).
    # The checks decline on these; first reason as reported by the check:
    "R01_19": ("C01", "C02", "C03", "C04", "C05", "C15",),
    #     C01.7 (shared clause of C05): c05: [snd_longer=True] expected two reduce_to_ids calls
    "R01_20": ("C01", "C02", "C05", "C10", "C11", "C12",),
    #     analysis stopped: APE[full_transformation]: self.error is never assigned
    "R02_19": ("C10",),
    #     C10.1 at evo/core/filters.py:89 (evo.core.filters.filter_pairs_by_index): frames/consecutive: the pairs are no
    "R02_20": ("C02", "C05", "C10", "C12",),
    #     analysis stopped: RPE[full_transformation]: error / delta_ids never assigned
    "R02_21": ("C02", "C10",),
    #     C10.6 at evo/core/metrics.py:451 (evo.core.metrics.id_pairs_from_delta): form not recognised, no evidence of a
    "R03_18": ("C03", "C04", "C08",),
    #     analysis stopped: SVD call not found (unknown idiom)
    "R03_19": ("C03", "C04",),
    #     C03.6 at evo/core/geometry.py:83 (evo.core.geometry.umeyama_alignment): [with_scale=True] equivariance typing:
    "R03_21": ("C01", "C02", "C03", "C04", "C08",),
    #     C01.9 (shared clause of C04): c04: test of n against its 'all poses' marker not found in align (unknown idiom)
    "R04_19": ("C03", "C04",),
    #     C03.6 at evo/core/geometry.py:52 (evo.core.geometry.umeyama_alignment): [with_scale=True] equivariance typing:
    "R04_20": ("C08", "C15",),
    #     C08.5 at evo/core/trajectory.py:214 (evo.core.trajectory.PosePath3D.transform): transform[propagate]: the stor
    "R04_21": ("C01", "C02", "C03", "C04", "C08",),
    #     C01.9 (shared clause of C04): c04: align[correct_scale=False,only_scale=False,n==-1]: no Umeyama call
    "R05_19": ("C01", "C02", "C05", "C15",),
    #     C01.7 (shared clause of C05): c05: append of matching indices not found (unknown idiom)
    "R05_21": ("C11", "C15",),
    #     C11.8 (shared clause of C15): c15: step `associate` not found in evo.main_traj.run (anchor vanished / unknown 
    "R06_18": ("C06",),
    #     C06.5 at evo/tools/file_interface.py:427 (evo.tools.file_interface.write_bag_trajectory): form not recognised,
    "R06_19": ("C06", "C13",),
    #     C06.5 at evo/tools/pandas_bridge.py:62 (evo.tools.pandas_bridge.trajectory_to_df): trajectory_to_df: column co
    "R06_21": ("C15",),
    #     C15.9 at evo/main_traj.py:179 (evo.main_traj.run): export as tum: the writer is handed to a worker function; w
    "R07_19": ("C01", "C02", "C06", "C07",),
    #     C01.7 (shared clause of C07): c07: KITTI reader: pose construction not recognised (unknown idiom): list[np.con
    "R07_20": ("C01", "C02", "C06", "C07",),
    #     C07.1 at evo/tools/file_interface.py:540 (evo.tools.file_interface.load_transform): form not recognised, no ev
    "R07_21": ("C17",),
    #     C17.2 at evo/tools/file_interface.py:237: form not recognised, no evidence of a deviation: numpy.savetxt in ev
    "R08_19": ("C08", "C11", "C15",),
    #     C08.5 at evo/core/trajectory.py:173 (evo.core.trajectory.PosePath3D.transform): transform[propagate]: relative
    "R08_20": ("C08", "C15",),
    #     C08.5 at evo/core/trajectory.py:217 (evo.core.trajectory.PosePath3D.transform): transform[propagate]: the stor
    "R08_21": ("C01", "C02", "C04", "C05", "C08", "C11", "C12", "C15", "C20",),
    #     C01.6 (shared clause of C08): c08: expected >=4 view-writing methods, found ['evo.core.trajectory.PosePath3D.p
    "R09_18": ("C01", "C02", "C09", "C10",),
    #     C09.4 at evo/core/lie_algebra.py:167 (evo.core.lie_algebra.so3_log_angle): angle idiom not recognised: (float(
    "R09_21": ("C01", "C02", "C04", "C09",),
    #     C09.2 at evo/core/lie_algebra.py:202 (evo.core.lie_algebra.sim3_inverse): sim3_inverse: construction not under
    "R10_18": ("C10",),
    #     C10.1 at evo/core/filters.py:120 (evo.core.filters.filter_pairs_by_path): form not recognised, no evidence of 
    "R10_19": ("C10",),
    #     C10.2 at evo/core/filters.py:53 (evo.core.filters.filter_pairs_by_index): frames/all-pairs: the pairs are not 
    "R10_20": ("C02", "C10",),
    #     C10.6 at evo/core/metrics.py:485 (evo.core.metrics.id_pairs_from_delta): form not recognised, no evidence of a
    "R10_21": ("C10",),
    #     C10.8 at evo/core/filters.py:181: angle/all-pairs search: start / candidate rotation stacks not recognised
    "R11_19": ("C11", "C15",),
    #     C11.2 at evo/core/filters.py:196 (evo.core.filters.filter_by_motion): kept-id list is not built in a loop: lis
    "R11_20": ("C01", "C02", "C04", "C05", "C08", "C11", "C12", "C15", "C20",),
    #     C01.6 (shared clause of C08): c08: anchor function vanished: evo.core.trajectory.PoseTrajectory3D.reduce_to_id
    "R11_21": ("C02", "C05", "C08", "C11", "C12", "C15",),
    #     C08.3 at evo/core/trajectory.py:338 (evo.core.trajectory.PosePath3D.downsample): form not recognised, no evide
    "R12_18": ("C12",),
    #     C12.1 at evo/core/metrics.py:224 (evo.core.metrics.PE.get_result): form not recognised, no evidence of a devia
    "R12_19": ("C02", "C05", "C10", "C12",),
    #     C02.3 at evo/core/metrics.py:259 (evo.core.metrics.RPE.process_data): form not recognised, no evidence of a de
    "R12_20": ("C12",),
    #     C12.1 at evo/core/metrics.py:205 (evo.core.metrics.PE.get_statistic): statistic rmse: formulation not recognis
    "R12_21": ("C12",),
    #     C12.3 at evo/core/metrics.py:149 (evo.core.metrics.PE.change_unit): form not recognised, no evidence of a devi
    "R13_19": ("C13",),
    #     C13.3 at evo/core/result.py:103 (evo.core.result.merge_results): refusal of differing `np_arrays` key sets: th
    "R13_20": ("C17",),
    #     C17.2 at evo/tools/pandas_bridge.py:117: pandas.ExcelWriter in evo.tools.pandas_bridge._write_excel_table, a f
    "R13_21": ("C13",),
    #     _tables: evo_res: save_df_as_table call not found
    "R14_18": ("C14",),
    #     C14.1 at evo/core/trajectory.py:254 (evo.core.trajectory.PosePath3D.project): form not recognised, no evidence
    "R14_19": ("C14",),
    #     C14.2 at evo/core/transformations.py: vendored `euler_from_matrix` was edited: the summary this rule relies on
    "R14_20": ("C14",),
    #     C14.1 at evo/core/trajectory.py:230 (evo.core.trajectory.PosePath3D.project): Plane.XY: the axis of the rebuil
    "R14_21": ("C14",),
    #     analysis stopped: Plane.XY: heading is not an element of euler_from_matrix(...) (unknown idiom: functools.part
    "R15_18": ("C11", "C15",),
    #     C11.8 (shared clause of C15): c15: step `merge` not found in evo.main_traj.run (anchor vanished / unknown idio
    "R15_19": ("C05", "C08", "C11", "C15",),
    #     C05.3 at evo/core/sync.py:56 (evo.core.sync.matching_time_indices): form not recognised, no evidence of a devi
    "R15_20": ("C01", "C02", "C06", "C07",),
    #     C07.1 at evo/tools/file_interface.py:521 (evo.tools.file_interface.load_transform): form not recognised, no ev
    "R15_21": ("C15", "C17",),
    #     C15.9 at evo/main_traj.py:202 (evo.main_traj.run): export as tum: the writer is handed to a worker function; w
    "R16_19": ("C01", "C02", "C05", "C13", "C15",),
    #     C01.7 (shared clause of C05): c05: [snd_longer=True] expected two reduce_to_ids calls
    "R16_20": ("C01", "C02", "C12",),
    #     C01.3 at evo/core/metrics.py:384 (evo.core.metrics.APE.process_data): APE[translation_part]: reducer idiom not
    "R16_21": ("C06", "C13", "C17",),
    #     C06.3 at evo/tools/file_interface.py:449 (evo.tools.file_interface.save_res_file): form not recognised, no evi
    "R17_19": ("C15", "C17",),
    #     C15.9 at evo/main_traj.py:198 (evo.main_traj.run): export as tum: the writer is handed to a worker function; w
    "R17_20": ("C17",),
    #     C17.2 at evo/tools/pandas_bridge.py:137: form not recognised, no evidence of a deviation: pandas.ExcelWriter i
    "R17_21": ("C17",),
    #     C17.2 at evo/tools/file_interface.py:455: form not recognised, no evidence of a deviation: zipfile.ZipFile(mod
    "R18_18": ("C18", "C19",),
    #     C18.3 at evo/tools/settings.py:159 (evo.tools.settings.reset): form not recognised, no evidence of a deviation
    "R18_19": ("C18",),
    #     C18.1 at evo/main_config.py:172: form not recognised, no evidence of a deviation: set: config[elem<2>(loopout<
    "R18_20": ("C18",),
    #     C18.2 at evo/main_config.py:172 (evo.main_config.finalize_values): form not recognised, no evidence of a devia
    "R19_19": ("C18",),
    #     _set_config: set_config: config stores not found
    "R19_21": ("C19",),
    #     C19.1 at evo/tools/settings.py:98 (evo.tools.settings.atomic_target): form not recognised, no evidence of a de
    "R20_18": ("C20",),
    #     C20.3 at evo/tools/plot.py:577: form not recognised, no evidence of a deviation: correspondence edges: interle
    "R20_20": ("C20",),
    #     C20.1 at evo/tools/plot.py:323 (evo.tools.plot.prepare_axis): form not recognised, no evidence of a deviation:
    "R20_21": ("C20",),
    #     _time_axes: traj_xyz: expected 3 plot rows
    "R16_10": ("C13",),  # merge accumulation moved into helpers that iterate
    #                      [r.stats for r in results][1:]: a list built by a
    #                      map and iterated again is not read through to its
    #                      source (tried; changes the canonical terms of
    #                      C10 / C13 / C20 rules on the pinned tree)
}


def run_selftest(pid: str, mod, ctx: Ctx, repo: str) -> dict:
    variants = list(mod.VARIANTS) + corpus_variants(pid, ctx)
    base_keys = {o.key for o in ctx.obligations if not o.ok}
    tmp_root = tempfile.mkdtemp(prefix=f"evo_selftest_{pid}_")
    results = []

    def one(i_v):
        i, v = i_v
        d = os.path.join(tmp_root, f"v{i}")
        try:
            os.makedirs(d)
            shutil.copytree(os.path.join(repo, "evo"), os.path.join(d, "evo"),
                            ignore=shutil.ignore_patterns("__pycache__"))
            if os.path.isdir(os.path.join(repo, "contrib")):
                shutil.copytree(os.path.join(repo, "contrib"),
                                os.path.join(d, "contrib"))
            why = _apply_variant(d, v)
            if why is not None:
                return {"name": v["name"], "outcome": "skipped", "why": why}
            try:
                import ast as _ast
                if v.get("patch"):
                    rels = [l.split(" b/")[1].strip()
                            for l in open(v["patch"])
                            if l.startswith("diff --git")]
                    rels = [(x, None, None) for x in rels
                            if x.endswith(".py") and
                            os.path.isfile(os.path.join(d, x))]
                else:
                    rels = (v.get("edits") or [(v["file"], None, None)])
                for (rel, _, _) in rels:
                    _ast.parse(open(os.path.join(d, rel)).read())
            except SyntaxError as e:
                return {"name": v["name"], "outcome": "deviation",
                        "why": f"variant does not parse: {e}"}
            r = _run_json(pid, d)
            if r is None or "error" in r:
                if v.get("allow_error"):
                    return {"name": v["name"], "outcome": "ok",
                            "detail": "analysis error / undecidable "
                                      "(accepted, recorded)"}
                return {"name": v["name"], "outcome": "deviation",
                        "why": f"checker failed on variant: "
                               f"{(r or {}).get('error')}"}
            new = [x for x in r["violated"] if x["key"] not in base_keys]
            if v["expect"] == "fire":
                want = v.get("rule")
                hit = [x for x in new
                       if want is None or x["rule"].startswith(want)]
                if hit:
                    return {"name": v["name"], "outcome": "ok",
                            "fired": sorted({x["rule"] for x in hit})}
                if v.get("allow_error") and r.get("undecided"):
                    return {"name": v["name"], "outcome": "ok",
                            "detail": "undecidable (accepted)"}
                return {"name": v["name"], "outcome": "deviation",
                        "why": f"expected a new violation of {want}, got "
                               f"{sorted({x['rule'] for x in new})}"}
            else:
                tk = v.get("true_keys") or []
                new = [x for x in new
                       if not any(k in x["key"] for k in tk)]
                if new and v.get("known_false_alarm"):
                    # a documented limitation of this check: recorded in
                    # the evidence, not hidden
                    return {"name": v["name"], "outcome": "ok",
                            "detail": "KNOWN FALSE ALARM of this check "
                                      "(documented limitation): "
                                      + v["known_false_alarm"][:200],
                            "false_alarm_rules":
                                sorted({x["rule"] for x in new})}
                if not new:
                    if v.get("allow_error") and r.get("undecided"):
                        return {"name": v["name"], "outcome": "ok",
                                "detail": "undecidable (accepted, "
                                          "recorded)"}
                    return {"name": v["name"], "outcome": "ok"}
                return {"name": v["name"], "outcome": "deviation",
                        "why": "behaviour-preserving variant raised "
                               f"{[(x['rule'], x['msg']) for x in new][:3]}"}
        finally:
            shutil.rmtree(d, ignore_errors=True)

    try:
        with ThreadPoolExecutor(max_workers=16) as ex:
            results = list(ex.map(one, enumerate(variants)))
    finally:
        shutil.rmtree(tmp_root, ignore_errors=True)
    dev = [f"{r['name']}: {r['why']}" for r in results
           if r["outcome"] == "deviation"]
    ok = sum(1 for r in results if r["outcome"] == "ok")
    sk = sum(1 for r in results if r["outcome"] == "skipped")
    return {"variants": len(variants), "ok": ok, "skipped": sk,
            "deviations": dev, "results": results,
            "summary": f"{ok}/{len(variants)} ok, {sk} skipped, "
                       f"{len(dev)} deviations"}
