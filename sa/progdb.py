"""E-RES: program database for /repo/evo (stdlib ast only).

Parses every module of the package from the *current working tree*, builds
per-module symbol tables (imports, functions, classes, constants) and offers
name / attribute / callee resolution.  Nothing of evo is imported or run.
"""
from __future__ import annotations

import ast
import os
from dataclasses import dataclass, field
from typing import Dict, List, Optional, Tuple

REPO = os.environ.get("EVO_REPO", "/repo")


class AnalysisError(Exception):
    """The analysis itself cannot proceed (anchor vanished, unknown idiom).
    Never a verdict about evo: reported as ANALYSIS-ERROR, exit code 2."""


@dataclass
class Function:
    qualname: str            # evo.core.trajectory.PosePath3D.project
    name: str
    node: ast.AST            # FunctionDef / Lambda
    module: "Module"
    cls: Optional["Class"] = None
    decorators: Tuple[str, ...] = ()

    @property
    def is_property(self) -> bool:
        return "property" in self.decorators

    @property
    def is_static(self) -> bool:
        return "staticmethod" in self.decorators

    @property
    def params(self) -> List[str]:
        a = self.node.args
        return [x.arg for x in a.posonlyargs + a.args]

    @property
    def kwonly(self) -> List[str]:
        return [x.arg for x in self.node.args.kwonlyargs]

    def defaults(self) -> Dict[str, ast.AST]:
        a = self.node.args
        pos = a.posonlyargs + a.args
        out = {}
        for p, d in zip(pos[len(pos) - len(a.defaults):], a.defaults):
            out[p.arg] = d
        for p, d in zip(a.kwonlyargs, a.kw_defaults):
            if d is not None:
                out[p.arg] = d
        return out

    def annotation(self, param: str) -> Optional[ast.AST]:
        a = self.node.args
        for p in a.posonlyargs + a.args + a.kwonlyargs:
            if p.arg == param:
                return p.annotation
        return None

    @property
    def file(self) -> str:
        return self.module.relpath

    @property
    def lineno(self) -> int:
        return self.node.lineno

    def __repr__(self):
        return f"<Function {self.qualname}>"


@dataclass
class Class:
    qualname: str
    name: str
    node: ast.ClassDef
    module: "Module"
    bases: List[str] = field(default_factory=list)   # resolved qualnames
    methods: Dict[str, Function] = field(default_factory=dict)
    members: Dict[str, ast.AST] = field(default_factory=dict)  # class attrs
    setters: Dict[str, Function] = field(default_factory=dict)  # @x.setter

    def __repr__(self):
        return f"<Class {self.qualname}>"


@dataclass
class Module:
    name: str                # evo.core.trajectory
    path: str
    relpath: str
    tree: ast.Module
    source: str
    imports: Dict[str, str] = field(default_factory=dict)  # alias -> dotted
    functions: Dict[str, Function] = field(default_factory=dict)
    classes: Dict[str, Class] = field(default_factory=dict)
    constants: Dict[str, ast.AST] = field(default_factory=dict)

    def line(self, n: int) -> str:
        ls = self.source.splitlines()
        return ls[n - 1] if 0 < n <= len(ls) else ""


def _dec_names(node) -> Tuple[str, ...]:
    out = []
    for d in getattr(node, "decorator_list", []):
        try:
            out.append(ast.unparse(d).split("(")[0].split(".")[-1])
        except Exception:
            pass
    return tuple(out)


class Program:
    def __init__(self, root: str = REPO, packages=("evo",), extra_dirs=()):
        self.root = root
        self.modules: Dict[str, Module] = {}
        self.functions: Dict[str, Function] = {}
        self.classes: Dict[str, Class] = {}
        for pkg in packages:
            pdir = os.path.join(root, pkg)
            if not os.path.isdir(pdir):
                raise AnalysisError(f"package directory missing: {pdir}")
            for dirpath, dirnames, filenames in os.walk(pdir):
                dirnames[:] = [d for d in dirnames if d != "__pycache__"]
                for fn in sorted(filenames):
                    if fn.endswith(".py"):
                        self._load(os.path.join(dirpath, fn))
        for d in extra_dirs:
            ddir = os.path.join(root, d)
            if os.path.isdir(ddir):
                for fn in sorted(os.listdir(ddir)):
                    if fn.endswith(".py"):
                        self._load(os.path.join(ddir, fn))
        for m in self.modules.values():
            self._index(m)
        for c in self.classes.values():
            self._resolve_bases(c)

    # ------------------------------------------------------------------ load
    def _load(self, path: str) -> None:
        rel = os.path.relpath(path, self.root)
        name = rel[:-3].replace(os.sep, ".")
        if name.endswith(".__init__"):
            name = name[:-9]
        with open(path, encoding="utf-8") as f:
            src = f.read()
        try:
            tree = ast.parse(src, filename=path)
        except SyntaxError as e:
            raise AnalysisError(f"cannot parse {rel}: {e}")
        self.modules[name] = Module(name, path, rel, tree, src)

    def _index(self, m: Module) -> None:
        for node in m.tree.body:
            self._index_stmt(m, node)

    def _index_stmt(self, m: Module, node: ast.AST) -> None:
        if isinstance(node, ast.Import):
            for a in node.names:
                if a.asname:
                    m.imports[a.asname] = a.name
                else:
                    m.imports[a.name.split(".")[0]] = a.name.split(".")[0]
        elif isinstance(node, ast.ImportFrom):
            base = node.module or ""
            if node.level:
                parts = m.name.split(".")
                if not m.path.endswith("__init__.py"):
                    parts = parts[:-1]
                parts = parts[:len(parts) - (node.level - 1)]
                base = ".".join(parts + ([node.module] if node.module else []))
            for a in node.names:
                m.imports[a.asname or a.name] = f"{base}.{a.name}"
        elif isinstance(node, (ast.FunctionDef, ast.AsyncFunctionDef)):
            f = Function(f"{m.name}.{node.name}", node.name, node, m, None,
                         _dec_names(node))
            m.functions[node.name] = f
            self.functions[f.qualname] = f
        elif isinstance(node, ast.ClassDef):
            c = Class(f"{m.name}.{node.name}", node.name, node, m)
            for sub in node.body:
                if isinstance(sub, (ast.FunctionDef, ast.AsyncFunctionDef)):
                    decs = _dec_names(sub)
                    if "setter" in decs or "deleter" in decs:
                        # @name.setter / @name.deleter: kept apart, the
                        # method of that name stays the property getter
                        kind = "setter" if "setter" in decs else "deleter"
                        f = Function(f"{c.qualname}.{sub.name}.{kind}",
                                     sub.name, sub, m, c, decs)
                        if kind == "setter":
                            c.setters[sub.name] = f
                        self.functions[f.qualname] = f
                        continue
                    f = Function(f"{c.qualname}.{sub.name}", sub.name, sub, m,
                                 c, decs)
                    c.methods[sub.name] = f
                    self.functions[f.qualname] = f
                elif isinstance(sub, ast.Assign):
                    for t in sub.targets:
                        if isinstance(t, ast.Name):
                            c.members[t.id] = sub.value
                elif isinstance(sub, ast.AnnAssign) and sub.value is not None \
                        and isinstance(sub.target, ast.Name):
                    c.members[sub.target.id] = sub.value
            m.classes[node.name] = c
            self.classes[c.qualname] = c
        elif isinstance(node, ast.Assign):
            for t in node.targets:
                if isinstance(t, ast.Name):
                    m.constants[t.id] = node.value
        elif isinstance(node, ast.AnnAssign):
            if isinstance(node.target, ast.Name) and node.value is not None:
                m.constants[node.target.id] = node.value
        elif isinstance(node, (ast.If, ast.Try)):
            # module-level conditional definitions (rare): index both arms
            for sub in ast.iter_child_nodes(node):
                if isinstance(sub, ast.stmt):
                    self._index_stmt(m, sub)

    def _resolve_bases(self, c: Class) -> None:
        for b in c.node.bases:
            try:
                dotted = ast.unparse(b)
            except Exception:
                continue
            q = self.resolve_dotted(c.module, dotted)
            c.bases.append(q or dotted)

    # ------------------------------------------------------------- resolution
    def resolve_dotted(self, m: Module, dotted: str,
                       local_imports: Optional[Dict[str, str]] = None
                       ) -> Optional[str]:
        """Resolve a dotted name used in module m to a global qualified name
        ('evo.core.lie_algebra.se3', 'numpy.linalg.norm', ...)."""
        parts = dotted.split(".")
        head = parts[0]
        imports = dict(m.imports)
        if local_imports:
            imports.update(local_imports)
        if head in m.functions and len(parts) == 1 and \
                not (local_imports and head in local_imports):
            return m.functions[head].qualname
        if head in m.classes and not (local_imports and head in local_imports):
            return ".".join([m.classes[head].qualname] + parts[1:])
        if head in imports:
            return self.canonical(".".join([imports[head]] + parts[1:]))
        if head in m.constants:
            return ".".join([m.name, head] + parts[1:])
        return None

    def canonical(self, q: str, depth: int = 0) -> str:
        """Follow re-exports: 'evo.core.metrics.Unit' -> 'evo.core.units.Unit'."""
        if depth > 8:
            return q
        if q in self.functions or q in self.classes or q in self.modules:
            return q
        parts = q.split(".")
        for i in range(len(parts) - 1, 0, -1):
            mod = ".".join(parts[:i])
            if mod in self.modules:
                m = self.modules[mod]
                nxt = parts[i]
                rest = parts[i + 1:]
                if nxt in m.functions or nxt in m.classes or \
                        nxt in m.constants:
                    return q
                if nxt in m.imports:
                    return self.canonical(
                        ".".join([m.imports[nxt]] + rest), depth + 1)
                return q
        return q

    def lookup(self, q: str):
        """qualified name -> Function | Class | Module | ('const', Module,
        name, node) | ('member', Class, name, node) | None"""
        q = self.canonical(q)
        if q in self.functions:
            return self.functions[q]
        if q in self.classes:
            return self.classes[q]
        if q in self.modules:
            return self.modules[q]
        mod, _, name = q.rpartition(".")
        if mod in self.modules and name in self.modules[mod].constants:
            return ("const", self.modules[mod], name,
                    self.modules[mod].constants[name])
        if mod in self.classes and name in self.classes[mod].members:
            return ("member", self.classes[mod], name,
                    self.classes[mod].members[name])
        return None

    def mro(self, c: Class) -> List[Class]:
        out, seen = [], set()

        def rec(k: Class):
            if k.qualname in seen:
                return
            seen.add(k.qualname)
            out.append(k)
            for b in k.bases:
                if b in self.classes:
                    rec(self.classes[b])
        rec(c)
        return out

    def find_method(self, c: Class, name: str,
                    after: Optional[Class] = None) -> Optional[Function]:
        mro = self.mro(c)
        if after is not None:
            names = [k.qualname for k in mro]
            if after.qualname in names:
                mro = mro[names.index(after.qualname) + 1:]
        for k in mro:
            if name in k.methods:
                return k.methods[name]
        return None

    def is_subclass(self, cq: str, baseq: str) -> bool:
        c = self.classes.get(cq)
        if c is None:
            return False
        return any(k.qualname == baseq for k in self.mro(c))

    def enum_members(self, cq: str) -> Optional[List[str]]:
        c = self.classes.get(cq)
        if c is None:
            return None
        if not any(b.endswith("Enum") for b in c.bases):
            return None
        return list(c.members.keys())

    def func(self, q: str) -> Function:
        f = self.functions.get(self.canonical(q))
        if f is None:
            raise AnalysisError(f"anchor function vanished: {q}")
        return f

    def method(self, q: str) -> Tuple[Function, Class]:
        """the function that `Class.name` executes — defined in the class or
        inherited — and the class of the receiver"""
        cq, _, name = q.rpartition(".")
        c = self.cls(cq)
        f = self.find_method(c, name)
        if f is None:
            raise AnalysisError(f"anchor function vanished: {q}")
        return f, c

    def cls(self, q: str) -> Class:
        c = self.classes.get(self.canonical(q))
        if c is None:
            raise AnalysisError(f"anchor class vanished: {q}")
        return c

    def module(self, q: str) -> Module:
        m = self.modules.get(q)
        if m is None:
            raise AnalysisError(f"anchor module vanished: {q}")
        return m

    def methods_named(self, name: str) -> List[Function]:
        return [f for f in self.functions.values()
                if f.cls is not None and f.name == name]

    def stats(self) -> dict:
        return {"modules": len(self.modules),
                "functions": len(self.functions),
                "classes": len(self.classes)}
