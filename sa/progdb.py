"""E-RES: program database for /repo/evo (stdlib ast only).

Parses every module of the package from the *current working tree*, builds
per-module symbol tables (imports, functions, classes, constants) and offers
name / attribute / callee resolution.  Nothing of evo is imported or run.
"""
from __future__ import annotations

import ast
import os
from dataclasses import dataclass, field
from typing import Dict, List, Optional, Tuple

REPO = os.environ.get("EVO_REPO", "/repo")


class AnalysisError(Exception):
    """The analysis itself cannot proceed (anchor vanished, unknown idiom).
    Never a verdict about evo: reported as ANALYSIS-ERROR, exit code 2."""


@dataclass
class Function:
    qualname: str            # evo.core.trajectory.PosePath3D.project
    name: str
    node: ast.AST            # FunctionDef / Lambda
    module: "Module"
    cls: Optional["Class"] = None
    decorators: Tuple[str, ...] = ()

    @property
    def is_property(self) -> bool:
        return "property" in self.decorators

    @property
    def is_static(self) -> bool:
        return "staticmethod" in self.decorators

    @property
    def params(self) -> List[str]:
        a = self.node.args
        return [x.arg for x in a.posonlyargs + a.args]

    @property
    def kwonly(self) -> List[str]:
        return [x.arg for x in self.node.args.kwonlyargs]

    def defaults(self) -> Dict[str, ast.AST]:
        a = self.node.args
        pos = a.posonlyargs + a.args
        out = {}
        for p, d in zip(pos[len(pos) - len(a.defaults):], a.defaults):
            out[p.arg] = d
        for p, d in zip(a.kwonlyargs, a.kw_defaults):
            if d is not None:
                out[p.arg] = d
        return out

    def annotation(self, param: str) -> Optional[ast.AST]:
        a = self.node.args
        for p in a.posonlyargs + a.args + a.kwonlyargs:
            if p.arg == param:
                return p.annotation
        return None

    @property
    def file(self) -> str:
        return self.module.relpath

    @property
    def lineno(self) -> int:
        return self.node.lineno

    def __repr__(self):
        return f"<Function {self.qualname}>"


@dataclass
class Class:
    qualname: str
    name: str
    node: ast.ClassDef
    module: "Module"
    bases: List[str] = field(default_factory=list)   # resolved qualnames
    methods: Dict[str, Function] = field(default_factory=dict)
    members: Dict[str, ast.AST] = field(default_factory=dict)  # class attrs
    setters: Dict[str, Function] = field(default_factory=dict)  # @x.setter

    def __repr__(self):
        return f"<Class {self.qualname}>"


@dataclass
class Module:
    name: str                # evo.core.trajectory
    path: str
    relpath: str
    tree: ast.Module
    source: str
    imports: Dict[str, str] = field(default_factory=dict)  # alias -> dotted
    functions: Dict[str, Function] = field(default_factory=dict)
    classes: Dict[str, Class] = field(default_factory=dict)
    constants: Dict[str, ast.AST] = field(default_factory=dict)

    def line(self, n: int) -> str:
        ls = self.source.splitlines()
        return ls[n - 1] if 0 < n <= len(ls) else ""


def _dec_names(node) -> Tuple[str, ...]:
    out = []
    for d in getattr(node, "decorator_list", []):
        try:
            out.append(ast.unparse(d).split("(")[0].split(".")[-1])
        except Exception:
            pass
    return tuple(out)


class Program:
    def __init__(self, root: str = REPO, packages=("evo",), extra_dirs=()):
        self.root = root
        self.modules: Dict[str, Module] = {}
        self.functions: Dict[str, Function] = {}
        self.classes: Dict[str, Class] = {}
        for pkg in packages:
            pdir = os.path.join(root, pkg)
            if not os.path.isdir(pdir):
                raise AnalysisError(f"package directory missing: {pdir}")
            for dirpath, dirnames, filenames in os.walk(pdir):
                dirnames[:] = [d for d in dirnames if d != "__pycache__"]
                for fn in sorted(filenames):
                    if fn.endswith(".py"):
                        self._load(os.path.join(dirpath, fn))
        for d in extra_dirs:
            ddir = os.path.join(root, d)
            if os.path.isdir(ddir):
                for fn in sorted(os.listdir(ddir)):
                    if fn.endswith(".py"):
                        self._load(os.path.join(ddir, fn))
        for m in self.modules.values():
            self._index(m)
        for c in self.classes.values():
            self._resolve_bases(c)
        self._expand_decorators()

    # ------------------------------------------------- decorators looked through
    def _expand_decorators(self) -> None:
        """A function whose only decorator is a plain wrapper of the program

            def deco(fn):
                @functools.wraps(fn)
                def wrapper(a, b, *args, **kwargs):
                    <statements that do not mention fn / args / kwargs>
                    return fn(a, b, *args, **kwargs)
                return wrapper

        is the function with those statements in front of its body (the
        wrapper's named parameters are the function's leading parameters).
        Anything else stays a decorated function, which the rules treat as
        not looked through."""
        import copy
        for f in list(self.functions.values()):
            node = f.node
            decs = getattr(node, "decorator_list", None)
            if not decs or len(decs) != 1 or not isinstance(
                    decs[0], ast.Name):
                continue
            d = f.module.functions.get(decs[0].id)
            if d is None or d is f or d.node.decorator_list:
                continue
            pre = self._wrapper_prologue(d, f)
            if pre is None:
                adapted = self._wrapper_adapter(d, f)
                if adapted is None:
                    continue
                pre, node.args = adapted
            doc = []
            body = list(node.body)
            if body and isinstance(body[0], ast.Expr) and isinstance(
                    body[0].value, ast.Constant) and isinstance(
                    body[0].value.value, str):
                doc, body = body[:1], body[1:]
            node.body = doc + pre + body
            node.decorator_list = []
            f.decorators = ()
            f.expanded_decorator = d.qualname

    @staticmethod
    def _wrapper_prologue(d: Function, f: Function):
        import copy
        a = d.node.args
        if len(a.posonlyargs + a.args) != 1 or a.vararg or a.kwarg or \
                a.kwonlyargs or a.defaults:
            return None
        fn_name = (a.posonlyargs + a.args)[0].arg
        body = [st for st in d.node.body if not (
            isinstance(st, ast.Expr) and isinstance(st.value, ast.Constant))]
        if len(body) != 2 or not isinstance(body[0], ast.FunctionDef) or \
                not (isinstance(body[1], ast.Return) and isinstance(
                    body[1].value, ast.Name) and
                    body[1].value.id == body[0].name):
            return None
        w = body[0]
        for dec in w.decorator_list:
            if not (isinstance(dec, ast.Call) and ast.unparse(
                    dec.func).split(".")[-1] == "wraps"):
                return None
        wa = w.args
        if wa.kwonlyargs or wa.defaults or wa.posonlyargs:
            return None
        named = [x.arg for x in wa.args]
        fparams = f.params
        if len(named) > len(fparams):
            return None
        wbody = [st for st in w.body if not (
            isinstance(st, ast.Expr) and isinstance(st.value, ast.Constant)
            and isinstance(st.value.value, str))]
        if not wbody or not isinstance(wbody[-1], ast.Return):
            return None
        call = wbody[-1].value
        if not (isinstance(call, ast.Call) and isinstance(call.func, ast.Name)
                and call.func.id == fn_name):
            return None
        # the call hands the wrapper's parameters on, in order
        want = [("n", x) for x in named]
        if wa.vararg:
            want.append(("*", wa.vararg.arg))
        got = []
        for x in call.args:
            if isinstance(x, ast.Name):
                got.append(("n", x.id))
            elif isinstance(x, ast.Starred) and isinstance(x.value, ast.Name):
                got.append(("*", x.value.id))
            else:
                return None
        kw_ok = (len(call.keywords) == 1 and call.keywords[0].arg is None and
                 isinstance(call.keywords[0].value, ast.Name) and wa.kwarg and
                 call.keywords[0].value.id == wa.kwarg.arg) or \
            (not call.keywords and not wa.kwarg)
        if got != want or not kw_ok:
            return None
        if (len(named) < len(fparams) or f.kwonly) and not (
                wa.vararg and wa.kwarg):
            return None
        rename = dict(zip(named, fparams))
        hidden = {fn_name, w.name}
        if wa.vararg:
            hidden.add(wa.vararg.arg)
        if wa.kwarg:
            hidden.add(wa.kwarg.arg)
        pre = [copy.deepcopy(st) for st in wbody[:-1]]
        fp_all = set(fparams) | set(f.kwonly)
        va, ka = f.node.args.vararg, f.node.args.kwarg
        if va:
            fp_all.add(va.arg)
        if ka:
            fp_all.add(ka.arg)
        for st in pre:
            for x in ast.walk(st):
                if isinstance(x, (ast.FunctionDef, ast.AsyncFunctionDef,
                                  ast.Lambda, ast.ClassDef, ast.Yield,
                                  ast.YieldFrom, ast.Global, ast.Nonlocal,
                                  ast.Await)):
                    return None
                if isinstance(x, ast.Name):
                    if x.id in hidden:
                        return None
                    if x.id in rename:
                        x.id = rename[x.id]
                        if isinstance(x.ctx, (ast.Store, ast.Del)):
                            return None      # re-binds a parameter
                    elif isinstance(x.ctx, (ast.Store, ast.Del)) and \
                            x.id in fp_all:
                        return None          # would clobber a parameter
                    elif isinstance(x.ctx, ast.Load) and x.id in fp_all and \
                            x.id not in rename.values():
                        return None          # a global of that name, hidden
                        #                      by the function's parameter
        return pre

    @staticmethod
    def _wrapper_adapter(d: Function, f: Function):
        """the wrapper has its own signature and computes the function's
        arguments first:

            def wrapper(self, data):
                <statements>; a, b = data
                return fn(self, a, b)

        -> (statements, wrapper's signature), when the call names exactly the
        function's parameters (after a consistent renaming)"""
        import copy
        a = d.node.args
        if len(a.posonlyargs + a.args) != 1 or a.vararg or a.kwarg or \
                a.kwonlyargs or a.defaults:
            return None
        fn_name = (a.posonlyargs + a.args)[0].arg
        body = [st for st in d.node.body if not (
            isinstance(st, ast.Expr) and isinstance(st.value, ast.Constant))]
        if len(body) != 2 or not isinstance(body[0], ast.FunctionDef) or \
                not (isinstance(body[1], ast.Return) and isinstance(
                    body[1].value, ast.Name) and
                    body[1].value.id == body[0].name):
            return None
        w = body[0]
        for dec in w.decorator_list:
            if not (isinstance(dec, ast.Call) and ast.unparse(
                    dec.func).split(".")[-1] == "wraps"):
                return None
        wa = w.args
        if wa.vararg or wa.kwarg or wa.kwonlyargs or wa.posonlyargs:
            return None
        fa = f.node.args
        if fa.vararg or fa.kwarg or fa.kwonlyargs or fa.defaults or \
                fa.posonlyargs:
            return None
        wbody = [st for st in w.body if not (
            isinstance(st, ast.Expr) and isinstance(st.value, ast.Constant)
            and isinstance(st.value.value, str))]
        if not wbody or not isinstance(wbody[-1], ast.Return):
            return None
        call = wbody[-1].value
        if not (isinstance(call, ast.Call) and isinstance(call.func, ast.Name)
                and call.func.id == fn_name) or call.keywords or \
                not all(isinstance(x, ast.Name) for x in call.args):
            return None
        fparams = f.params
        given = [x.id for x in call.args]
        if len(given) != len(fparams) or len(set(given)) != len(given):
            return None
        rename = {g: p_ for g, p_ in zip(given, fparams) if g != p_}
        pre = [copy.deepcopy(st) for st in wbody[:-1]]
        wargs = copy.deepcopy(wa)
        used = {x.id for st in pre for x in ast.walk(st)
                if isinstance(x, ast.Name)} | {x.arg for x in wargs.args}
        if any(t in used for t in rename.values()):
            return None              # the new name already means something
        if fn_name in used or w.name in used:
            return None
        for st in pre:
            for x in ast.walk(st):
                if isinstance(x, (ast.FunctionDef, ast.AsyncFunctionDef,
                                  ast.Lambda, ast.ClassDef, ast.Yield,
                                  ast.YieldFrom, ast.Global, ast.Nonlocal,
                                  ast.Await)):
                    return None
                if isinstance(x, ast.Name) and x.id in rename:
                    x.id = rename[x.id]
        for x in wargs.args:
            if x.arg in rename:
                x.arg = rename[x.arg]
        # every parameter of the function is bound when its body starts
        bound = {x.arg for x in wargs.args} | {
            x.id for st in pre for x in ast.walk(st)
            if isinstance(x, ast.Name) and isinstance(x.ctx, ast.Store)}
        if not set(fparams) <= bound:
            return None
        return pre, wargs

    # ------------------------------------------------------------------ load
    def _load(self, path: str) -> None:
        rel = os.path.relpath(path, self.root)
        name = rel[:-3].replace(os.sep, ".")
        if name.endswith(".__init__"):
            name = name[:-9]
        with open(path, encoding="utf-8") as f:
            src = f.read()
        try:
            tree = ast.parse(src, filename=path)
        except SyntaxError as e:
            raise AnalysisError(f"cannot parse {rel}: {e}")
        self.modules[name] = Module(name, path, rel, tree, src)

    def _index(self, m: Module) -> None:
        for node in m.tree.body:
            self._index_stmt(m, node)

    def _index_stmt(self, m: Module, node: ast.AST) -> None:
        if isinstance(node, ast.Import):
            for a in node.names:
                if a.asname:
                    m.imports[a.asname] = a.name
                else:
                    m.imports[a.name.split(".")[0]] = a.name.split(".")[0]
        elif isinstance(node, ast.ImportFrom):
            base = node.module or ""
            if node.level:
                parts = m.name.split(".")
                if not m.path.endswith("__init__.py"):
                    parts = parts[:-1]
                parts = parts[:len(parts) - (node.level - 1)]
                base = ".".join(parts + ([node.module] if node.module else []))
            for a in node.names:
                m.imports[a.asname or a.name] = f"{base}.{a.name}"
        elif isinstance(node, (ast.FunctionDef, ast.AsyncFunctionDef)):
            f = Function(f"{m.name}.{node.name}", node.name, node, m, None,
                         _dec_names(node))
            m.functions[node.name] = f
            self.functions[f.qualname] = f
        elif isinstance(node, ast.ClassDef):
            c = Class(f"{m.name}.{node.name}", node.name, node, m)
            for sub in node.body:
                if isinstance(sub, (ast.FunctionDef, ast.AsyncFunctionDef)):
                    decs = _dec_names(sub)
                    if "setter" in decs or "deleter" in decs:
                        # @name.setter / @name.deleter: kept apart, the
                        # method of that name stays the property getter
                        kind = "setter" if "setter" in decs else "deleter"
                        f = Function(f"{c.qualname}.{sub.name}.{kind}",
                                     sub.name, sub, m, c, decs)
                        if kind == "setter":
                            c.setters[sub.name] = f
                        self.functions[f.qualname] = f
                        continue
                    f = Function(f"{c.qualname}.{sub.name}", sub.name, sub, m,
                                 c, decs)
                    c.methods[sub.name] = f
                    self.functions[f.qualname] = f
                elif isinstance(sub, ast.Assign):
                    for t in sub.targets:
                        if isinstance(t, ast.Name):
                            c.members[t.id] = sub.value
                elif isinstance(sub, ast.AnnAssign) and sub.value is not None \
                        and isinstance(sub.target, ast.Name):
                    c.members[sub.target.id] = sub.value
            m.classes[node.name] = c
            self.classes[c.qualname] = c
        elif isinstance(node, ast.Assign):
            for t in node.targets:
                if isinstance(t, ast.Name):
                    m.constants[t.id] = node.value
        elif isinstance(node, ast.AnnAssign):
            if isinstance(node.target, ast.Name) and node.value is not None:
                m.constants[node.target.id] = node.value
        elif isinstance(node, (ast.If, ast.Try)):
            # module-level conditional definitions (rare): index both arms
            for sub in ast.iter_child_nodes(node):
                if isinstance(sub, ast.stmt):
                    self._index_stmt(m, sub)

    def _resolve_bases(self, c: Class) -> None:
        for b in c.node.bases:
            try:
                dotted = ast.unparse(b)
            except Exception:
                continue
            q = self.resolve_dotted(c.module, dotted)
            c.bases.append(q or dotted)

    # ------------------------------------------------------------- resolution
    def resolve_dotted(self, m: Module, dotted: str,
                       local_imports: Optional[Dict[str, str]] = None
                       ) -> Optional[str]:
        """Resolve a dotted name used in module m to a global qualified name
        ('evo.core.lie_algebra.se3', 'numpy.linalg.norm', ...)."""
        parts = dotted.split(".")
        head = parts[0]
        imports = dict(m.imports)
        if local_imports:
            imports.update(local_imports)
        if head in m.functions and len(parts) == 1 and \
                not (local_imports and head in local_imports):
            return m.functions[head].qualname
        if head in m.classes and not (local_imports and head in local_imports):
            return ".".join([m.classes[head].qualname] + parts[1:])
        if head in imports:
            return self.canonical(".".join([imports[head]] + parts[1:]))
        if head in m.constants:
            return ".".join([m.name, head] + parts[1:])
        return None

    def canonical(self, q: str, depth: int = 0) -> str:
        """Follow re-exports: 'evo.core.metrics.Unit' -> 'evo.core.units.Unit'."""
        if depth > 8:
            return q
        if q in self.functions or q in self.classes or q in self.modules:
            return q
        parts = q.split(".")
        for i in range(len(parts) - 1, 0, -1):
            mod = ".".join(parts[:i])
            if mod in self.modules:
                m = self.modules[mod]
                nxt = parts[i]
                rest = parts[i + 1:]
                if nxt in m.functions or nxt in m.classes or \
                        nxt in m.constants:
                    return q
                if nxt in m.imports:
                    return self.canonical(
                        ".".join([m.imports[nxt]] + rest), depth + 1)
                return q
        return q

    def lookup(self, q: str):
        """qualified name -> Function | Class | Module | ('const', Module,
        name, node) | ('member', Class, name, node) | None"""
        q = self.canonical(q)
        if q in self.functions:
            return self.functions[q]
        if q in self.classes:
            return self.classes[q]
        if q in self.modules:
            return self.modules[q]
        mod, _, name = q.rpartition(".")
        if mod in self.modules and name in self.modules[mod].constants:
            return ("const", self.modules[mod], name,
                    self.modules[mod].constants[name])
        if mod in self.classes and name in self.classes[mod].members:
            return ("member", self.classes[mod], name,
                    self.classes[mod].members[name])
        return None

    def mro(self, c: Class) -> List[Class]:
        out, seen = [], set()

        def rec(k: Class):
            if k.qualname in seen:
                return
            seen.add(k.qualname)
            out.append(k)
            for b in k.bases:
                if b in self.classes:
                    rec(self.classes[b])
        rec(c)
        return out

    def find_method(self, c: Class, name: str,
                    after: Optional[Class] = None) -> Optional[Function]:
        mro = self.mro(c)
        if after is not None:
            names = [k.qualname for k in mro]
            if after.qualname in names:
                mro = mro[names.index(after.qualname) + 1:]
        for k in mro:
            if name in k.methods:
                return k.methods[name]
        return None

    def is_subclass(self, cq: str, baseq: str) -> bool:
        c = self.classes.get(cq)
        if c is None:
            return False
        return any(k.qualname == baseq for k in self.mro(c))

    def enum_members(self, cq: str) -> Optional[List[str]]:
        c = self.classes.get(cq)
        if c is None:
            return None
        if not any(b.endswith("Enum") for b in c.bases):
            return None
        return list(c.members.keys())

    def func(self, q: str) -> Function:
        f = self.functions.get(self.canonical(q))
        if f is None:
            # a method that moved up into a base class / mixin of its class:
            # what `Class.name` executes
            cq, _, name = self.canonical(q).rpartition(".")
            c = self.classes.get(cq)
            if c is not None:
                f = self.find_method(c, name)
        if f is None:
            raise AnalysisError(f"anchor function vanished: {q}")
        return f

    def method(self, q: str) -> Tuple[Function, Class]:
        """the function that `Class.name` executes — defined in the class or
        inherited — and the class of the receiver"""
        cq, _, name = q.rpartition(".")
        c = self.cls(cq)
        f = self.find_method(c, name)
        if f is None:
            raise AnalysisError(f"anchor function vanished: {q}")
        return f, c

    def cls(self, q: str) -> Class:
        c = self.classes.get(self.canonical(q))
        if c is None:
            raise AnalysisError(f"anchor class vanished: {q}")
        return c

    def module(self, q: str) -> Module:
        m = self.modules.get(q)
        if m is None:
            raise AnalysisError(f"anchor module vanished: {q}")
        return m

    def methods_named(self, name: str) -> List[Function]:
        return [f for f in self.functions.values()
                if f.cls is not None and f.name == name]

    def stats(self) -> dict:
        return {"modules": len(self.modules),
                "functions": len(self.functions),
                "classes": len(self.classes)}
