"""E-LAY: layout algebra for fixed-width arrays.

Abstract value of an n x k array: the tuple of *column labels* it carries (or
None = unknown).  Transfer functions exist for exactly the operations evo's
I/O code uses: constant slices / single columns on axis 1, np.roll with a
constant shift on axis 1, np.column_stack, np.divide by a constant (keeps the
label, records the scale), list/array literals of columns, row-major
flatten() of a 4x4 matrix with a constant tail slice.
"""
from __future__ import annotations

from typing import Callable, Dict, List, Optional, Tuple

from . import terms as tm
from .lib import is_call_to
from .terms import T

ALL = T("slice", tm.NONE, tm.NONE, tm.NONE)


class LayoutError(Exception):
    pass


def _const_int(t: T) -> Optional[int]:
    if tm.is_const(t) and isinstance(t.args[1], int) and \
            not isinstance(t.args[1], bool):
        return t.args[1]
    return None


def _slice(labels: tuple, sl: T, width_known: bool):
    lo, hi, st = sl.args
    if not tm.is_const(st, None):
        raise LayoutError("stepped column slice")
    a = 0 if tm.is_const(lo, None) else _const_int(lo)
    b = None if tm.is_const(hi, None) else _const_int(hi)
    if a is None or (b is None and not tm.is_const(hi, None)):
        raise LayoutError("non-constant column slice")
    if b is None and not width_known:
        raise LayoutError("open-ended slice on a table of unknown width")
    if not width_known and b is not None and b > len(labels) and a >= 0:
        # the table may have more columns than the labelled ones: a slice
        # that reaches beyond them picks up further, unnamed columns
        return labels[a:b] + tuple(f"col{k}" for k in
                                   range(max(a, len(labels)), b))
    if b is not None and b < 0 and not width_known:
        raise LayoutError("negative slice end on a table of unknown width")
    return labels[a:b]


class Layout:
    """evaluates the column layout of a term.
    `base(term)` returns the label tuple of a source array term (or None);
    `width_known` says whether open-ended slices on sources are allowed."""

    def __init__(self, base: Callable[[T], Optional[tuple]],
                 width_known: bool = True):
        self.base = base
        self.width_known = width_known
        self.scales: Dict[object, object] = {}
        self.row_ops: List[str] = []

    def cols(self, t: T) -> tuple:
        b = self.base(t)
        if b is not None:
            return tuple(b)
        if t.op == "sub":
            idx = t.args[1]
            inner = self.cols(t.args[0])
            if idx.op == "tuple" and len(idx.args) == 2:
                rows, c = idx.args
                if rows is not ALL:
                    self.row_ops.append(f"row selection {tm.show(rows)}")
                k = _const_int(c)
                if k is not None:
                    return (inner[k],)
                if c.op == "slice":
                    # a table cut to an explicit end has a known width, and
                    # so has anything derived from one
                    known = self.width_known or self._closed(t.args[0])
                    return _slice(inner, c, known)
                raise LayoutError(f"column index {tm.show(c)}")
            if idx.op == "slice" or _const_int(idx) is not None:
                # selection on axis 0 of a 2-D table = rows
                self.row_ops.append(f"row selection {tm.show(idx)}")
                return inner
            if idx.op in ("call", "cmp", "unop", "attr"):
                # boolean mask / index array on axis 0: rows are selected
                self.row_ops.append(f"row selection {tm.show(idx)[:60]}")
                return inner
            raise LayoutError(f"subscript {tm.show(idx)}")
        if t.op == "ite":
            a, b = self.cols(t.args[1]), self.cols(t.args[2])
            if a != b:
                raise LayoutError("alternatives with different layouts")
            return a
        if is_call_to(t, "numpy.roll") and len(t.args[1]) >= 2:
            inner = self.cols(t.args[1][0])
            n = _const_int(t.args[1][1])
            kw = dict(t.args[2])
            ax = kw.get("axis", t.args[1][2] if len(t.args[1]) > 2 else None)
            if n is None or ax is None or _const_int(ax) != 1:
                raise LayoutError("np.roll without constant shift on axis 1")
            n %= len(inner)
            return inner[-n:] + inner[:-n] if n else inner
        if is_call_to(t, "numpy.column_stack", "numpy.hstack") and \
                t.args[1] and t.args[1][0].op in ("tuple", "list"):
            out = ()
            for p in t.args[1][0].args:
                out += self.cols(p)
            return out
        if is_call_to(t, "numpy.divide", "numpy.multiply") and \
                len(t.args[1]) == 2 and tm.is_const(t.args[1][1]):
            inner = self.cols(t.args[1][0])
            if t.args[1][1].args[1] in (1, 1.0) and \
                    t.args[1][1].args[1] is not True:
                return inner         # x / 1.0 and x * 1.0 are x, exactly
            for lab in inner:
                self.scales[lab] = (tm.callee_name(t), t.args[1][1].args[1])
            return inner
        if t.op == "binop" and t.args[0] in ("Div", "Mult") and \
                tm.is_const(t.args[2]):
            inner = self.cols(t.args[1])
            if t.args[2].args[1] in (1, 1.0) and \
                    t.args[2].args[1] is not True:
                return inner
            for lab in inner:
                self.scales[lab] = (t.args[0], t.args[2].args[1])
            return inner
        if is_call_to(t, "numpy.array", "numpy.asarray") and t.args[1]:
            return self.cols(t.args[1][0])
        if t.op in ("list", "tuple"):
            out = ()
            for p in t.args:
                c = self.cols(p)
                if len(c) != 1:
                    raise LayoutError("literal of multi-column parts")
                out += c
            return out
        raise LayoutError(f"operation not in the layout algebra: "
                          f"{tm.show(t)[:120]}")


def _closed_term(self, t: T) -> bool:
    """the term's column count is fixed by an explicit slice end somewhere
    on the way from the source table"""
    seen = 0
    while isinstance(t, T) and seen < 12:
        seen += 1
        if t.op == "named":
            t = t.args[1]
            continue
        if t.op == "sub":
            idx = t.args[1]
            if idx.op == "tuple" and len(idx.args) == 2 and \
                    idx.args[1].op == "slice" and \
                    _const_int(idx.args[1].args[1]) is not None and \
                    _const_int(idx.args[1].args[1]) >= 0:
                return True
            t = t.args[0]
            continue
        if is_call_to(t, "numpy.roll", "numpy.array", "numpy.asarray") and \
                t.args[1]:
            t = t.args[1][0]
            continue
        return False
    return False


Layout._closed = _closed_term


def labelled(n: int, prefix="c") -> tuple:
    return tuple(f"{prefix}{i}" for i in range(n))
