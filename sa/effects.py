"""E-EFF: aliasing roots, freshness and bottom-up mutation summaries."""
from __future__ import annotations

import ast
from typing import Dict, List, Optional, Set, Tuple

from . import terms as tm
from .interp import Event, Result
from .progdb import Function, Program
from .terms import T

# calls whose result may share storage with their first argument / receiver
ALIAS_FUNCS = {
    "numpy.asarray", "numpy.asanyarray", "numpy.ascontiguousarray",
    "numpy.asfarray", "numpy.ravel", "numpy.reshape", "numpy.squeeze",
    "numpy.transpose", "numpy.atleast_1d", "numpy.atleast_2d",
    "numpy.atleast_3d", "numpy.swapaxes", "numpy.moveaxis", "numpy.diagonal",
    "numpy.real", "numpy.expand_dims", "numpy.broadcast_to",
    "numpy.require", "builtins.iter", "builtins.reversed", "builtins.zip",
    "builtins.enumerate", "itertools.chain", "builtins.next",
    "typing.cast",
}
ALIAS_METHODS = {
    ".T", ".transpose", ".reshape", ".ravel", ".view", ".squeeze",
    ".swapaxes", ".values", ".to_numpy", ".items", ".keys", ".get",
    ".__iter__", ".real", ".diagonal", ".setdefault", ".pop",
}
# np.array(x, copy=False) aliases; handled explicitly
INPLACE_FUNCS = {          # function -> indices of mutated arguments
    "numpy.put": (0,), "numpy.place": (0,), "numpy.putmask": (0,),
    "numpy.fill_diagonal": (0,), "numpy.copyto": (0,),
    "random.shuffle": (0,), "numpy.random.shuffle": (0,),
    "builtins.setattr": (0,), "builtins.delattr": (0,),
    "numpy.ndarray.sort": (0,), "heapq.heappush": (0,),
}
SCALAR_ANN = {"int", "float", "str", "bool", "complex",
              "typing.Optional[float]", "typing.Optional[int]",
              "Optional[float]", "Optional[int]"}


def roots(t: T, depth: int = 0) -> Set[Tuple[str, str]]:
    """owners whose storage the value of t may share:
    ('param', name) / ('global', qualname)"""
    if depth > 60 or not isinstance(t, T):
        return set()
    o = t.op
    if o == "param":
        return {("param", t.args[0])}
    if o in ("global", "named"):
        return {("global", t.args[0])}
    if o in ("sub", "elem"):
        # an element of a container: shares storage with the container's
        # owner and — when the container is a *shallow* copy — with the
        # elements of what it was copied from
        return roots(t.args[0], depth + 1) | \
            _shallow_elements(t.args[0], depth + 1)
    if o == "attr":
        # a field of a shallow copy (copy.copy / dataclasses.replace) is the
        # original's field object
        return roots(t.args[0], depth + 1) | \
            _shallow_elements(t.args[0], depth + 1)
    if o in ("upd", "mut", "star"):
        return roots(t.args[0], depth + 1)
    if o == "ite":
        return roots(t.args[1], depth + 1) | roots(t.args[2], depth + 1)
    if o == "loopvar":
        return roots(t.args[2], depth + 1)
    if o == "loopout":
        return roots(t.args[2], depth + 1) | roots(t.args[3], depth + 1)
    if o == "boolop":
        out = set()
        for x in t.args[1]:
            out |= roots(x, depth + 1)
        return out
    if o == "call":
        n = tm.callee_name(t) or ""
        if n in ALIAS_FUNCS and t.args[1]:
            out = set()
            for a in (t.args[1] if n in ("builtins.zip", "itertools.chain")
                      else t.args[1][:1]):
                out |= roots(a, depth + 1)
            return out
        if n == "numpy.array" and any(
                k == "copy" and tm.is_const(v, False) for k, v in t.args[2]):
            return roots(t.args[1][0], depth + 1) if t.args[1] else set()
        if n in ALIAS_METHODS:
            r = tm.method_recv(t)
            return roots(r, depth + 1) if r is not None else set()
        return set()            # fresh (A2: unknown calls return new storage)
    return set()                # literals, arithmetic, comprehensions: fresh


SHALLOW_COPIERS = ("builtins.dict", "builtins.list", "builtins.tuple",
                   "builtins.set", "copy.copy", "builtins.sorted",
                   "builtins.reversed", "dataclasses.replace")


# attributes of evo's trajectory / result objects that hold numpy arrays
NDARRAY_ATTRS = {"positions_xyz", "orientations_quat_wxyz", "timestamps",
                 "_positions_xyz", "_orientations_quat_wxyz", "distances",
                 "speeds", "error"}


def _is_ndarray(t: T, depth: int = 0) -> bool:
    """the value is a numpy array of numbers (by provenance)"""
    if depth > 20 or not isinstance(t, T):
        return False
    if t.op == "attr":
        return t.args[1] in NDARRAY_ATTRS
    if t.op in ("sub", "named"):
        return _is_ndarray(t.args[-1] if t.op == "named" else t.args[0],
                           depth + 1)
    if t.op == "binop":
        return _is_ndarray(t.args[1], depth + 1) or \
            _is_ndarray(t.args[2], depth + 1)
    if t.op == "call":
        n = tm.callee_name(t) or ""
        if n.startswith("numpy.") and n not in ("numpy.array",
                                                "numpy.asarray"):
            return True
        if n in ALIAS_METHODS or n == ".copy":
            r = tm.method_recv(t)
            return r is not None and _is_ndarray(r, depth + 1)
    return False


def _shallow_elements(c: T, depth: int = 0) -> Set[Tuple[str, str]]:
    """owners of the elements held by container value c when c is (a view
    of) a shallow copy: dict(x), list(x), x.copy(), copy.copy(x)"""
    if depth > 60 or not isinstance(c, T):
        return set()
    o = c.op
    if o in ("sub", "elem", "named", "star", "attr"):
        return _shallow_elements(c.args[-1] if o == "named" else c.args[0],
                                 depth + 1)
    if o == "loopvar":
        return _shallow_elements(c.args[2], depth + 1)
    if o == "loopout":
        return _shallow_elements(c.args[2], depth + 1) | \
            _shallow_elements(c.args[3], depth + 1)
    if o in ("upd", "mut"):
        return _shallow_elements(c.args[0], depth + 1)
    if o == "ite":
        return _shallow_elements(c.args[1], depth + 1) | \
            _shallow_elements(c.args[2], depth + 1)
    if o == "call":
        n = tm.callee_name(c) or ""
        if n in (".items", ".values", ".keys", ".get"):
            r = tm.method_recv(c)
            return _shallow_elements(r, depth + 1) if r is not None else set()
        if n in SHALLOW_COPIERS and c.args[1]:
            return roots(c.args[1][0], depth + 1) | \
                _shallow_elements(c.args[1][0], depth + 1)
        if n == ".copy":
            r = tm.method_recv(c)
            if r is not None and _is_ndarray(r):
                return set()     # ndarray.copy(): new numbers, nothing shared
            # dict.copy / list.copy are shallow (ndarray.copy is a deep
            # copy of numbers: its elements have no identity to share)
            return (roots(r, depth + 1) | _shallow_elements(r, depth + 1)) \
                if r is not None else set()
    return set()


def element_roots(t: T) -> Set[Tuple[str, str]]:
    """owners whose *elements* a container value may share (a new list built
    from another container's elements)"""
    out = set()
    if not isinstance(t, T):
        return out
    if t.op == "comp":
        out |= roots(t.args[1])
    elif t.op in ("list", "tuple"):
        for x in t.args:
            out |= roots(x)
    elif t.op == "ite":
        out |= element_roots(t.args[1]) | element_roots(t.args[2])
    return out


class Effect:
    __slots__ = ("kind", "event", "target", "roots", "via")

    def __init__(self, kind, event, target, roots_, via=None):
        self.kind = kind
        self.event = event
        self.target = target
        self.roots = roots_
        self.via = via

    def __repr__(self):
        return f"<Effect {self.kind} {tm.show(self.target)[:60]} " \
               f"roots={sorted(self.roots)} @{self.event.where}>"


def _scalar_param(fn: Function, name: str) -> bool:
    ann = fn.annotation(name)
    if ann is None:
        d = fn.defaults().get(name)
        return isinstance(d, ast.Constant) and isinstance(
            d.value, (int, float, str, bool))
    try:
        return ast.unparse(ann) in SCALAR_ANN
    except Exception:
        return False


def direct_effects(res: Result) -> List[Effect]:
    out = []
    fn = res.func
    for e in res.events:
        if e.kind == "setattr":
            out.append(Effect("setattr:" + e.data["name"], e, e.data["base"],
                              roots(e.data["base"])))
        elif e.kind == "delattr":
            out.append(Effect("delattr:" + e.data["name"], e, e.data["base"],
                              roots(e.data["base"])))
        elif e.kind in ("setitem", "delitem"):
            out.append(Effect("setitem", e, e.data["base"],
                              roots(e.data["base"])))
        elif e.kind == "augassign":
            tgt = e.data["target"]
            tn = e.data.get("target_node")
            r = roots(tgt)
            if isinstance(tn, ast.Name) and tgt.op == "param" and \
                    _scalar_param(fn, tgt.args[0]):
                continue
            if isinstance(tn, ast.Name) and tgt.op in ("const",):
                continue
            out.append(Effect("inplace-op", e, tgt, r))
        elif e.kind == "call":
            n = e.data.get("name") or ""
            if e.data.get("mutates_recv"):
                out.append(Effect("inplace-method" + n, e, e.data["recv"],
                                  roots(e.data["recv"])))
            if n in INPLACE_FUNCS:
                for i in INPLACE_FUNCS[n]:
                    if i < len(e.data["args"]):
                        a = e.data["args"][i]
                        out.append(Effect("inplace-call:" + n, e, a,
                                          roots(a)))
            for k, v in e.data["kwargs"]:
                if k == "out":
                    out.append(Effect("out=", e, v, roots(v)))
                if k == "inplace" and tm.is_const(v, True) and \
                        e.data.get("recv") is not None:
                    out.append(Effect("inplace=True", e, e.data["recv"],
                                      roots(e.data["recv"])))
    return out


class Summaries:
    """which parameters (by name) each evo function may mutate"""

    def __init__(self, prog: Program, results: Dict[str, Result]):
        self.prog = prog
        self.results = results
        self.mut: Dict[str, Dict[str, List[Effect]]] = {}
        self.direct: Dict[str, List[Effect]] = {}
        for q, r in results.items():
            self.direct[q] = direct_effects(r)
        self._fix()

    def _fix(self):
        for q, effs in self.direct.items():
            d: Dict[str, List[Effect]] = {}
            for ef in effs:
                for (k, name) in ef.roots:
                    if k == "param":
                        d.setdefault(name, []).append(ef)
            self.mut[q] = d
        changed = True
        rounds = 0
        while changed and rounds < 20:
            changed = False
            rounds += 1
            for q, r in self.results.items():
                for e in r.of_kind("call"):
                    tgt: Optional[Function] = e.data.get("target")
                    if tgt is None or e.data.get("inlined"):
                        continue
                    callee_mut = self.mut.get(tgt.qualname, {})
                    # dynamic dispatch: overriding methods too
                    b = e.data.get("bound") or {}
                    for pname in list(callee_mut.keys()):
                        if pname not in b:
                            continue
                        for (k, name) in roots(b[pname]):
                            if k != "param":
                                continue
                            lst = self.mut[q].setdefault(name, [])
                            if not any(x.event is e and x.via ==
                                       (tgt.qualname, pname) for x in lst):
                                lst.append(Effect(
                                    "call:" + tgt.qualname, e, b[pname],
                                    {("param", name)},
                                    via=(tgt.qualname, pname)))
                                changed = True

    def mutated_params(self, q: str) -> Dict[str, List[Effect]]:
        return self.mut.get(q, {})

    def call_effects(self, res: Result) -> List[Effect]:
        """effects of a function through the evo functions it calls"""
        out = []
        for e in res.of_kind("call"):
            tgt = e.data.get("target")
            if tgt is None:
                continue
            b = e.data.get("bound") or {}
            for pname in self.mut.get(tgt.qualname, {}):
                if pname in b:
                    out.append(Effect("call:" + tgt.qualname, e, b[pname],
                                      roots(b[pname]),
                                      via=(tgt.qualname, pname)))
        return out
