"""Symbolic terms used by the abstract interpreter (sa/interp.py).

A term is an immutable tree (op, args).  Terms are *descriptions of how a value
is derived from the function's inputs* — the provenance lattice of DESIGN
section 3.3 with structure kept — never concrete runtime values of evo.
"""
from __future__ import annotations

import itertools
from typing import Any, Callable, Iterable, Iterator, Optional, Tuple


_INTERN: dict = {}


class T:
    """hash-consed term: structurally equal terms are the same object"""
    __slots__ = ("op", "args", "_h", "__weakref__")

    def __new__(cls, op: str, *args: Any):
        args = tuple(args)
        try:
            key = (op, args)
            h = hash(key)
        except TypeError:
            key = (op, repr(args))
            h = hash(key)
        t = _INTERN.get(key)
        if t is not None:
            return t
        t = object.__new__(cls)
        t.op = op
        t.args = args
        t._h = h
        _INTERN[key] = t
        return t

    def __eq__(self, other):
        return self is other

    def __ne__(self, other):
        return self is not other

    def __hash__(self):
        return self._h

    def __repr__(self):
        return show(self)

    # ------------------------------------------------------------ traversal
    def walk(self) -> Iterator["T"]:
        """every distinct subterm once (terms are DAGs)"""
        stack = [self]
        seen = set()
        while stack:
            t = stack.pop()
            if id(t) in seen:
                continue
            seen.add(id(t))
            yield t
            for a in t.args:
                _push(stack, a)

    def find(self, pred: Callable[["T"], bool]) -> Optional["T"]:
        for t in self.walk():
            if pred(t):
                return t
        return None

    def findall(self, pred: Callable[["T"], bool]):
        return [t for t in self.walk() if pred(t)]

    def contains(self, other: "T") -> bool:
        return any(t is other for t in self.walk())

    def map(self, fn: Callable[["T"], Optional["T"]], _memo=None) -> "T":
        """bottom-up rewrite; fn returns replacement or None"""
        if _memo is None:
            _memo = {}
        if id(self) in _memo:
            return _memo[id(self)]
        new_args = tuple(_map_arg(a, fn, _memo) for a in self.args)
        t = T(self.op, *new_args)
        r = fn(t)
        out = t if r is None else r
        _memo[id(self)] = out
        return out


def _push(stack, a):
    if isinstance(a, T):
        stack.append(a)
    elif isinstance(a, (tuple, list, frozenset)):
        for x in a:
            _push(stack, x)


def _map_arg(a, fn, memo):
    if isinstance(a, T):
        return a.map(fn, memo)
    if isinstance(a, tuple):
        return tuple(_map_arg(x, fn, memo) for x in a)
    if isinstance(a, frozenset):
        return frozenset(_map_arg(x, fn, memo) for x in a)
    return a


# ----------------------------------------------------------------- builders
def const(v) -> T:
    return T("const", type(v).__name__, v)


TRUE = const(True)
FALSE = const(False)
NONE = const(None)


def is_const(t, v=...) -> bool:
    if not (isinstance(t, T) and t.op == "const"):
        return False
    if v is ...:
        return True
    return t.args[1] == v and type(t.args[1]) is type(v)


def const_val(t):
    return t.args[1]


def param(name: str) -> T:
    return T("param", name)


def glob(dotted: str) -> T:
    return T("global", dotted)


def func(q: str) -> T:
    return T("func", q)


def cls(q: str) -> T:
    return T("cls", q)


def enum(cq: str, member: str) -> T:
    return T("enum", cq, member)


def attr(base: T, name: str) -> T:
    return T("attr", base, name)


def sub(base: T, index: T) -> T:
    return T("sub", base, index)


def call(fn: T, args=(), kwargs=()) -> T:
    return T("call", fn, tuple(args), tuple(kwargs))


def unknown(desc: str) -> T:
    return T("unknown", desc)


def ite(c: T, a: T, b: T) -> T:
    if a == b:
        return a
    if is_const(c):
        return a if const_val(c) else b
    # the same test nested in a branch is already decided there
    if a.op == "ite" and a.args[0] is c:
        a = a.args[1]
    if b.op == "ite" and b.args[0] is c:
        b = b.args[2]
    if a is b:
        return a
    return T("ite", c, a, b)


def mk_not(c: T) -> T:
    if is_const(c):
        return const(not const_val(c))
    if c.op == "not":
        return c.args[0]
    if c.op == "cmp" and c.args[0] in ("In", "NotIn", "Is", "IsNot"):
        # not (a in b) is a not in b; not (a is b) is a is not b
        # (== / != are left alone: rules reason about `x == y` and its
        # negation as one atom)
        flip = {"In": "NotIn", "NotIn": "In", "Is": "IsNot", "IsNot": "Is"}
        return T("cmp", flip[c.args[0]], c.args[1], c.args[2])
    return T("not", c)


def mk_and(*cs: T) -> T:
    out = []
    for c in cs:
        if is_const(c):
            if not const_val(c):
                return FALSE
            continue
        if c.op == "and":
            for x in c.args:
                if x not in out:
                    out.append(x)
        elif c not in out:
            out.append(c)
    for c in out:
        if mk_not(c) in out:
            return FALSE
    if not out:
        return TRUE
    if len(out) == 1:
        return out[0]
    return T("and", *out)


def mk_or(*cs: T) -> T:
    for c in cs:
        if not is_const(c) and mk_not(c) in cs:
            return TRUE
    out = []
    for c in cs:
        if is_const(c):
            if const_val(c):
                return TRUE
            continue
        if c.op == "or":
            for x in c.args:
                if x not in out:
                    out.append(x)
        elif c not in out:
            out.append(c)
    if not out:
        return FALSE
    if len(out) == 1:
        return out[0]
    # factor the conjuncts common to all disjuncts:  (L&a) | (L&b) -> L&(a|b)
    conj = [list(x.args) if x.op == "and" else [x] for x in out]
    common = [c for c in conj[0] if all(c in other for other in conj[1:])]
    if common:
        rest = [[c for c in cs if c not in common] for cs in conj]
        if any(not r for r in rest):        # absorption
            return mk_and(*common)
        inner = _or_simplify([mk_and(*r) for r in rest])
        return mk_and(*(common + [inner]))
    return _or_simplify(out)


def _or_simplify(out):
    """a | (~a & b) -> a | b ;  a | ~a -> True"""
    changed = True
    out = list(out)
    while changed:
        changed = False
        for i, a in enumerate(out):
            na = mk_not(a)
            for j, b in enumerate(out):
                if i == j:
                    continue
                if b is na:
                    return TRUE
                if b.op == "and" and na in b.args:
                    nb = mk_and(*[x for x in b.args if x is not na])
                    out[j] = nb
                    changed = True
                    break
            if changed:
                break
    # dedupe
    res = []
    for x in out:
        if is_const(x):
            if const_val(x):
                return TRUE
            continue
        if x not in res:
            res.append(x)
    if not res:
        return FALSE
    if len(res) == 1:
        return res[0]
    return T("or", *res)


# ----------------------------------------------------------- 3-valued fold
def fold(formula: T, assign: Callable[[T], Optional[bool]]) -> Optional[bool]:
    """Evaluate a live-condition under a partial truth assignment of its atoms.
    Returns True / False / None (unknown).  No solver: substitution and Kleene
    logic, completed by a truth table over the unassigned atoms when there
    are at most 8 of them (so `a and not (a and b)` with b false is seen to
    be `a`, and `a or not a` to be true)."""
    r = _kleene(formula, assign)
    if r is not None:
        return r
    free: list = []
    _free_atoms(formula, assign, free)
    if not free or len(free) > 8:
        return None
    seen = None
    for bits in itertools.product((True, False), repeat=len(free)):
        env = {id(a): b for a, b in zip(free, bits)}

        def full(t, env=env):
            v = assign(t)
            return v if v is not None else env.get(id(t))
        v = _kleene(formula, full)
        if v is None or (seen is not None and v != seen):
            return None
        seen = v
    return seen


def restrict(formula: T, assign: Callable[[T], Optional[bool]]) -> T:
    """the residual formula after fixing some atoms (cofactor): assigned
    atoms are replaced by constants and the boolean structure is rebuilt and
    simplified; unassigned atoms stay"""
    if is_const(formula):
        return formula
    v = assign(formula)
    if v is not None:
        return const(bool(v))
    if formula.op == "not":
        return mk_not(restrict(formula.args[0], assign))
    if formula.op == "and":
        return mk_and(*[restrict(a, assign) for a in formula.args])
    if formula.op == "or":
        return mk_or(*[restrict(a, assign) for a in formula.args])
    return formula


def select(t: T, assign: Callable[[T], Optional[bool]]) -> T:
    """value term restricted to the cases an assignment describes: a
    conditional value whose condition the assignment decides is replaced by
    the alternative taken (outermost conditionals only)"""
    while isinstance(t, T) and t.op == "ite":
        c = fold(t.args[0], assign)
        if c is None:
            break
        t = t.args[1] if c else t.args[2]
    return t


def deep_select(t: T, assign: Callable[[T], Optional[bool]]) -> T:
    """like `select`, for conditionals at any depth of the value"""
    def rw(x: T):
        if x.op == "ite":
            c = fold(x.args[0], assign)
            if c is not None:
                return x.args[1] if c else x.args[2]
        return None
    return t.map(rw)


def _free_atoms(formula: T, assign, out: list) -> None:
    if is_const(formula) or assign(formula) is not None:
        return
    if formula.op in ("and", "or", "not"):
        for a in formula.args:
            _free_atoms(a, assign, out)
    elif not any(formula is x for x in out):
        out.append(formula)


def _kleene(formula: T, assign: Callable[[T], Optional[bool]]
            ) -> Optional[bool]:
    if is_const(formula):
        return bool(const_val(formula))
    v = assign(formula)
    if v is not None:
        return v
    if formula.op == "not":
        r = _kleene(formula.args[0], assign)
        return None if r is None else (not r)
    if formula.op == "and":
        res = True
        for a in formula.args:
            r = _kleene(a, assign)
            if r is False:
                return False
            if r is None:
                res = None
        return res
    if formula.op == "or":
        res = False
        for a in formula.args:
            r = _kleene(a, assign)
            if r is True:
                return True
            if r is None:
                res = None
        return res
    return None


def atoms(formula: T):
    if is_const(formula):
        return []
    if formula.op in ("and", "or", "not"):
        out = []
        for a in formula.args:
            for x in atoms(a):
                if x not in out:
                    out.append(x)
        return out
    return [formula]


# -------------------------------------------------------------------- show
_BIN = {"Add": "+", "Sub": "-", "Mult": "*", "Div": "/", "FloorDiv": "//",
        "Mod": "%", "Pow": "**", "MatMult": "@", "BitAnd": "&", "BitOr": "|",
        "BitXor": "^", "LShift": "<<", "RShift": ">>"}
_CMP = {"Eq": "==", "NotEq": "!=", "Lt": "<", "LtE": "<=", "Gt": ">",
        "GtE": ">=", "Is": "is", "IsNot": "is not", "In": "in",
        "NotIn": "not in"}
_UN = {"USub": "-", "UAdd": "+", "Invert": "~", "Not": "not "}


def show(t, depth=0) -> str:
    if not isinstance(t, T):
        if isinstance(t, tuple):
            return "(" + ", ".join(show(x, depth + 1) for x in t) + ")"
        return repr(t)
    if depth > 12:
        return "…"
    o, a = t.op, t.args
    s = lambda x: show(x, depth + 1)
    if o == "const":
        return repr(a[1])
    if o == "param":
        return a[0]
    if o in ("global", "func", "cls", "module"):
        return a[0].replace("evo.core.", "").replace("evo.tools.", "") \
            .replace("numpy.", "np.").replace("builtins.", "")
    if o == "enum":
        return a[0].split(".")[-1] + "." + a[1]
    if o == "attr":
        return f"{s(a[0])}.{a[1]}"
    if o == "sub":
        return f"{s(a[0])}[{s(a[1])}]"
    if o == "slice":
        return ":".join("" if is_const(x, None) else s(x) for x in a)
    if o == "call":
        parts = [s(x) for x in a[1]] + [f"{k}={s(v)}" for k, v in a[2]]
        return f"{s(a[0])}(" + ", ".join(parts) + ")"
    if o in ("tuple", "list", "set"):
        br = {"tuple": "()", "list": "[]", "set": "{}"}[o]
        return br[0] + ", ".join(s(x) for x in a) + br[1]
    if o == "dict":
        return "{" + ", ".join(f"{s(k)}: {s(v)}" for k, v in a) + "}"
    if o == "binop":
        return f"({s(a[1])} {_BIN.get(a[0], a[0])} {s(a[2])})"
    if o == "unop":
        return f"({_UN.get(a[0], a[0])}{s(a[1])})"
    if o == "cmp":
        return f"({s(a[1])} {_CMP.get(a[0], a[0])} {s(a[2])})"
    if o == "and":
        return "(" + " and ".join(s(x) for x in a) + ")"
    if o == "or":
        return "(" + " or ".join(s(x) for x in a) + ")"
    if o == "not":
        return f"not {s(a[0])}"
    if o == "ite":
        return f"({s(a[1])} if {s(a[0])} else {s(a[2])})"
    if o == "elem":
        return f"elem<{a[1]}>({s(a[0])})"
    if o == "index":
        return f"index<{a[0]}>"
    if o == "comp":
        loops = " ".join(f"for<{lid}> in {s(it)}" for it, lid in a[2])
        conds = "".join(f" if {s(c)}" for c in a[3])
        return f"{a[0]}[{s(a[1])} {loops}{conds}]"
    if o == "loopvar":
        return f"loopvar<{a[1]}>({a[0]})"
    if o == "loopout":
        return f"loopout<{a[1]}>({a[0]}: {s(a[2])} -> {s(a[3])})"
    if o == "upd":
        return f"upd({s(a[0])}; [{s(a[1])}]:={s(a[2])})"
    if o == "mut":
        return f"{s(a[0])}.{a[1]}!(" + ", ".join(s(x) for x in a[2]) + ")"
    if o == "fstr":
        return "f'" + "".join(x.args[1] if is_const(x) and isinstance(
            x.args[1], str) else "{" + s(x) + "}" for x in a) + "'"
    if o == "star":
        return "*" + s(a[0])
    if o == "unknown":
        return f"?<{a[0]}>"
    if o == "closure":
        return f"closure<{a[0]}>"
    if o == "lambda":
        return f"lambda<{a[0]}>"
    if o == "undefined":
        return "undefined"
    if o == "deleted":
        return "deleted"
    if o == "exc":
        return f"exc<{a[0]}>"
    if o == "super":
        return f"super({a[0]})"
    return f"{o}(" + ", ".join(s(x) for x in a) + ")"


# ------------------------------------------------------------ term helpers
def callee_name(t: T) -> Optional[str]:
    """qualified name of the callee of a call term: evo function / class /
    external dotted name / '.method' for unresolved attribute calls."""
    if not (isinstance(t, T) and t.op == "call"):
        return None
    f = t.args[0]
    if f.op in ("func", "cls", "global"):
        return f.args[0]
    if f.op == "attr":
        return "." + f.args[1]
    if f.op == "closure":
        return f.args[0]
    return None


def call_args(t: T):
    return t.args[1]


def call_kwargs(t: T) -> dict:
    return dict(t.args[2])


def method_recv(t: T) -> Optional[T]:
    if t.op == "call" and t.args[0].op == "attr":
        return t.args[0].args[0]
    return None


def strip_ite(t: T):
    """all alternatives of nested ite terms"""
    if t.op == "ite":
        return strip_ite(t.args[1]) + strip_ite(t.args[2])
    return [t]


def leaves(t: T):
    """source leaves: params, globals, enum, unknowns, loop elements"""
    out = []
    for x in t.walk():
        if x.op in ("param", "global", "enum", "unknown", "func", "cls"):
            if x not in out:
                out.append(x)
    return out


def mentions_param(t: T, name: str) -> bool:
    return any(x.op == "param" and x.args[0] == name for x in t.walk())
