"""Abstract interpreter over evo's AST (E-CFG + E-DF + E-SCCP of DESIGN.md in
one structured pass).

For a function it computes, without executing anything of evo:
  * for every local / attribute the *term* describing how its value derives
    from the function's inputs (sa/terms.py),
  * an ordered *event log* (calls, attribute/element stores, in-place
    operators, returns, raises) where every event carries the *live condition*
    (boolean formula over branch atoms) under which it is reached, the
    enclosing loops and enclosing try-handlers,
  * constant folding of branches under a *configuration* (parameter bound to
    a constant / enum member, assumed truth values for atoms), so that the
    analysis can be specialised per enum member / flag combination,
  * optional inlining of evo callees (depth-bounded), so that extracting a
    helper function does not change what the rules see.
"""
from __future__ import annotations

import ast
from dataclasses import dataclass, field
from typing import Any, Callable, Dict, List, Optional, Tuple

from .progdb import AnalysisError, Class, Function, Module, Program
from . import terms as tm
from .terms import T, const, FALSE, TRUE, NONE

BUILTINS = {
    "len", "zip", "enumerate", "range", "list", "tuple", "dict", "set", "int",
    "float", "str", "bool", "abs", "min", "max", "sum", "any", "all", "sorted",
    "reversed", "isinstance", "hasattr", "getattr", "setattr", "open", "print",
    "type", "iter", "next", "map", "filter", "input", "vars", "super", "round",
    "repr", "id", "issubclass", "callable", "frozenset", "bytes", "object",
    "ValueError", "TypeError", "KeyError", "IndexError", "Exception",
    "BaseException", "RuntimeError", "FileNotFoundError", "FileExistsError",
    "KeyboardInterrupt", "SystemExit", "NotImplementedError", "OSError",
    "IOError", "AttributeError", "ImportError", "StopIteration", "divmod",
    "pow", "format", "slice", "property", "staticmethod", "classmethod",
    "AssertionError", "ZeroDivisionError", "OverflowError", "UnicodeError",
    "PermissionError", "IsADirectoryError", "exit", "quit", "dir", "hash",
    "chr", "ord", "bin", "hex", "oct", "bytearray", "memoryview", "complex",
    "locals", "globals", "delattr", "__name__", "__file__", "NotImplemented",
    "Ellipsis", "ModuleNotFoundError", "Warning", "UserWarning",
    "DeprecationWarning", "LookupError", "ArithmeticError", "EOFError",
}

MUTATING_METHODS = {
    "append", "extend", "insert", "remove", "pop", "clear", "sort", "reverse",
    "update", "setdefault", "add", "discard", "popitem", "fill", "resize",
    "put", "itemset", "setflags", "sort_index",
}


@dataclass
class Event:
    kind: str                   # call setattr delattr setitem delitem augassign
                                # return raise with_enter with_exit unsupported
    node: ast.AST
    live: T
    loops: Tuple[int, ...]
    tries: Tuple[Tuple[int, Tuple[str, ...]], ...]  # (try id, handler types)
    func: Optional[Function]    # frame in which it happened
    depth: int
    data: Dict[str, Any] = field(default_factory=dict)
    idx: int = 0

    @property
    def lineno(self) -> int:
        return getattr(self.node, "lineno", 0)

    @property
    def where(self) -> str:
        f = self.func.file if self.func else "?"
        return f"{f}:{self.lineno}"

    def __repr__(self):
        d = {k: v for k, v in self.data.items() if k not in ("bound",)}
        return f"<{self.kind} @{self.where} {d}>"


@dataclass
class Frame:
    func: Optional[Function]
    module: Module
    env: Dict[str, T]
    local_imports: Dict[str, str]
    cls: Optional[Class]
    depth: int
    self_name: Optional[str] = None
    returns: List[Tuple[T, T]] = field(default_factory=list)
    parent_env: Optional[Dict[str, T]] = None


@dataclass
class Result:
    func: Function
    ret: T
    returns: List[Tuple[T, T]]
    events: List[Event]
    env: Dict[str, T]
    attrs: Dict[Tuple[T, str], T]
    interp: "Interp"
    fallthrough: Any = None
    env_all: Any = None

    def calls(self, name: Optional[str] = None, pred=None) -> List[Event]:
        out = []
        for e in self.events:
            if e.kind != "call":
                continue
            if name is not None and e.data.get("name") != name and \
                    not (name.startswith(".") and
                         (e.data.get("name") or "").endswith(name)):
                continue
            if pred is not None and not pred(e):
                continue
            out.append(e)
        return out

    def of_kind(self, *kinds, all_depths: bool = False) -> List[Event]:
        """events of the given kinds; `return` events of inlined callees are
        not returns of the analysed function and are left out"""
        return [e for e in self.events if e.kind in kinds and
                (all_depths or e.kind != "return" or e.depth == 0)]


_MENTIONED: Optional[set] = None


def mentioned_names() -> set:
    """function names that some rule refers to (as callee / anchor): those
    stay opaque call events; any *other* helper defined in the same module as
    the function under analysis is looked through automatically, so that
    extracting or renaming a helper does not change what a rule sees"""
    global _MENTIONED
    if _MENTIONED is None:
        import os
        import re
        names = set()
        rd = os.path.join(os.path.dirname(os.path.abspath(__file__)),
                          "rules")
        for fn in os.listdir(rd):
            if not fn.endswith(".py"):
                continue
            try:
                tree = ast.parse(open(os.path.join(rd, fn)).read())
            except SyntaxError:
                continue
            for n in ast.walk(tree):
                if isinstance(n, ast.Constant) and isinstance(n.value, str) \
                        and len(n.value) < 200:
                    for w in re.findall(r"[A-Za-z_][A-Za-z_0-9]*", n.value):
                        names.add(w)
        _MENTIONED = names
    return _MENTIONED


# values of standard-library constants evo's code may name
_LIB_CONSTANTS = {"codecs.BOM_UTF8": b"\xef\xbb\xbf"}
_FUNC_SYNONYMS = {
    "numpy.absolute": "numpy.abs",
    "numpy.degrees": "numpy.rad2deg",
    "numpy.radians": "numpy.deg2rad",
    "numpy.row_stack": "numpy.vstack",
    "numpy.true_divide": "numpy.divide",
    "numpy.amax": "numpy.max", "numpy.amin": "numpy.min",
    "math.fabs": "numpy.abs",
}
_ATTR_ALIASES = {"numpy.shape": "shape", "numpy.ndim": "ndim",
                 "numpy.size": "size", "numpy.transpose": "T"}


def is_zip_call(t: T) -> bool:
    return t.op == "call" and tm.callee_name(t) == "builtins.zip" and \
        not t.args[2] and not any(a.op == "star" for a in t.args[1])


# pure methods of a constant string (on constant string arguments)
_STR_FOLDS = frozenset((".lower", ".upper", ".strip", ".lstrip", ".rstrip",
                        ".startswith", ".endswith", ".casefold", ".title",
                        ".capitalize", ".removeprefix", ".removesuffix",
                        ".index", ".find", ".count"))


def _generator_as_genexp(fn: ast.FunctionDef) -> Optional[ast.GeneratorExp]:
    """the generator expression a simple generator function stands for:
    one `for` loop whose body is guard clauses (`if c: continue`) followed by
    a single (possibly conditional) `yield e`"""
    body = [st for st in fn.body if not (
        isinstance(st, ast.Expr) and isinstance(st.value, ast.Constant))]
    if len(body) != 1 or not isinstance(body[0], ast.For) or body[0].orelse:
        return None
    loop = body[0]
    conds: list = []
    elt = None
    for k, st in enumerate(loop.body):
        last = k == len(loop.body) - 1
        if isinstance(st, ast.If) and not st.orelse and \
                len(st.body) == 1 and isinstance(st.body[0], ast.Continue) \
                and not last:
            conds.append(ast.UnaryOp(op=ast.Not(), operand=st.test))
        elif last and isinstance(st, ast.Expr) and \
                isinstance(st.value, ast.Yield) and st.value.value is not None:
            elt = st.value.value
        elif last and isinstance(st, ast.If) and not st.orelse and \
                len(st.body) == 1 and isinstance(st.body[0], ast.Expr) and \
                isinstance(st.body[0].value, ast.Yield) and \
                st.body[0].value.value is not None:
            conds.append(st.test)
            elt = st.body[0].value.value
        else:
            return None
    if elt is None:
        return None
    g = ast.GeneratorExp(elt=elt, generators=[ast.comprehension(
        target=loop.target, iter=loop.iter, ifs=conds, is_async=0)])
    ast.copy_location(g, loop)
    ast.fix_missing_locations(g)
    return g


_GEN_OUT = "__yielded__"


def _generator_as_list_body(fn: ast.FunctionDef) -> Optional[list]:
    """body of the function that returns the list of everything the
    generator function yields (`yield e` -> append, `yield from X` ->
    extend, `return` -> return the list): what a consumer that exhausts the
    generator sees.  None if a yield is used as an expression (send)."""
    cached = getattr(fn, "_as_list_body", 0)
    if cached != 0:
        return cached
    ok = True

    class Rw(ast.NodeTransformer):
        def visit_FunctionDef(self, n):
            return n                       # nested functions: their own
        visit_AsyncFunctionDef = visit_Lambda = visit_FunctionDef

        def visit_Expr(self, n):
            v = n.value
            if isinstance(v, ast.Yield) and v.value is not None:
                call = ast.Call(func=ast.Attribute(
                    value=ast.Name(id=_GEN_OUT, ctx=ast.Load()),
                    attr="append", ctx=ast.Load()), args=[v.value],
                    keywords=[])
                return ast.copy_location(ast.Expr(value=call), n)
            if isinstance(v, ast.YieldFrom):
                call = ast.Call(func=ast.Attribute(
                    value=ast.Name(id=_GEN_OUT, ctx=ast.Load()),
                    attr="extend", ctx=ast.Load()), args=[v.value],
                    keywords=[])
                return ast.copy_location(ast.Expr(value=call), n)
            return n

        def visit_Return(self, n):
            if n.value is not None:
                return n
            return ast.copy_location(ast.Return(
                value=ast.Name(id=_GEN_OUT, ctx=ast.Load())), n)

    import copy
    body = [Rw().visit(copy.deepcopy(st)) for st in fn.body]
    for st in body:
        for x in ast.walk(st):
            if isinstance(x, (ast.Yield, ast.YieldFrom)):
                ok = False
            if isinstance(x, ast.Return) and not (
                    isinstance(x.value, ast.Name) and x.value.id == _GEN_OUT):
                ok = False
    out = None
    if ok and body:
        first = ast.copy_location(ast.Assign(
            targets=[ast.Name(id=_GEN_OUT, ctx=ast.Store())],
            value=ast.List(elts=[], ctx=ast.Load())), fn.body[0])
        last = ast.copy_location(ast.Return(
            value=ast.Name(id=_GEN_OUT, ctx=ast.Load())), fn.body[-1])
        out = [first] + body + [last]
        for st in out:
            ast.fix_missing_locations(st)
    fn._as_list_body = out
    return out


def _own_jumps(body) -> bool:
    """does a loop body contain a break / continue of *this* loop (jumps
    inside nested loops belong to those)"""
    todo = list(body)
    while todo:
        n = todo.pop()
        if isinstance(n, (ast.Break, ast.Continue)):
            return True
        if isinstance(n, (ast.For, ast.While, ast.AsyncFor)):
            todo.extend(n.orelse)
            continue
        if isinstance(n, (ast.FunctionDef, ast.Lambda, ast.ClassDef)):
            continue
        todo.extend(ast.iter_child_nodes(n))
    return False


class Interp:
    def __init__(self, prog: Program,
                 inline: Callable[[Function], bool] = lambda f: False,
                 max_depth: int = 3,
                 assume: Optional[Callable[[T], Optional[bool]]] = None,
                 inline_properties: bool = False,
                 inline_closures: bool = True,
                 unique_method_fallback: bool = True,
                 auto_inline: bool = True,
                 known_len: Optional[Callable[[T], Optional[int]]] = None):
        self._narrow = []
        _ENUM_MEMBERS[0] = prog.enum_members
        # lengths the *rule* knows from the documented data layout (e.g. a
        # positions array has three columns); used to unroll a zip()
        self.known_len = known_len
        # (base, name) -> True if the configuration under analysis says the
        # attribute does not exist (set by rules that fold cache states)
        self.attr_absent = None
        self.prog = prog
        self._explicit_inline = inline
        self.auto_inline = auto_inline
        self.inline = self._should_inline
        self.max_depth = max_depth
        self.assume = assume or (lambda t: None)
        self.inline_properties = inline_properties
        self.inline_closures = inline_closures
        self.unique_method_fallback = unique_method_fallback
        self.events: List[Event] = []
        self.attrs: Dict[Tuple[T, str], T] = {}
        self.loop_counter = 0
        self.try_counter = 0
        self.range_len: Dict[int, T] = {}
        self.loop_nodes: Dict[int, ast.AST] = {}
        self.loops: Tuple[int, ...] = ()
        self.tries: Tuple = ()
        self.stack: List[str] = []
        self.stats = {"calls": 0, "resolved_evo": 0, "external": 0,
                      "unresolved": 0, "inlined": 0, "unsupported": 0}
        self._const_cache: Dict[str, T] = {}
        self.closures: Dict[str, Tuple[ast.AST, Frame]] = {}
        self.loop_pending: List[list] = []
        self.inlined_envs: List[tuple] = []

    def _constant_call(self, target: Function, bound) -> bool:
        """a small plain function of the units / enum tables called on
        constants only (is_convertible(Unit.a, Unit.b), scale_factor(..)):
        evaluated like the table lookup it stands for"""
        if not self.auto_inline or target.cls is not None or not bound or \
                target.module.name not in ("evo.core.units",):
            return False
        if target.name in mentioned_names():
            return False
        return all(self.unname(v).op in ("const", "enum")
                   for v in bound.values()) and \
            len(list(ast.walk(target.node))) < 200

    def _should_inline(self, target: Function) -> bool:
        if self._explicit_inline(target):
            return True
        if not self.auto_inline:
            return False
        root = self._root_func()
        if root is None:
            return False
        if not self._known(target) and \
                not target.is_property and \
                not target.name.startswith("__") and \
                target.module.name not in ("evo.core.transformations",):
            return True      # added after the pinned tree: never an anchor
        if target.module is not root.module:
            # helpers the command modules share (extracted from evo_ape /
            # evo_rpe / evo_traj into the common glue module) are looked
            # through like helpers of the same module
            glue = ("evo.common_ape_rpe",)
            if not (root.module.name.startswith("evo.main_") or
                    root.module.name in glue) or \
                    target.module.name not in glue or target.cls is not None:
                return False
        if target.is_property or target.name.startswith("__"):
            return False
        if target.module.name in ("evo.core.transformations",):
            return False
        if not self._known(target):
            return True      # added after the pinned tree: never an anchor
        return target.name not in mentioned_names()

    def _known(self, fn: Function) -> bool:
        """part of the pinned tree — under its own qualified name, or as a
        method of that name of a class below it (a method moved up into an
        extracted base class / mixin keeps its role)"""
        from .known_functions import KNOWN_FUNCTIONS
        if fn.qualname in KNOWN_FUNCTIONS:
            return True
        if fn.cls is None:
            return False
        cache = getattr(self.prog, "_known_moved", None)
        if cache is None:
            cache = self.prog._known_moved = {}
        if fn.qualname not in cache:
            hit = False
            for c in self.prog.classes.values():
                if c is fn.cls:
                    continue
                if f"{c.qualname}.{fn.name}" in KNOWN_FUNCTIONS and \
                        fn.name not in c.methods and any(
                            k is fn.cls for k in self.prog.mro(c)):
                    hit = True
                    break
            cache[fn.qualname] = hit
        return cache[fn.qualname]

    # ================================================================ entry
    def run(self, fn: Function, args: Optional[Dict[str, T]] = None,
            self_cls: Optional[Class] = None,
            preset_attrs: Optional[Dict[Tuple[T, str], T]] = None) -> Result:
        self.events = []
        self._narrow = []
        self.inlined_envs = []
        self._root = fn
        self._root_cls = self_cls
        self.attrs = dict(preset_attrs or {})
        frame = self._make_frame(fn, args or {}, self_cls, depth=0)
        self.stack.append(fn.qualname)
        try:
            out = self.exec_block(fn.node.body, frame, TRUE)
        finally:
            self.stack.pop()
        ret = self._join_returns(frame)
        for i, e in enumerate(self.events):
            e.idx = i
        res = Result(fn, ret, frame.returns, self.events, frame.env,
                     dict(self.attrs), self)
        res.fallthrough = out
        # final variables of the function *and* of the helpers that were
        # looked through (a loop moved into a private helper keeps its state
        # there); the function's own names win
        env_all = dict(frame.env)
        for tgt, env in self.inlined_envs:
            for k, v in env.items():
                env_all.setdefault(k if k not in frame.env else
                                   f"{tgt.name}.{k}", v)
        res.env_all = env_all
        return res

    def run_module(self, module: Module) -> Result:
        """interpret the module body (import-time code) as a function"""
        node = ast.FunctionDef(
            name="<module>",
            args=ast.arguments(posonlyargs=[], args=[], kwonlyargs=[],
                               kw_defaults=[], defaults=[]),
            body=[s for s in module.tree.body
                  if not isinstance(s, (ast.FunctionDef, ast.ClassDef,
                                        ast.AsyncFunctionDef))],
            decorator_list=[], lineno=1, col_offset=0)
        fn = Function(module.name + ".<module>", "<module>", node, module)
        return self.run(fn)

    def _make_frame(self, fn: Function, args: Dict[str, T],
                    self_cls: Optional[Class], depth: int) -> Frame:
        env: Dict[str, T] = {}
        a = fn.node.args
        names = [x.arg for x in a.posonlyargs + a.args + a.kwonlyargs]
        for n in names:
            env[n] = args.get(n, tm.param(n))
        if a.vararg:
            env[a.vararg.arg] = args.get(a.vararg.arg, tm.param(a.vararg.arg))
        if a.kwarg:
            env[a.kwarg.arg] = args.get(a.kwarg.arg, tm.param(a.kwarg.arg))
        cls_ = self_cls or fn.cls
        self_name = None
        if fn.cls is not None and not fn.is_static and names:
            self_name = names[0]
        return Frame(fn, fn.module, env, {}, cls_, depth, self_name)

    def _join_returns(self, frame: Frame, base_live: T = TRUE) -> T:
        """value of the call: the returns joined by their conditions taken
        relative to the condition under which the function was entered"""
        if not frame.returns:
            return NONE
        base = set(self._conj(base_live))
        val = frame.returns[-1][0]
        rt = getattr(frame, "return_tries", None) or []
        n = len(frame.returns)
        for k in range(n - 2, -1, -1):
            v, live = frame.returns[k]
            conj = [c for c in self._conj(live) if c not in base]
            # a return inside a try body: it is the result only if the body
            # did not raise into a handler that returns something else
            for tid, hts in (rt[k] if k < len(rt) else ()):
                for ht in hts:
                    atom = T("exc", ht, tid)
                    if any(atom in self._conj(l2)
                           for _, l2 in frame.returns[k + 1:]) and \
                            self.assume(atom) is not False:
                        conj.append(tm.mk_not(atom))
            rel = tm.mk_and(*conj)
            val = tm.ite(rel, v, val)
        return val

    # =============================================================== events
    def emit(self, kind: str, node: ast.AST, live: T, frame: Frame,
             **data) -> Event:
        e = Event(kind, node, live, self.loops, self.tries, frame.func,
                  frame.depth, data)
        self.events.append(e)
        return e

    # =========================================================== statements
    def exec_block(self, stmts: List[ast.stmt], frame: Frame, live: T) -> T:
        for s in stmts:
            if tm.is_const(live, False):
                break
            live = self.exec_stmt(s, frame, live)
        return live

    def exec_stmt(self, s: ast.stmt, frame: Frame, live: T) -> T:
        m = getattr(self, "st_" + type(s).__name__, None)
        if m is None:
            self.stats["unsupported"] += 1
            self.emit("unsupported", s, live, frame, what=type(s).__name__)
            return live
        n0 = len(self._narrow)
        out = m(s, frame, live)
        if len(self._narrow) > n0:
            # an inlined callee raised / exited on some of its paths: only
            # the paths on which it returned continue after this statement
            for c in self._narrow[n0:]:
                out = tm.mk_and(out, c)
            del self._narrow[n0:]
        return out

    def st_Pass(self, s, frame, live):
        return live

    def st_Global(self, s, frame, live):
        return live

    st_Nonlocal = st_Global

    EXIT_CALLS = ("sys.exit", "builtins.exit", "builtins.quit", "os._exit",
                  "os.abort")

    def _is_exit_function(self, fn: Optional[Function]) -> bool:
        """evo helper whose body ends in sys.exit (e.g. main_traj.die)"""
        if fn is None or not fn.node.body:
            return False
        last = fn.node.body[-1]
        if isinstance(last, ast.Expr) and isinstance(last.value, ast.Call):
            try:
                return ast.unparse(last.value.func) in ("sys.exit", "exit")
            except Exception:
                return False
        return False

    def st_Expr(self, s, frame, live):
        n0 = len(self.events)
        self.eval(s.value, frame, live)
        if isinstance(s.value, ast.Call):
            for e in self.events[n0:]:
                if e.kind == "call" and e.depth == frame.depth and \
                        e.node is s.value and (
                            e.data.get("name") in self.EXIT_CALLS or
                            self._is_exit_function(e.data.get("target"))):
                    self.emit("exit", s, live, frame)
                    return FALSE
        return live

    def st_Import(self, s, frame, live):
        for a in s.names:
            if a.asname:
                frame.local_imports[a.asname] = a.name
                frame.env.pop(a.asname, None)
            else:
                head = a.name.split(".")[0]
                frame.local_imports[head] = head
                frame.env.pop(head, None)
        return live

    def st_ImportFrom(self, s, frame, live):
        base = s.module or ""
        for a in s.names:
            frame.local_imports[a.asname or a.name] = f"{base}.{a.name}"
            frame.env.pop(a.asname or a.name, None)
        return live

    def st_FunctionDef(self, s, frame, live):
        key = f"{frame.func.qualname if frame.func else frame.module.name}." \
              f"<locals>.{s.name}"
        self.closures[key] = (s, frame)
        frame.env[s.name] = T("closure", key)
        return live

    def st_ClassDef(self, s, frame, live):
        frame.env[s.name] = tm.unknown(f"local class {s.name}")
        return live

    def st_Return(self, s, frame, live):
        v = self.eval(s.value, frame, live) if s.value is not None else NONE
        frame.returns.append((v, live))
        if not hasattr(frame, "return_tries"):
            frame.return_tries = []
        while len(frame.return_tries) < len(frame.returns) - 1:
            frame.return_tries.append(())
        frame.return_tries.append(self.tries)
        self.emit("return", s, live, frame, value=v)
        return FALSE

    def st_Raise(self, s, frame, live):
        v = self.eval(s.exc, frame, live) if s.exc is not None else \
            tm.unknown("reraise")
        self.emit("raise", s, live, frame, exc=v,
                  exc_name=self._exc_name(v))
        return FALSE

    def _exc_name(self, v: T) -> str:
        if v.op == "call":
            n = tm.callee_name(v)
            return n or "?"
        if v.op in ("cls", "global"):
            return v.args[0]
        return tm.show(v)

    def st_Assert(self, s, frame, live):
        c = self.eval(s.test, frame, live)
        return tm.mk_and(live, self.as_cond(c))

    def st_Delete(self, s, frame, live):
        for t in s.targets:
            if isinstance(t, ast.Attribute):
                base = self.eval(t.value, frame, live)
                if self.attr_absent is not None and \
                        self.attr_absent(base, t.attr) is True:
                    # deleting an attribute the configuration says is not
                    # there raises AttributeError: what follows is dead
                    self.emit("raise", s, live, frame,
                              exc=tm.glob("builtins.AttributeError"),
                              exc_name="builtins.AttributeError")
                    return FALSE
                self.emit("delattr", s, live, frame, base=base, name=t.attr)
                self._store_attr(base, t.attr, T("deleted"), live)
            elif isinstance(t, ast.Subscript):
                base = self.eval(t.value, frame, live)
                idx = self.eval(t.slice, frame, live)
                self.emit("delitem", s, live, frame, base=base, index=idx)
            elif isinstance(t, ast.Name):
                frame.env[t.id] = T("deleted")
        return live

    def st_Assign(self, s, frame, live):
        v = self.eval(s.value, frame, live)
        for t in s.targets:
            self.assign(t, v, frame, live, s)
        return live

    def st_AnnAssign(self, s, frame, live):
        if s.value is not None:
            v = self.eval(s.value, frame, live)
            self.assign(s.target, v, frame, live, s)
        return live

    def st_AugAssign(self, s, frame, live):
        cur = self.eval(self._as_load(s.target), frame, live)
        v = self.eval(s.value, frame, live)
        new = T("binop", type(s.op).__name__, cur, v)
        self.emit("augassign", s, live, frame, target=cur,
                  op=type(s.op).__name__, value=v,
                  target_node=s.target)
        self.assign(s.target, new, frame, live, s, aug=True)
        return live

    def _as_load(self, t):
        t2 = ast.parse(ast.unparse(t), mode="eval").body
        ast.copy_location(t2, t)
        for n in ast.walk(t2):
            if not hasattr(n, "lineno"):
                ast.copy_location(n, t)
        return t2

    def assign(self, target, v: T, frame: Frame, live: T, stmt, aug=False):
        if isinstance(target, ast.Name):
            frame.env[target.id] = v
        elif isinstance(target, (ast.Tuple, ast.List)):
            elts = target.elts
            stars = [i for i, e in enumerate(elts)
                     if isinstance(e, ast.Starred)]
            if len(stars) == 1 and v.op != "ite":
                # a, *rest, z = v : a = v[0], rest = v[1:-1], z = v[-1]
                k = stars[0]
                after = len(elts) - k - 1
                vals = [tm.sub(v, const(i)) for i in range(k)]
                vals.append(tm.sub(v, T("slice",
                                        const(k) if k else NONE,
                                        const(-after) if after else NONE,
                                        NONE)))
                vals += [tm.sub(v, const(i - after)) for i in range(after)]
                if v.op in ("tuple", "list") and not any(
                        x.op == "star" for x in v.args) and \
                        len(v.args) >= len(elts) - 1:
                    items = list(v.args)
                    vals = items[:k] + [T("list", *items[k:len(items) -
                                                         after])] + \
                        items[len(items) - after:]
            else:
                vals = self.unpack(v, len(elts), bool(stars))
            for e, x in zip(elts, vals):
                if isinstance(e, ast.Starred):
                    self.assign(e.value, x, frame, live, stmt)
                else:
                    self.assign(e, x, frame, live, stmt)
        elif isinstance(target, ast.Attribute):
            base = self.eval(target.value, frame, live)
            if not aug:
                self.emit("setattr", stmt, live, frame, base=base,
                          name=target.attr, value=v)
            c_ = self.class_of(base, frame)
            st_ = None
            for k_ in (self.prog.mro(c_) if c_ is not None else ()):
                if target.attr in k_.setters:
                    st_ = k_.setters[target.attr]
                    break
            if st_ is not None and frame.depth < self.max_depth + 1 and \
                    st_.qualname not in self.stack and len(st_.params) == 2:
                # an assignment to a property with a setter runs the setter
                self.inline_call(st_, {st_.params[0]: base,
                                       st_.params[1]: v}, frame, live, stmt,
                                 c_)
                return
            self._store_attr(base, target.attr, v, live)
        elif isinstance(target, ast.Subscript):
            base = self.eval(target.value, frame, live)
            idx = self.eval(target.slice, frame, live)
            if not aug:
                self.emit("setitem", stmt, live, frame, base=base, index=idx,
                          value=v, base_node=target.value)
            new = T("upd", base, idx, v)
            self._rebind(target.value, new, frame, live)
        elif isinstance(target, ast.Starred):
            self.assign(target.value, v, frame, live, stmt)

    def _rebind(self, node, new: T, frame: Frame, live: T):
        """after an in-place update of the object denoted by node, make later
        reads see the updated term"""
        if isinstance(node, ast.Name):
            frame.env[node.id] = new
        elif isinstance(node, ast.Attribute):
            base = self.eval(node.value, frame, live, quiet=True)
            self.attrs[(base, node.attr)] = new
        # deeper paths: not tracked

    def _store_attr(self, base: T, name: str, v: T, live: T):
        self.attrs[(base, name)] = v

    def unpack(self, v: T, n: int, starred=False) -> List[T]:
        if v.op in ("tuple", "list") and len(v.args) == n and not starred:
            return list(v.args)
        if v.op == "ite":
            a = self.unpack(v.args[1], n, starred)
            b = self.unpack(v.args[2], n, starred)
            return [tm.ite(v.args[0], x, y) for x, y in zip(a, b)]
        rec = self._record_fields(v) if not starred else None
        if rec is not None and len(rec) == n:
            return list(rec.values())       # a NamedTuple value unpacked
        return [tm.sub(v, const(i)) for i in range(n)]

    # ------------------------------------------------------------------- if
    def st_If(self, s, frame, live):
        c = self.eval(s.test, frame, live)
        return self.branch(c, s.body, s.orelse, frame, live)

    def as_cond(self, c: T) -> T:
        """truth-normalise a term used as a condition"""
        if tm.is_const(c):
            return const(bool(tm.const_val(c)))
        if c.op == "unop" and c.args[0] == "Not":
            return tm.mk_not(self.as_cond(c.args[1]))
        if c.op == "boolop":
            parts = [self.as_cond(x) for x in c.args[1]]
            return tm.mk_and(*parts) if c.args[0] == "And" else \
                tm.mk_or(*parts)
        if c.op in ("and", "or", "not"):
            return c
        if c.op == "ite":
            # a conditional *value* used as a condition (e.g. the result of
            # an inlined predicate with early returns): (c and a) or
            # (not c and b)
            cc = self.as_cond(c.args[0])
            a_, b_ = self.as_cond(c.args[1]), self.as_cond(c.args[2])
            return tm.mk_or(tm.mk_and(cc, a_),
                            tm.mk_and(tm.mk_not(cc), b_))
        if c.op == "named":
            return self.as_cond(c.args[1])
        if c.op == "call" and tm.callee_name(c) == "builtins.bool" and \
                len(c.args[1]) == 1 and not c.args[2]:
            return self.as_cond(c.args[1][0])     # bool(x) as a condition
        if c.op == "call" and tm.callee_name(c) in ("builtins.any",
                                                    "builtins.all") and \
                len(c.args[1]) == 1 and \
                self.unname(c.args[1][0]).op in ("tuple", "list"):
            parts = [self.as_cond(x)
                     for x in self.unname(c.args[1][0]).args]
            return tm.mk_or(*parts) if tm.callee_name(c).endswith("any") \
                else tm.mk_and(*parts)
        if c.op == "enum":
            return TRUE
        if c.op in ("tuple", "list", "set", "dict"):
            return const(len(c.args) > 0)
        if c.op in ("func", "cls", "closure"):
            return TRUE
        if c.op == "mut" and c.args[1] == "append" and len(c.args[2]) == 1:
            return TRUE           # after an append the list is not empty
        a = self.assume(c)
        if a is not None:
            return const(a)
        return c

    def branch(self, c: T, body, orelse, frame: Frame, live: T) -> T:
        cond = self.as_cond(c)
        if tm.is_const(cond):
            return self.exec_block(body if tm.const_val(cond) else orelse,
                                   frame, live)
        # short-circuit structure: split and/or into nested decisions so that
        # live conditions stay conjunctions of literals where possible
        env0 = dict(frame.env)
        attrs0 = dict(self.attrs)
        live_t = self.exec_block(body, frame, tm.mk_and(live, cond))
        env_t, attrs_t = frame.env, self.attrs
        frame.env = dict(env0)
        self.attrs = dict(attrs0)
        live_f = self.exec_block(orelse, frame, tm.mk_and(live,
                                                          tm.mk_not(cond)))
        env_f, attrs_f = frame.env, self.attrs
        dead_t = tm.is_const(live_t, False)
        dead_f = tm.is_const(live_f, False)
        if dead_t and dead_f:
            return FALSE
        if dead_t:
            frame.env, self.attrs = env_f, attrs_f
            return live_f
        if dead_f:
            frame.env, self.attrs = env_t, attrs_t
            return live_t
        frame.env = self._join(cond, env_t, env_f)
        self.attrs = self._join(cond, attrs_t, attrs_f)
        return self._merge_live(live, cond, live_t, live_f)

    @staticmethod
    def _conj(f: T):
        if tm.is_const(f, True):
            return []
        return list(f.args) if f.op == "and" else [f]

    def _merge_live(self, live: T, cond: T, live_t: T, live_f: T) -> T:
        """live condition after an if/else whose arms end in live_t/live_f"""
        base = self._conj(live)
        ct, cf = self._conj(live_t), self._conj(live_f)
        if all(x in ct for x in base) and all(x in cf for x in base):
            rt = [x for x in ct if x not in base]
            rf = [x for x in cf if x not in base]
            inner = tm.mk_or(tm.mk_and(*rt), tm.mk_and(*rf))
            return tm.mk_and(*(base + [inner]))
        return tm.mk_or(live_t, live_f)

    def _join(self, cond: T, a: dict, b: dict) -> dict:
        out = {}
        for k in list(a.keys()) + [k for k in b.keys() if k not in a]:
            va = a.get(k, T("undefined"))
            vb = b.get(k, T("undefined"))
            out[k] = va if va == vb else tm.ite(cond, va, vb)
        return out

    # ---------------------------------------------------------------- loops
    def _assigned_names(self, stmts) -> List[str]:
        out = []

        class V(ast.NodeVisitor):
            def visit_Name(s, n):
                if isinstance(n.ctx, (ast.Store, ast.Del)) and \
                        n.id not in out:
                    out.append(n.id)

            def visit_FunctionDef(s, n):
                if n.name not in out:
                    out.append(n.name)

            def visit_Lambda(s, n):
                pass

            def visit_Subscript(s, n):
                if isinstance(n.ctx, ast.Store):
                    root = n.value
                    while isinstance(root, (ast.Subscript, ast.Attribute)):
                        root = root.value
                    if isinstance(root, ast.Name) and root.id not in out \
                            and isinstance(n.value, ast.Name):
                        out.append(root.id)
                s.generic_visit(n)

            def visit_Call(s, n):
                if isinstance(n.func, ast.Attribute) and \
                        n.func.attr in MUTATING_METHODS and \
                        isinstance(n.func.value, ast.Name) and \
                        n.func.value.id not in out:
                    out.append(n.func.value.id)
                s.generic_visit(n)
        for st in stmts:
            V().visit(st)
        return out

    def _assigned_attrs(self, stmts) -> List[Tuple[str, str]]:
        out = []
        for st in stmts:
            for n in ast.walk(st):
                tgt = None
                if isinstance(n, ast.Attribute) and isinstance(
                        n.ctx, (ast.Store, ast.Del)):
                    tgt = n
                elif isinstance(n, ast.Call) and isinstance(
                        n.func, ast.Attribute) and \
                        n.func.attr in MUTATING_METHODS and \
                        isinstance(n.func.value, ast.Attribute):
                    tgt = n.func.value
                elif isinstance(n, ast.Subscript) and isinstance(
                        n.ctx, ast.Store) and isinstance(n.value,
                                                         ast.Attribute):
                    tgt = n.value
                if tgt is not None and isinstance(tgt.value, ast.Name):
                    k = (tgt.value.id, tgt.attr)
                    if k not in out:
                        out.append(k)
        return out

    def new_loop(self, node) -> int:
        self.loop_counter += 1
        self.loop_nodes[self.loop_counter] = node
        return self.loop_counter

    def bind_loop_target(self, target, it: T, lid: int, frame: Frame,
                         live: T, stmt, through_map: bool = False):
        for tnode, val in self.loop_bindings(target, it, lid):
            self.assign(tnode, val, frame, live, stmt)

    def _range_len(self, it: T) -> Optional[T]:
        """X if `it` is range(len(X)): the index loop over X"""
        iu = self.unname(it)
        if tm.callee_name(iu) == "builtins.range" and \
                len(iu.args[1]) == 1 and not iu.args[2]:
            n_ = self.unname(iu.args[1][0])
            if tm.callee_name(n_) == "builtins.len" and \
                    len(n_.args[1]) == 1 and not n_.args[2] and \
                    self.unname(n_.args[1][0]).op not in ("tuple", "list"):
                return n_.args[1][0]
        return None

    def loop_bindings(self, target, it: T, lid: int):
        """[(target node, element term)] for iterating `it`"""
        name = tm.callee_name(it)
        if name == "builtins.enumerate" and isinstance(target, ast.Name) \
                and lid in self.range_len:
            # `for i in range(len(X))`, read as `for i, _ in enumerate(X)`
            return [(target, T("index", lid))]
        if name == "builtins.zip" and isinstance(target, (ast.Tuple, ast.List)) \
                and len(target.elts) == len(it.args[1]) and not it.args[2]:
            out = []
            for e, sub_it in zip(target.elts, it.args[1]):
                out.extend(self.loop_bindings(e, sub_it, lid))
            return out
        if name == "builtins.enumerate" and isinstance(
                target, (ast.Tuple, ast.List)) and len(target.elts) == 2 \
                and len(it.args[1]) >= 1:
            start = None
            if len(it.args[1]) > 1:
                start = it.args[1][1]
            for k, v in it.args[2]:
                if k == "start":
                    start = v
            idx = T("index", lid) if start is None else \
                T("binop", "Add", T("index", lid), start)
            return [(target.elts[0], idx)] + \
                self.loop_bindings(target.elts[1], it.args[1][0], lid)
        el = T("elem", it, lid)
        iu = self.unname(it)
        if iu.op == "binop" and iu.args[0] == "Mult":
            for rep in (iu.args[1], iu.args[2]):
                ru = self.unname(rep)
                if ru.op == "list" and len(ru.args) == 1 and \
                        tm.is_const(ru.args[0]):
                    el = ru.args[0]   # every element of [c] * n is c
        if isinstance(target, (ast.Tuple, ast.List)):
            out = []
            for i, e in enumerate(target.elts):
                out.extend(self._bind_sub(e, tm.sub(el, const(i))))
            return out
        return [(target, el)]

    def _bind_sub(self, target, val: T):
        if isinstance(target, (ast.Tuple, ast.List)):
            out = []
            for i, e in enumerate(target.elts):
                out.extend(self._bind_sub(e, tm.sub(val, const(i))))
            return out
        return [(target, val)]

    def st_For(self, s, frame, live):
        if isinstance(s.iter, ast.IfExp) and not s.orelse:
            # for x in (A if c else ()): ...   is   if c: for x in A: ...
            def empty(n):
                return isinstance(n, (ast.Tuple, ast.List)) and not n.elts
            if empty(s.iter.orelse) or empty(s.iter.body):
                neg = empty(s.iter.body)
                loop = ast.For(target=s.target, body=s.body, orelse=[],
                               iter=s.iter.orelse if neg else s.iter.body,
                               type_comment=None)
                test = s.iter.test
                if neg:
                    test = ast.copy_location(
                        ast.UnaryOp(op=ast.Not(), operand=test), test)
                node = ast.If(test=test, body=[ast.copy_location(loop, s)],
                              orelse=[])
                return self.st_If(ast.copy_location(node, s), frame, live)
        it = self.eval(s.iter, frame, live)
        itu = self.unname(it)
        lit = literal_items(itu, self.unname, self._known_len(live))
        if lit is not None and itu.op not in ("tuple", "list") and \
                not is_range_literal(itu):
            itu = T("tuple", *lit)         # enumerate / zip of literals
        has_jump = _own_jumps(s.body)
        nested_loop = any(isinstance(n, (ast.For, ast.While))
                          for st in s.body for n in ast.walk(st))
        if itu.op in ("tuple", "list") and 0 < len(itu.args) <= 8 and \
                not any(x.op == "star" for x in itu.args) and \
                has_jump and not nested_loop:
            return self._unroll(s, list(itu.args), frame, live)
        if itu.op in ("tuple", "list") and 0 < len(itu.args) <= 8 and \
                not any(x.op == "star" for x in itu.args) and \
                not has_jump:
            # small literal iteration space: unroll (exact)
            for x in itu.args:
                if tm.is_const(live, False):
                    break
                self.assign(s.target, x, frame, live, s)
                live = self.exec_block(s.body, frame, live)
            if s.orelse and not tm.is_const(live, False):
                live = self.exec_block(s.orelse, frame, live)
            return live
        if is_range_literal(itu) and not s.orelse and not has_jump:
            for k in range_values(itu):
                if tm.is_const(live, False):
                    break
                self.assign(s.target, const(k), frame, live, s)
                live = self.exec_block(s.body, frame, live)
            return live
        lid = self.new_loop(s)
        names = self._assigned_names(s.body)
        tnames = self._assigned_names([ast.Expr(value=ast.Constant(0))])  # []
        inits = {}
        for n in names:
            if n in frame.env:
                inits[n] = frame.env[n]
                frame.env[n] = T("loopvar", n, lid, inits[n])
        attr_inits = {}
        fresh_attrs = set()
        for (bn, an) in self._assigned_attrs(s.body):
            if bn in frame.env:
                key = (frame.env[bn], an)
                if key in self.attrs:
                    attr_inits[key] = self.attrs[key]
                    self.attrs[key] = T("loopvar", f"{bn}.{an}", lid,
                                        attr_inits[key])
                else:
                    # not written before the loop: it starts as the object's
                    # own attribute and is carried from one iteration to the
                    # next all the same
                    attr_inits[key] = tm.attr(frame.env[bn], an)
                    fresh_attrs.add(key)
                    self.attrs[key] = T("loopvar", f"{bn}.{an}", lid,
                                        attr_inits[key])
        rl = self._range_len(it) if isinstance(s.target, ast.Name) else None
        if rl is not None:
            # for i in range(len(X)) ... X[i]: the same loop as
            # for i, x in enumerate(X) — one term for both spellings
            self.range_len[lid] = rl
            it = tm.call(tm.glob("builtins.enumerate"), (rl,), ())
        self.emit("loop", s, live, frame, iter=it, lid=lid)
        self.bind_loop_target(s.target, it, lid, frame, live, s,
                              through_map=True)
        saved = self.loops
        self.loops = self.loops + (lid,)
        body_live = tm.mk_and(live, T("iter", lid))
        self.loop_pending.append([])
        out_live = self.exec_block(s.body, frame, body_live)
        self._merge_pending(frame, out_live)
        self.loops = saved
        for n in names:
            if n in frame.env and not (n in inits and
                                       frame.env[n] == T("loopvar", n, lid,
                                                         inits[n])):
                frame.env[n] = self._append_loop(
                    n, lid, inits.get(n, T("undefined")), frame.env[n], it)
            elif n in inits:
                frame.env[n] = inits[n]
        for key, init in attr_inits.items():
            cur = self.attrs.get(key)
            if cur is not None and cur.op == "loopvar" and cur.args[1] == lid:
                if key in fresh_attrs:
                    del self.attrs[key]
                else:
                    self.attrs[key] = init
            elif cur is not None:
                self.attrs[key] = T("loopout", f"{key[1]}", lid, init, cur)
        if s.orelse:
            self.exec_block(s.orelse, frame, live)
        return live

    def _known_len(self, live: T):
        """lengths the path condition fixes: `len(x) == n` holds / its
        negation has already left the path (raise, return)"""
        def kl(x: T) -> Optional[int]:
            if self.known_len is not None:
                v = self.known_len(x)
                if v is not None:
                    return v
            ln = tm.call(tm.glob("builtins.len"), (x,), ())
            for a in tm.atoms(live):
                if a.op == "cmp" and a.args[0] in ("Eq", "NotEq") and \
                        a.args[1] is ln and tm.is_const(a.args[2]) and \
                        type(tm.const_val(a.args[2])) is int:
                    eq = a.args[0] == "Eq"
                    if tm.fold(live, lambda t: (not eq) if t is a
                               else None) is False:
                        return tm.const_val(a.args[2])
            return None
        return kl

    def _append_loop(self, n, lid, init, upd, it):
        """Value of a loop-carried variable after the loop.

        ``xs = []`` followed by ``for t in it: xs.append(E)`` where E does
        not read a loop-carried value is the list comprehension
        ``[E for t in it]``: both spellings get the comprehension term."""
        lv = T("loopvar", n, lid, init)
        i0 = self.unname(init)
        if i0.op == "list" and not i0.args and upd.op == "mut" and \
                upd.args[0] == lv and upd.args[1] == "append" and \
                len(upd.args[2]) == 1:
            e = upd.args[2][0]
            if not any(x.op in ("loopvar", "loopout") and x.args[1] == lid
                       for x in e.walk()):
                return T("comp", "list", e, ((it, lid),), ())
        fl = self._fill_loop(lv, lid, i0, upd, it)
        if fl is not None:
            return fl
        return T("loopout", n, lid, init, upd)

    def _fill_loop(self, lv, lid, i0, upd, it):
        """``m = np.empty((len(X), w))`` followed by ``for i, row in
        enumerate(X): m[i] = E(row)`` is ``np.array([E(row) for row in X])``;
        where E converts the row as a whole (np.array(row).astype(float)) it
        is the conversion of X as a whole."""
        def is_call_to(t, *names):
            return t.op == "call" and tm.callee_name(t) in names
        itu = self.unname(it)
        if not (is_call_to(i0, "numpy.empty", "numpy.zeros") and i0.args[1]
                and upd.op == "upd" and upd.args[0] == lv and
                upd.args[1] is T("index", lid) and
                tm.callee_name(itu) == "builtins.enumerate" and
                len(itu.args[1]) == 1 and not itu.args[2]):
            return None
        X = itu.args[1][0]
        shape = self.unname(i0.args[1][0])
        ln = tm.call(tm.glob("builtins.len"), (X,), ())
        first = shape.args[0] if shape.op in ("tuple", "list") and \
            shape.args else shape
        if self.unname(first) is not ln and not (
                is_call_to(self.unname(first), "builtins.len") and
                self.unname(self.unname(first).args[1][0]) is
                self.unname(X)):
            return None
        e = upd.args[2]
        if any(x.op in ("loopvar", "loopout") and x.args[1] == lid
               for x in e.walk()):
            return None
        el = T("elem", X, lid)
        dt = dict(i0.args[2]).get("dtype")
        if dt is not None and dt is not tm.glob("builtins.float"):
            return None
        # E applied to the row as a whole: E[row := X]
        if sum(1 for x in e.walk() if x is el) == 1:
            conv, ok = e, True
            while conv is not el:
                if is_call_to(conv, "numpy.array", "numpy.asarray") and \
                        len(conv.args[1]) == 1:
                    conv = conv.args[1][0]
                elif conv.op == "call" and conv.args[0].op == "attr" and \
                        conv.args[0].args[1] == "astype" and \
                        len(conv.args[1]) == 1:
                    conv = conv.args[0].args[0]
                else:
                    ok = False
                    break
            if ok:
                return e.map(lambda x: X if x is el else None)
        comp = T("comp", "list", e, ((X, lid),), ())
        return tm.call(tm.glob("numpy.array"), (comp,), ())

    def st_While(self, s, frame, live):
        lid = self.new_loop(s)
        names = self._assigned_names(s.body)
        inits = {}
        for n in names:
            if n in frame.env:
                inits[n] = frame.env[n]
                frame.env[n] = T("loopvar", n, lid, inits[n])
        c = self.eval(s.test, frame, live)
        self.emit("loop", s, live, frame, iter=c, lid=lid)
        saved = self.loops
        self.loops = self.loops + (lid,)
        self.loop_pending.append([])
        out_live = self.exec_block(
            s.body, frame, tm.mk_and(live, T("iter", lid), self.as_cond(c)))
        self._merge_pending(frame, out_live)
        self.loops = saved
        for n in names:
            if n in frame.env:
                frame.env[n] = T("loopout", n, lid,
                                 inits.get(n, T("undefined")), frame.env[n])
        return live

    def st_Break(self, s, frame, live):
        if self.loop_pending:
            self.loop_pending[-1].append((live, dict(frame.env),
                                          dict(self.attrs), "break"))
        return FALSE

    def st_Continue(self, s, frame, live):
        if self.loop_pending:
            self.loop_pending[-1].append((live, dict(frame.env),
                                          dict(self.attrs), "continue"))
        return FALSE

    def _unroll(self, s, items, frame: Frame, live: T) -> T:
        """exact unrolling of a loop over a completely known iteration space,
        including break / continue: a `continue` state rejoins before the
        next item, a `break` state rejoins after the loop"""
        breaks = []
        for x in items:
            if tm.is_const(live, False):
                break
            self.assign(s.target, x, frame, live, s)
            self.loop_pending.append([])
            out = self.exec_block(s.body, frame, live)
            pend = self.loop_pending.pop()
            conts = [p for p in pend if p[3] == "continue"]
            breaks.extend(p for p in pend if p[3] == "break")
            if tm.is_const(out, False) and conts:
                lv, env, attrs, _ = conts.pop()
                frame.env, self.attrs, out = dict(env), dict(attrs), lv
            for lv, env, attrs, _ in reversed(conts):
                frame.env = self._join(lv, env, frame.env)
                self.attrs = self._join(lv, attrs, self.attrs)
                out = tm.mk_or(out, lv)
            live = out
        if s.orelse and not tm.is_const(live, False):
            # for ... else: the else block runs on the paths without a break
            live = self.exec_block(s.orelse, frame, live)
        if tm.is_const(live, False) and breaks:
            lv, env, attrs, _ = breaks.pop()
            frame.env, self.attrs, live = dict(env), dict(attrs), lv
        for lv, env, attrs, _ in reversed(breaks):
            frame.env = self._join(lv, env, frame.env)
            self.attrs = self._join(lv, attrs, self.attrs)
            live = tm.mk_or(live, lv)
        return live

    def _merge_pending(self, frame: Frame, body_live: T):
        """state at the end of a loop body = fall-through state joined with
        the states at every continue/break (their assignments persist)"""
        pend = self.loop_pending.pop()
        if not pend:
            return
        if tm.is_const(body_live, False):
            live0, env0, attrs0, _ = pend[-1]
            pend = pend[:-1]
            frame.env, self.attrs = env0, attrs0
        for (lv, env, attrs, _) in reversed(pend):
            frame.env = self._join(lv, env, frame.env)
            self.attrs = self._join(lv, attrs, self.attrs)

    # ------------------------------------------------------------ try / with
    def st_Try(self, s, frame, live):
        self.try_counter += 1
        tid = self.try_counter
        htypes = []
        for h in s.handlers:
            if h.type is None:
                htypes.append("BaseException")
            else:
                try:
                    htypes.append(ast.unparse(h.type))
                except Exception:
                    htypes.append("?")
        saved = self.tries
        self.tries = self.tries + ((tid, tuple(htypes)),)
        env0 = dict(frame.env)
        attrs0 = dict(self.attrs)
        live_body = self.exec_block(s.body, frame, live)
        self.tries = saved
        if s.orelse and not tm.is_const(live_body, False):
            live_body = self.exec_block(s.orelse, frame, live_body)
        env_b, attrs_b = frame.env, self.attrs
        outs = [(live_body, env_b, attrs_b, None)]
        for h, ht in zip(s.handlers, htypes):
            atom = T("exc", ht, tid)
            if self.assume(atom) is False:
                continue       # the configuration excludes this exception
            # handler starts from the state before the try, with everything
            # assigned in the body possibly updated
            frame.env = self._join(T("partial", tid), env_b, env0)
            self.attrs = self._join(T("partial", tid), attrs_b, attrs0)
            if h.name:
                frame.env[h.name] = T("excval", ht, tid)
            self.emit("except", h, tm.mk_and(live, atom), frame, types=ht,
                      tid=tid)
            lh = self.exec_block(h.body, frame, tm.mk_and(live, atom))
            outs.append((lh, frame.env, self.attrs, atom))
        alive = [o for o in outs if not tm.is_const(o[0], False)]
        if not alive:
            frame.env, self.attrs = env_b, attrs_b
            out_live = FALSE
        else:
            out_live, env, attrs, _ = alive[0]
            for lv, e2, a2, atom in alive[1:]:
                env = self._join(atom, e2, env)
                attrs = self._join(atom, a2, attrs)
                out_live = tm.mk_or(out_live, lv)
            frame.env, self.attrs = env, attrs
            # the try statement as a whole continues under `live` unless all
            # arms terminated
            if len(alive) > 1 or alive[0][3] is None:
                out_live = live if not tm.is_const(live_body, False) \
                    else out_live
        if s.finalbody:
            fl = self.exec_block(s.finalbody, frame,
                                 live if tm.is_const(out_live, False)
                                 else out_live)
            if tm.is_const(fl, False):
                return FALSE
        return out_live

    def st_With(self, s, frame, live):
        entered = []
        for item in s.items:
            v = self.eval(item.context_expr, frame, live)
            self.emit("with_enter", s, live, frame, ctx=v)
            entered.append(v)
            if item.optional_vars is not None:
                self.assign(item.optional_vars, v, frame, live, s)
        out = self.exec_block(s.body, frame, live)
        for v in reversed(entered):
            self.emit("with_exit", s, live if tm.is_const(out, False) else out,
                      frame, ctx=v)
        return out

    # ========================================================== expressions
    def eval(self, n: Optional[ast.AST], frame: Frame, live: T,
             quiet: bool = False) -> T:
        if n is None:
            return NONE
        m = getattr(self, "ev_" + type(n).__name__, None)
        if m is None:
            return tm.unknown(type(n).__name__)
        if quiet:
            saved = len(self.events)
            r = m(n, frame, live)
            del self.events[saved:]
            return r
        return m(n, frame, live)

    def ev_Constant(self, n, frame, live):
        return const(n.value)

    def ev_JoinedStr(self, n, frame, live):
        parts = []
        for v in n.values:
            if isinstance(v, ast.Constant):
                parts.append(const(v.value))
            elif isinstance(v, ast.FormattedValue):
                val = self.eval(v.value, frame, live)
                if v.conversion != -1 or v.format_spec is not None:
                    spec = ast.unparse(v.format_spec) \
                        if v.format_spec is not None else ""
                    val = T("fmtval", val, const(v.conversion), const(spec))
                parts.append(val)
        return T("fstr", *parts)

    def ev_FormattedValue(self, n, frame, live):
        return self.eval(n.value, frame, live)

    def ev_Name(self, n, frame, live):
        return self.lookup_name(n.id, frame)

    def lookup_name(self, name: str, frame: Frame) -> T:
        if name in frame.env:
            return frame.env[name]
        f = frame
        while f.parent_env is not None:
            if name in f.parent_env:
                return f.parent_env[name]
            break
        return self.global_name(name, frame.module, frame.local_imports)

    def global_name(self, name: str, module: Module,
                    local_imports: Optional[Dict[str, str]] = None) -> T:
        q = self.prog.resolve_dotted(module, name, local_imports)
        if q is None:
            if name in BUILTINS:
                return tm.glob("builtins." + name)
            return tm.unknown("name " + name)
        return self.qual_to_term(q)

    def qual_to_term(self, q: str) -> T:
        obj = self.prog.lookup(q)
        if isinstance(obj, Function):
            return tm.func(obj.qualname)
        if isinstance(obj, Class):
            return tm.cls(obj.qualname)
        if isinstance(obj, Module):
            return T("module", obj.name)
        if isinstance(obj, tuple) and obj[0] == "const":
            return self.module_const(obj[1], obj[2], obj[3])
        if isinstance(obj, tuple) and obj[0] == "member":
            c = obj[1]
            if self.prog.enum_members(c.qualname) is not None:
                return tm.enum(c.qualname, obj[2])
            # (names of the class body — its methods — are in scope for a
            # class-level table such as {(True, False): _multiply_right})
            env_ = {mn: tm.func(mf.qualname) for mn, mf in c.methods.items()}
            key_ = f"{c.qualname}.{obj[2]}"
            if key_ not in self._const_cache:
                for nn in ast.walk(obj[3]):
                    if isinstance(nn, ast.Name) and nn.id != obj[2] and \
                            nn.id not in env_:
                        for k_ in self.prog.mro(c):
                            if nn.id in k_.members and not isinstance(
                                    k_.members[nn.id], ast.FunctionDef):
                                env_[nn.id] = self.qual_to_term(
                                    f"{k_.qualname}.{nn.id}")
                                break
            return self.module_const(c.module, obj[2], obj[3], key=key_,
                                     env=env_)
        if q in _LIB_CONSTANTS:
            return const(_LIB_CONSTANTS[q])
        head = q.split(".")[0]
        if head == "evo":
            # names defined in evo/__init__ etc.
            return tm.glob(q)
        return tm.glob(q)

    def module_const(self, m: Module, name: str, node: ast.AST,
                     key: Optional[str] = None,
                     env: Optional[Dict[str, T]] = None) -> T:
        key = key or f"{m.name}.{name}"
        if key in self._const_cache:
            return self._const_cache[key]
        self._const_cache[key] = tm.glob(key)      # recursion guard
        fr = Frame(None, m, dict(env or {}), {}, None, 99)
        saved_events = self.events
        self.events = []
        try:
            v = self.eval(node, fr, TRUE)
        finally:
            self.events = saved_events
        if v.op == "fstr" and all(
                tm.is_const(x) and isinstance(tm.const_val(x), (str, int))
                and not isinstance(tm.const_val(x), bool) for x in v.args):
            # FMT = "%.{}e".format(DECIMALS): a text assembled from constants
            v = const("".join(str(tm.const_val(x)) for x in v.args))
        # only keep literal-like values; anything computed stays a named global
        if v.op == "const" and isinstance(tm.const_val(v), (
                str, bytes, int, float)) and \
                not m.name.startswith("evo.tools.settings"):
            # a named scalar (NSEC_PER_SEC = 10**9, SUFFIX = ".tum") is the
            # scalar: code that names its literals analyses like code that
            # spells them out
            out = v
        elif v.op == "global" and not v.args[0].startswith("evo.") and \
                not m.name.startswith("evo.tools.settings"):
            out = v          # NAME = np.pi: an alias of the library constant
        elif self._is_literal(v):
            out = T("named", key, v)
        else:
            out = T("named", key, v) if v.op == "call" else tm.glob(key)
        self._const_cache[key] = out
        return out

    def _mutated_table(self, m: Module, name: str) -> bool:
        """NAME[...] = ..., del NAME[...], NAME.update / append / ... (...),
        NAME += ... somewhere in the program (in the defining module by its
        name, elsewhere as an attribute `module.NAME`)"""
        cache = self.prog.__dict__.setdefault("_mutated_tables", {})
        k = (m.name, name)
        if k in cache:
            return cache[k]
        MUT = {"update", "append", "extend", "setdefault", "pop", "popitem",
               "add", "insert", "clear", "remove", "discard", "sort",
               "reverse", "__setitem__", "__delitem__"}

        def is_it(n, mod) -> bool:
            if isinstance(n, ast.Name):
                return n.id == name and (
                    mod is m or mod.imports.get(name) == f"{m.name}.{name}")
            return isinstance(n, ast.Attribute) and n.attr == name and \
                mod is not m
        hit = False
        for mod in self.prog.modules.values():
            for n in ast.walk(mod.tree):
                if isinstance(n, ast.Subscript) and isinstance(
                        n.ctx, (ast.Store, ast.Del)) and is_it(n.value, mod):
                    hit = True
                elif isinstance(n, ast.Call) and isinstance(
                        n.func, ast.Attribute) and n.func.attr in MUT and \
                        is_it(n.func.value, mod):
                    hit = True
                elif isinstance(n, ast.AugAssign) and is_it(n.target, mod):
                    hit = True
                if hit:
                    break
            if hit:
                break
        cache[k] = hit
        return hit

    def _is_literal(self, v: T) -> bool:
        if v.op in ("const", "enum"):
            return True
        if v.op in ("func", "cls", "closure"):
            return True          # a table entry naming a function / class /
            #                      lambda
        if v.op == "global" and not v.args[0].startswith("evo."):
            return True          # ... or a library function / constant
        if v.op == "star":
            return all(self._is_literal(x) for x in v.args
                       if isinstance(x, T))
        if v.op in ("tuple", "list", "set"):
            return all(self._is_literal(x) for x in v.args)
        if v.op == "dict":
            return all(self._is_literal(k) and self._is_literal(x)
                       for k, x in v.args)
        if v.op == "binop":
            return self._is_literal(v.args[1]) and self._is_literal(v.args[2])
        if v.op == "named":
            return self._is_literal(v.args[1])
        if v.op == "call" and v.args[0].op == "cls":
            # a record (NamedTuple / dataclass without constructor code) of
            # literals: a row of a table
            rec = self._record_fields(v)
            return rec is not None and all(self._is_literal(x)
                                           for x in rec.values())
        return False

    @staticmethod
    def unname(v: T) -> T:
        while isinstance(v, T) and v.op == "named":
            v = v.args[1]
        return v

    def ev_Attribute(self, n, frame, live):
        base = self.eval(n.value, frame, live)
        return self.get_attr(base, n.attr, frame, live, n)

    def _new_option_default(self, name: str) -> Optional[T]:
        """parser default of a command-line option that is not among the
        options of the pinned tree (sa/known_options.py): the properties
        quantify over the documented options, so an option added later is
        analysed at its default"""
        from .known_options import KNOWN_OPTIONS
        if name in KNOWN_OPTIONS:
            return None
        tab = getattr(self.prog, "_new_opts", None)
        if tab is None:
            from .lib import parser_arguments
            tab = {}
            for (_, _, opts, kws) in parser_arguments(
                    self.prog, lambda n: n.startswith("evo.")):
                d = kws.get("dest")
                if isinstance(d, ast.Constant):
                    dest = d.value
                else:
                    longs = [o for o in opts if o.startswith("--")]
                    if not longs:
                        continue             # positional: always given
                    dest = longs[0][2:].replace("-", "_")
                if dest in KNOWN_OPTIONS:
                    continue
                act = kws.get("action")
                act = act.value if isinstance(act, ast.Constant) else None
                dflt = kws.get("default")
                if isinstance(dflt, ast.Constant):
                    val = const(dflt.value)
                elif dflt is None and act == "store_true":
                    val = const(False)
                elif dflt is None and act == "store_false":
                    val = const(True)
                elif dflt is None:
                    val = NONE
                else:
                    val = None               # computed default: unknown
                if dest in tab and tab[dest] is not val:
                    val = None               # parsers disagree
                tab[dest] = val
            self.prog._new_opts = tab
        return tab.get(name)

    def _record_fields(self, base: T) -> Optional[Dict[str, T]]:
        """fields of a value built by calling a NamedTuple / dataclass of
        the program (no hand-written constructor): name -> argument term"""
        if base.op != "call" or base.args[0].op != "cls":
            return None
        c = self.prog.classes.get(base.args[0].args[0])
        if c is None:
            return None
        rec = getattr(c, "_record", 0)
        if rec == 0:
            rec = None
            is_nt = any(b.rsplit(".", 1)[-1] == "NamedTuple" for b in c.bases)
            is_dc = any((ast.unparse(d.func) if isinstance(d, ast.Call)
                         else ast.unparse(d)).rsplit(".", 1)[-1] == "dataclass"
                        for d in c.node.decorator_list)
            if (is_nt or is_dc) and not any(
                    m in c.methods for m in ("__init__", "__new__",
                                             "__post_init__")):
                rec = [(st.target.id, st.value) for st in c.node.body
                       if isinstance(st, ast.AnnAssign) and
                       isinstance(st.target, ast.Name)]
            c._record = rec
        if rec is None:
            return None
        pos, kws = base.args[1], dict(base.args[2])
        if len(pos) > len(rec) or any(x.op == "star" for x in pos) or \
                "**" in kws:
            return None
        out = {}
        for i, (fname, dflt) in enumerate(rec):
            if i < len(pos):
                out[fname] = pos[i]
            elif fname in kws:
                out[fname] = kws[fname]
            elif isinstance(dflt, ast.Constant):
                out[fname] = const(dflt.value)
        return out

    def get_attr(self, base: T, name: str, frame: Frame, live: T,
                 node=None) -> T:
        if base.op == "named" and base.args[1].op == "call" and \
                base.args[1].args[0].op == "cls":
            base = base.args[1]       # a module-level record constant
        rec = self._record_fields(base)
        if rec is not None and name in rec:
            return rec[name]
        if rec is not None:
            # a property of the record: a function of its fields
            c = self.prog.classes.get(base.args[0].args[0])
            mth = self.prog.find_method(c, name)
            if mth is not None and mth.is_property and \
                    frame.depth < self.max_depth + 3 and \
                    mth.qualname not in self.stack:
                return self.inline_call(mth, {mth.params[0]: base}, frame,
                                        live, node, c)
        if base.op == "param" and base.args[0] == "args" and \
                (base, name) not in self.attrs:
            dv = self._new_option_default(name)
            if dv is not None:
                return dv
        if base.op == "module":
            q = self.prog.canonical(base.args[0] + "." + name)
            return self.qual_to_term(q)
        if base.op == "global":
            if base.args[0].startswith("evo.") and isinstance(
                    self.prog.lookup(base.args[0]), tuple):
                return tm.attr(base, name)     # evo module constant object
            lib_const = _LIB_CONSTANTS.get(base.args[0] + "." + name)
            if lib_const is not None:
                return const(lib_const)
            return tm.glob(base.args[0] + "." + name)
        if base.op == "cls":
            cq = base.args[0]
            c = self.prog.classes.get(cq)
            if c is not None:
                if self.prog.enum_members(cq) is not None and \
                        name in c.members:
                    return tm.enum(cq, name)
                mth = self.prog.find_method(c, name)
                if mth is not None:
                    return tm.func(mth.qualname)
                for k in self.prog.mro(c):
                    if name in k.members:
                        return self.qual_to_term(f"{k.qualname}.{name}")
            return tm.attr(base, name)
        if base.op == "enum":
            if name == "value":
                c = self.prog.classes.get(base.args[0])
                if c and base.args[1] in c.members:
                    node_ = c.members[base.args[1]]
                    if isinstance(node_, ast.Constant):
                        return const(node_.value)
            if name == "name":
                return const(base.args[1])
            # a property defined on the enumeration (Plane.XY.normal_axis):
            # a table lookup for a known member
            c = self.prog.classes.get(base.args[0])
            mth = self.prog.find_method(c, name) if c is not None else None
            if mth is not None and mth.is_property and \
                    frame.depth < self.max_depth + 2 and \
                    mth.qualname not in self.stack:
                return self.inline_call(mth, {mth.params[0]: base}, frame,
                                        live, node, c)
            return tm.attr(base, name)
        if base.op == "named":
            return self.get_attr(base.args[1], name, frame, live, node) \
                if base.args[1].op in ("enum", "cls") else tm.attr(base, name)
        key = (base, name)
        if key in self.attrs:
            return self.attrs[key]
        if base.op == "ite":
            # a branch the path condition has already excluded (`x = None if
            # c else obj` ... `if x is not None: x.attr`) is not read
            lits = set(live.args) if live.op == "and" else {live}
            c_ = base.args[0]
            if c_ in lits:
                return self.get_attr(base.args[1], name, frame, live, node)
            if tm.mk_not(c_) in lits:
                return self.get_attr(base.args[2], name, frame, live, node)
            return tm.ite(base.args[0],
                          self.get_attr(base.args[1], name, frame, live, node),
                          self.get_attr(base.args[2], name, frame, live, node))
        if base.op == "super":
            c = self.prog.classes.get(base.args[0])
            scls = self.prog.classes.get(base.args[1]) if base.args[1] else c
            if c is not None and scls is not None:
                mth = self.prog.find_method(scls, name, after=c)
                if mth is not None:
                    return T("bound", tm.func(mth.qualname), base.args[2])
            return tm.attr(base, name)
        if self.inline_properties:
            c = self.class_of(base, frame)
            if c is not None:
                mth = self.prog.find_method(c, name)
                if mth is not None and mth.is_property and \
                        frame.depth < self.max_depth and \
                        mth.qualname not in self.stack:
                    return self.inline_call(mth, {mth.params[0]: base}, frame,
                                            live, node, c)
        else:
            # a property that is not part of the pinned tree is looked
            # through like any function added later
            c = self.class_of(base, frame)
            if c is not None:
                mth = self.prog.find_method(c, name)
                if mth is not None and mth.is_property and \
                        not self._known(mth) and \
                        frame.depth < self.max_depth + 2 and \
                        mth.qualname not in self.stack:
                    return self.inline_call(mth, {mth.params[0]: base}, frame,
                                            live, node, c)
        # a class-level table read through the instance (self._TABLE): the
        # class constant, as long as no instance attribute of that name is
        # ever assigned
        if base.op == "param" and name.isupper() or (
                base.op == "param" and name.startswith("_") and
                name[1:].isupper()):
            c = self.class_of(base, frame)
            if c is not None:
                for k in self.prog.mro(c):
                    if name in k.members and not isinstance(
                            k.members[name], (ast.FunctionDef,)):
                        return self.qual_to_term(f"{k.qualname}.{name}")
        return tm.attr(base, name)

    def class_of(self, t: T, frame: Frame) -> Optional[Class]:
        if t.op == "param":
            if frame.func is not None and frame.self_name == t.args[0] and \
                    frame.depth == 0:
                return frame.cls
            f = frame.func
            root = self._root_func()
            for fn in (root, f):
                if fn is None:
                    continue
                ann = fn.annotation(t.args[0])
                if ann is not None:
                    c = self._class_from_annotation(ann, fn.module)
                    if c is not None:
                        return c
                if fn.cls is not None and fn.params and \
                        fn.params[0] == t.args[0] and not fn.is_static:
                    if fn is root and getattr(self, "_root_cls", None):
                        return self._root_cls   # receiver class of the run
                    return fn.cls
        if t.op in ("sub", "elem"):
            # an entry of a parameter annotated Sequence[X] / List[X] / ...
            cont = t.args[0]
            if t.op == "sub" and t.args[1].op == "slice":
                cont = None
            while cont is not None and cont.op == "sub" and \
                    cont.args[1].op == "slice":
                cont = cont.args[0]               # a slice of the sequence
            if cont is not None and cont.op == "param":
                for fn in (self._root_func(), frame.func):
                    ann = fn.annotation(cont.args[0]) if fn else None
                    if isinstance(ann, ast.Subscript):
                        outer = ast.unparse(ann.value).rsplit(".", 1)[-1]
                        if outer in ("Sequence", "List", "Iterable", "list",
                                     "Collection", "Iterator",
                                     "MutableSequence") and isinstance(
                                ann.slice, (ast.Name, ast.Attribute,
                                            ast.Constant)):
                            c = self._class_from_annotation(ann.slice,
                                                            fn.module)
                            if c is not None:
                                return c
        if t.op == "call" and t.args[0].op == "cls":
            return self.prog.classes.get(t.args[0].args[0])
        if t.op == "selfobj":
            return self.prog.classes.get(t.args[0])
        if t.op == "call" and t.args[0].op == "func":
            fn = self.prog.functions.get(t.args[0].args[0])
            if fn is not None and fn.node.returns is not None:
                return self._class_from_annotation(fn.node.returns, fn.module)
        if t.op == "call" and tm.callee_name(t) == "copy.deepcopy" and \
                t.args[1]:
            return self.class_of(t.args[1][0], frame)
        if t.op == "ite":
            a = self.class_of(t.args[1], frame)
            b = self.class_of(t.args[2], frame)
            if a is not None and b is not None:
                if a is b:
                    return a
                if self.prog.is_subclass(a.qualname, b.qualname):
                    return b
                if self.prog.is_subclass(b.qualname, a.qualname):
                    return a
            return a or b
        return None

    def _root_func(self) -> Optional[Function]:
        if self.stack:
            return self.prog.functions.get(self.stack[0]) or \
                getattr(self, "_root", None)
        return None

    def _class_from_annotation(self, ann: ast.AST, m: Module
                               ) -> Optional[Class]:
        if isinstance(ann, ast.Constant) and isinstance(ann.value, str):
            q = self.prog.resolve_dotted(m, ann.value.strip("'\""))
            return self.prog.classes.get(q) if q else None
        try:
            txt = ast.unparse(ann)
        except Exception:
            return None
        if isinstance(ann, (ast.Name, ast.Attribute)):
            q = self.prog.resolve_dotted(m, txt)
            return self.prog.classes.get(q) if q else None
        if isinstance(ann, ast.Subscript):
            # Optional[X] / Union[X, Y] -> first class that resolves
            for sub_ in ast.walk(ann.slice):
                if isinstance(sub_, (ast.Name, ast.Attribute)):
                    try:
                        q = self.prog.resolve_dotted(m, ast.unparse(sub_))
                    except Exception:
                        q = None
                    if q and q in self.prog.classes:
                        return self.prog.classes[q]
        return None

    def ev_Subscript(self, n, frame, live):
        base = self.eval(n.value, frame, live)
        idx = self.eval(n.slice, frame, live)
        return self.subscript(base, idx)

    def subscript(self, base: T, idx: T) -> T:
        b = self.unname(base)
        if b.op == "global" and b.args[0] == "numpy.s_":
            return idx                 # np.s_[a:b, c] is the index itself
        if idx.op == "index" and self.range_len.get(idx.args[0]) is not None \
                and (self.range_len[idx.args[0]] is base or
                     self.unname(self.range_len[idx.args[0]]) is b):
            # X[i] inside `for i in range(len(X))`: the loop's element
            return T("elem", self.range_len[idx.args[0]], idx.args[0])
        if b.op == "upd" and b.args[1] is idx:
            return b.args[2]           # read back what was just stored
        if b.op == "ite":
            return tm.ite(b.args[0], self.subscript(b.args[1], idx),
                          self.subscript(b.args[2], idx))
        if b.op == "call" and b.args[0].op == "cls" and tm.is_const(idx) \
                and type(tm.const_val(idx)) is int:
            # field k of a NamedTuple value (also through tuple unpacking)
            rec = self._record_fields(b)
            if rec is not None:
                vals = list(rec.values())
                i = tm.const_val(idx)
                if -len(vals) <= i < len(vals):
                    return vals[i]
        if b.op in ("tuple", "list") and idx.op == "slice" and \
                not any(x.op == "star" for x in b.args) and all(
                    a is NONE or (tm.is_const(a) and
                                  type(tm.const_val(a)) is int)
                    for a in idx.args):
            # a slice of a literal sequence
            sl = slice(*[None if a is NONE else tm.const_val(a)
                         for a in idx.args])
            return T(b.op, *list(b.args)[sl])
        if b.op in ("tuple", "list") and tm.is_const(idx) and \
                isinstance(tm.const_val(idx), int) and \
                not isinstance(tm.const_val(idx), bool):
            i = tm.const_val(idx)
            if -len(b.args) <= i < len(b.args):
                return b.args[i]
        if b.op == "dict" and _closed_key(self.unname(idx), self.unname):
            hit = _dict_lookup(b, self.unname(idx), self.unname)
            if hit is not None and hit is not _MISSING:
                return hit
        if b.op == "const" and isinstance(b.args[1], str) and \
                tm.is_const(idx) and isinstance(tm.const_val(idx), int):
            try:
                return const(b.args[1][tm.const_val(idx)])
            except IndexError:
                pass
        return tm.sub(base, idx)

    def ev_Slice(self, n, frame, live):
        return T("slice", self.eval(n.lower, frame, live),
                 self.eval(n.upper, frame, live),
                 self.eval(n.step, frame, live))

    def ev_Tuple(self, n, frame, live):
        return T("tuple", *self._elts(n.elts, frame, live))

    def ev_List(self, n, frame, live):
        return T("list", *self._elts(n.elts, frame, live))

    def ev_Set(self, n, frame, live):
        return T("set", *self._elts(n.elts, frame, live))

    def _elts(self, elts, frame, live):
        out = []
        for e in elts:
            if isinstance(e, ast.Starred):
                v = self.eval(e.value, frame, live)
                vu = self.unname(v)
                if vu.op in ("tuple", "list") and not any(
                        x.op == "star" for x in vu.args):
                    out.extend(vu.args)     # *CONSTANT_TUPLE, *[a, b]
                else:
                    out.append(T("star", v))
            else:
                out.append(self.eval(e, frame, live))
        return out

    def ev_Dict(self, n, frame, live):
        items = []
        for k, v in zip(n.keys, n.values):
            if k is None:
                items.append((T("star", const("**")),
                              self.eval(v, frame, live)))
            else:
                items.append((self.eval(k, frame, live),
                              self.eval(v, frame, live)))
        return T("dict", *items)

    def ev_BinOp(self, n, frame, live):
        l = self.eval(n.left, frame, live)
        r = self.eval(n.right, frame, live)
        lu, ru = self.unname(l), self.unname(r)
        if tm.is_const(lu) and tm.is_const(ru):
            try:
                a, b = tm.const_val(lu), tm.const_val(ru)
                op = type(n.op).__name__
                if isinstance(a, (int, float, str)) and \
                        isinstance(b, (int, float, str)):
                    res = {"Add": lambda: a + b, "Sub": lambda: a - b,
                           "Mult": lambda: a * b, "Div": lambda: a / b,
                           "FloorDiv": lambda: a // b, "Mod": lambda: a % b,
                           "Pow": lambda: a ** b}.get(op)
                    if res is not None and not (
                            op == "Mult" and isinstance(a, str) or
                            isinstance(b, str) and op == "Mult"):
                        return const(res())
                    if res is not None and op == "Mult":
                        v = res()
                        if len(v) < 200:
                            return const(v)
            except Exception:
                pass
        if isinstance(n.op, ast.Add) and lu.op in ("list", "tuple") and \
                ru.op == lu.op:
            return T(lu.op, *(lu.args + ru.args))
        if isinstance(n.op, ast.BitOr):
            # union of two literal sets (frozenset({...}) | CONSTANT_SET)
            def members(t):
                for _ in range(3):
                    if t.op == "call" and tm.callee_name(t) in (
                            "builtins.frozenset", "builtins.set") and \
                            len(t.args[1]) == 1 and not t.args[2]:
                        t = self.unname(t.args[1][0])
                    else:
                        break
                if t.op in ("set", "tuple", "list") and not any(
                        x.op == "star" for x in t.args):
                    return list(t.args)
                return None
            ml, mr = members(lu), members(ru)
            if ml is not None and mr is not None and (
                    lu.op in ("set", "call") or ru.op in ("set", "call")):
                out = []
                for x in ml + mr:
                    if not any(x is y for y in out):
                        out.append(x)
                return T("set", *out)
        if isinstance(n.op, ast.Mult):
            for a, b in ((lu, ru), (ru, lu)):
                if a.op in ("list", "tuple") and tm.is_const(b) and \
                        isinstance(tm.const_val(b), int) and \
                        not isinstance(tm.const_val(b), bool) and \
                        0 <= tm.const_val(b) * len(a.args) <= 64:
                    return T(a.op, *(a.args * tm.const_val(b)))
        return T("binop", type(n.op).__name__, l, r)

    def ev_UnaryOp(self, n, frame, live):
        v = self.eval(n.operand, frame, live)
        if isinstance(n.op, ast.Not):
            c = self.as_cond(v)
            if tm.is_const(c):
                return const(not tm.const_val(c))
            vu = self.unname(v)
            if vu.op == "call" and vu.args[0].op == "attr" and \
                    vu.args[0].args[1] == "any" and not vu.args[1] and \
                    not vu.args[2]:
                ne = self.unname(vu.args[0].args[0])
                if tm.callee_name(ne) == "numpy.not_equal" and \
                        len(ne.args[1]) == 2 and not ne.args[2]:
                    # not np.not_equal(a, b).any()  is  np.equal(a, b).all()
                    return tm.call(tm.attr(tm.call(
                        tm.glob("numpy.equal"), ne.args[1], ()), "all"),
                        (), ())
            return T("unop", "Not", v)
        if tm.is_const(v) and isinstance(tm.const_val(v), (int, float)) \
                and not isinstance(tm.const_val(v), bool):
            if isinstance(n.op, ast.USub):
                return const(-tm.const_val(v))
            if isinstance(n.op, ast.UAdd):
                return v
        return T("unop", type(n.op).__name__, v)

    def ev_BoolOp(self, n, frame, live):
        vals = []
        cur_live = live
        is_and = isinstance(n.op, ast.And)
        for v in n.values:
            t = self.eval(v, frame, cur_live)
            c = self.as_cond(t)
            if tm.is_const(c):
                if is_and and not tm.const_val(c):
                    if not vals:
                        return t
                    vals.append(t)
                    break
                if not is_and and tm.const_val(c):
                    if not vals:
                        return t
                    vals.append(t)
                    break
                continue     # neutral element
            vals.append(t)
            cur_live = tm.mk_and(cur_live, c if is_and else tm.mk_not(c))
        if not vals:
            return const(is_and)
        if len(vals) == 1:
            return vals[0]
        return T("boolop", "And" if is_and else "Or", tuple(vals))

    def ev_Compare(self, n, frame, live):
        left = self.eval(n.left, frame, live)
        parts = []
        for op, comp in zip(n.ops, n.comparators):
            right = self.eval(comp, frame, live)
            ru_ = self.unname(right)
            owner = None
            if isinstance(op, (ast.In, ast.NotIn)) and \
                    tm.is_const(self.unname(left)) and isinstance(
                        tm.const_val(self.unname(left)), str):
                if ru_.op == "attr" and ru_.args[1] == "__dict__":
                    owner = ru_.args[0]
                elif tm.callee_name(ru_) == "builtins.vars" and \
                        len(ru_.args[1]) == 1:
                    owner = ru_.args[1][0]
            if owner is not None:
                # "name" in obj.__dict__ / vars(obj): the instance has the
                # attribute — the hasattr(obj, "name") of instance state
                h = self.do_call(tm.glob("builtins.hasattr"), [owner, left],
                                 [], n, frame, live)
                parts.append(h if isinstance(op, ast.In) else
                             T("unop", "Not", h) if not tm.is_const(h)
                             else const(not tm.const_val(h)))
                left = right
                continue
            parts.append(self.compare(type(op).__name__, left, right))
            left = right
        if len(parts) == 1:
            return parts[0]
        conds = [self.as_cond(p) for p in parts]
        r = tm.mk_and(*conds)
        return r

    def compare(self, op: str, l: T, r: T) -> T:
        lu, ru = self.unname(l), self.unname(r)
        if op in ("Eq", "NotEq") and lu.op in ("const", "enum") and \
                ru.op not in ("const", "enum"):
            # "kitti" == x reads x == "kitti": the constant on the right
            l, r, lu, ru = r, l, ru, lu
        if op in ("In", "NotIn"):
            # frozenset({...}) / set([...]) / tuple([...]) of a literal
            # collection has that collection's members
            for _ in range(3):
                if ru.op == "call" and tm.callee_name(ru) in (
                        "builtins.frozenset", "builtins.set",
                        "builtins.tuple", "builtins.list") and \
                        len(ru.args[1]) == 1 and not ru.args[2]:
                    ru = self.unname(ru.args[1][0])
                else:
                    break
        if op in ("Is", "IsNot") and tm.is_const(ru, None) and \
                lu.op == "ite" and not getattr(self, "_in_ite_none", False):
            # (None if c else <object>) is None  ==  c
            self._in_ite_none = True
            try:
                ra = self.compare(op, lu.args[1], r)
                rb = self.compare(op, lu.args[2], r)
            finally:
                self._in_ite_none = False
            if tm.is_const(ra) and tm.is_const(rb) and \
                    isinstance(tm.const_val(ra), bool) and \
                    isinstance(tm.const_val(rb), bool):
                va, vb = tm.const_val(ra), tm.const_val(rb)
                if va == vb:
                    return const(va)
                return lu.args[0] if va else tm.mk_not(lu.args[0])
        if op in ("Eq", "Is", "NotEq", "IsNot"):
            eq = None
            if lu.op in ("const", "enum") and ru.op in ("const", "enum"):
                eq = (lu == ru) if lu.op == ru.op else False
                if lu.op == "const" and ru.op == "const":
                    eq = tm.const_val(lu) == tm.const_val(ru) and \
                        (type(tm.const_val(lu)) is type(tm.const_val(ru)) or
                         op in ("Eq", "NotEq"))
            elif lu == ru and lu.op in ("param", "enum", "const"):
                eq = True
            elif tm.is_const(ru, None) and lu.op in (
                    "tuple", "list", "dict", "enum", "func", "cls",
                    "fstr", "binop", "comp", "upd"):
                eq = False
            elif tm.is_const(ru, None) and lu.op == "call" and (
                    lu.args[0].op == "cls" or (tm.callee_name(lu) or "")
                    .startswith(("numpy.", "builtins.")) and
                    tm.callee_name(lu) not in ("builtins.getattr",
                                               "builtins.next",
                                               "builtins.vars")):
                # constructors, numpy / builtin functions: never None (what
                # re.match, dict.get or a helper of the program return can be)
                eq = False
            elif tm.is_const(ru, None) and lu.op == "call" and \
                    lu.args[0].op == "func" and self._never_none(
                        lu.args[0].args[0]):
                eq = False        # every exit of that function returns a value
            if eq is not None:
                return const(eq if op in ("Eq", "Is") else not eq)
        if op in ("In", "NotIn") and ru.op in ("tuple", "list", "set") and \
                lu.op in ("const", "enum") and \
                all(x.op in ("const", "enum") for x in ru.args):
            isin = any(x == lu for x in ru.args)
            return const(isin if op == "In" else not isin)
        if op in ("In", "NotIn") and ru.op == "dict":
            # key membership in a dict display (merged displays included)
            keys = _dict_keys(ru, self.unname)
            if keys is not None and _closed(lu, self.unname) and all(
                    _closed(k, self.unname) for k in keys):
                key = _canon(lu, self.unname)
                isin = any(_canon(k, self.unname) == key for k in keys)
                return const(isin if op == "In" else not isin)
        if op in ("In", "NotIn"):
            # membership of a closed value (tuples of constants / enum
            # members) in a completely known collection
            items = literal_items(ru, self.unname)
            if items is not None and _closed(lu, self.unname) and all(
                    _closed(x, self.unname) for x in items):
                key = _canon(lu, self.unname)
                isin = any(_canon(x, self.unname) == key for x in items)
                return const(isin if op == "In" else not isin)
        if op in ("Lt", "LtE", "Gt", "GtE") and tm.is_const(lu) and \
                tm.is_const(ru):
            try:
                a, b = tm.const_val(lu), tm.const_val(ru)
                return const({"Lt": a < b, "LtE": a <= b, "Gt": a > b,
                              "GtE": a >= b}[op])
            except Exception:
                pass
        return T("cmp", op, l, r)

    def _never_none(self, q: str) -> bool:
        """every exit of the program function returns a value (syntactic:
        no bare / None return, no falling off the end)"""
        cache = self.prog.__dict__.setdefault("_never_none", {})
        if q in cache:
            return cache[q]
        fn = self.prog.functions.get(q)
        ok = False
        if fn is not None and isinstance(fn.node, ast.FunctionDef):
            def ends(body) -> bool:
                if not body:
                    return False
                last = body[-1]
                if isinstance(last, (ast.Return, ast.Raise)):
                    return True
                if isinstance(last, ast.If):
                    return ends(last.body) and ends(last.orelse)
                if isinstance(last, ast.Try):
                    return ends(last.body) and all(
                        ends(h.body) for h in last.handlers)
                if isinstance(last, ast.With):
                    return ends(last.body)
                return False
            rets = [n for n in ast.walk(fn.node) if isinstance(n, ast.Return)]
            inner = [n for n in ast.walk(fn.node) if isinstance(
                n, (ast.FunctionDef, ast.Lambda)) and n is not fn.node]
            params = set(fn.params) | set(fn.kwonly)

            def local_value(name: str) -> bool:
                # a local that is only ever bound to non-None expressions
                if name in params:
                    return False
                vals = []
                for n in ast.walk(fn.node):
                    if isinstance(n, ast.Assign) and any(
                            isinstance(t, ast.Name) and t.id == name
                            for t in n.targets):
                        vals.append(n.value)
                    elif isinstance(n, (ast.AugAssign, ast.AnnAssign)) and \
                            isinstance(n.target, ast.Name) and \
                            n.target.id == name and n.value is not None:
                        vals.append(n.value)
                    elif isinstance(n, (ast.For, ast.With, ast.Tuple)) and \
                            any(isinstance(x, ast.Name) and x.id == name
                                and isinstance(x.ctx, ast.Store)
                                for x in ast.walk(n)) and not isinstance(
                                    n, ast.Tuple):
                        return False
                return bool(vals) and all(
                    isinstance(v, (ast.Call, ast.BinOp, ast.List, ast.Dict,
                                   ast.Tuple, ast.Subscript, ast.ListComp,
                                   ast.JoinedStr)) or (
                        isinstance(v, ast.Constant) and v.value is not None)
                    for v in vals)
            ok = ends(fn.node.body) and not inner and all(
                r.value is not None and not (
                    isinstance(r.value, ast.Constant) and
                    r.value.value is None) and not isinstance(
                        r.value, (ast.IfExp, ast.BoolOp)) and (
                    not isinstance(r.value, ast.Name) or
                    local_value(r.value.id))
                for r in rets) and not any(
                isinstance(n, (ast.Yield, ast.YieldFrom))
                for n in ast.walk(fn.node))
        cache[q] = ok
        return ok

    def ev_IfExp(self, n, frame, live):
        c = self.eval(n.test, frame, live)
        cond = self.as_cond(c)
        if tm.is_const(cond):
            return self.eval(n.body if tm.const_val(cond) else n.orelse,
                             frame, live)
        a = self.eval(n.body, frame, tm.mk_and(live, cond))
        b = self.eval(n.orelse, frame, tm.mk_and(live, tm.mk_not(cond)))
        return tm.ite(cond, a, b)

    def ev_Lambda(self, n, frame, live):
        key = f"{frame.func.qualname if frame.func else '?'}.<lambda>" \
              f"@{n.lineno}:{n.col_offset}"
        self.closures[key] = (n, frame)
        return T("closure", key)

    def ev_Starred(self, n, frame, live):
        return T("star", self.eval(n.value, frame, live))

    def ev_NamedExpr(self, n, frame, live):
        v = self.eval(n.value, frame, live)
        self.assign(n.target, v, frame, live, n)
        return v

    def ev_Await(self, n, frame, live):
        return self.eval(n.value, frame, live)

    # -------------------------------------------------------- comprehension
    def _comp(self, kind, n, elt_nodes, frame, live):
        if kind in ("list", "dict", "gen") and len(n.generators) == 1:
            # small literal iteration space: the literal it denotes (exact);
            # filters are allowed when they are decided for every item (a
            # table search: [v for k, v in TABLE if k == key])
            g = n.generators[0]
            n0 = len(self.events)
            it = self.unname(self.eval(g.iter, frame, live))
            # (a table comprehension over the members of an enumeration is
            # the table; loops over them keep their loop form)
            items = literal_items(it, self.unname, enums=(kind == "dict"))
            if items is not None and 0 < len(items) <= 8:
                saved_env = dict(frame.env)
                out = []
                decided = True
                for x in items:
                    self.assign(g.target, x, frame, live, n)
                    keep = True
                    for c in g.ifs:
                        cc = self.as_cond(self.eval(c, frame, live))
                        if not tm.is_const(cc):
                            decided = False
                            break
                        keep = keep and bool(tm.const_val(cc))
                    if not decided:
                        break
                    if not keep:
                        continue
                    vals = [self.eval(e, frame, live) for e in elt_nodes]
                    out.append(vals[0] if len(vals) == 1 else tuple(vals))
                frame.env = saved_env
                if decided:
                    return T("dict", *out) if kind == "dict" else \
                        T("list", *out)
            del self.events[n0:]
        saved_env = dict(frame.env)
        loops = []
        conds = []
        saved_loops = self.loops
        cur_live = live
        for g in n.generators:
            it = self.eval(g.iter, frame, cur_live)
            lid = self.new_loop(n)
            rl = self._range_len(it) if isinstance(g.target, ast.Name) \
                else None
            if rl is not None:
                self.range_len[lid] = rl
                it = tm.call(tm.glob("builtins.enumerate"), (rl,), ())
            loops.append((it, lid))
            self.loops = self.loops + (lid,)
            cur_live = tm.mk_and(cur_live, T("iter", lid))
            self.bind_loop_target(g.target, it, lid, frame, cur_live, n)
            for c in g.ifs:
                cv = self.eval(c, frame, cur_live)
                cc = self.as_cond(cv)
                conds.append(cc)
                cur_live = tm.mk_and(cur_live, cc)
        elts = [self.eval(e, frame, cur_live) for e in elt_nodes]
        self.loops = saved_loops
        frame.env = saved_env
        elt = elts[0] if len(elts) == 1 else T("tuple", *elts)
        if kind in ("list", "gen") and len(loops) == 1:
            # [f(e) for e in (g(x) for x in X if p(x)) if q(e)]  is
            # [f(g(x)) for x in X if p(x) if q(g(x))]
            it0, lid0 = loops[0]
            inner = self.unname(it0)
            if inner.op == "comp" and inner.args[0] == "gen" and \
                    len(inner.args[2]) == 1:
                el = T("elem", it0, lid0)
                ielt = inner.args[1]
                sub_ = lambda t: self._refold(t.map(
                    lambda x: ielt if x is el else None))
                elt = sub_(elt)
                conds = list(inner.args[3]) + [sub_(c) for c in conds]
                loops = list(inner.args[2])
        return T("comp", kind, elt, tuple(loops), tuple(conds))

    def ev_ListComp(self, n, frame, live):
        return self._comp("list", n, [n.elt], frame, live)

    def ev_SetComp(self, n, frame, live):
        return self._comp("set", n, [n.elt], frame, live)

    def ev_GeneratorExp(self, n, frame, live):
        return self._comp("gen", n, [n.elt], frame, live)

    def ev_DictComp(self, n, frame, live):
        return self._comp("dict", n, [n.key, n.value], frame, live)

    # ----------------------------------------------------------------- call
    def ev_Call(self, n, frame, live):
        fn = self.eval(n.func, frame, live)
        args: List[T] = []
        for a in n.args:
            if isinstance(a, ast.Starred):
                v = self.eval(a.value, frame, live)
                vu = self.unname(v)
                if vu.op in ("tuple", "list"):
                    args.extend(vu.args)
                else:
                    args.append(T("star", v))
            else:
                args.append(self.eval(a, frame, live))
        kwargs: List[Tuple[str, T]] = []
        for k in n.keywords:
            v = self.eval(k.value, frame, live)
            if k.arg is None:
                vu = self.unname(v)
                if vu.op == "dict" and all(tm.is_const(kk) for kk, _ in
                                           vu.args):
                    kwargs.extend((tm.const_val(kk), vv)
                                  for kk, vv in vu.args)
                else:
                    kwargs.append(("**", v))
            else:
                kwargs.append((k.arg, v))
        return self.do_call(fn, args, kwargs, n, frame, live)

    def do_call(self, fn: T, args: List[T], kwargs: List[Tuple[str, T]],
                node, frame: Frame, live: T) -> T:
        self.stats["calls"] += 1
        cands = self._table_callees(fn)
        if cands is not None:
            # the callee is a component of the element of a table that was
            # put together at run time (conditional appends of literal
            # tuples): one call per possible element, the element's other
            # components substituted in the arguments
            el, k, rows = cands
            out = None
            for j, row in reversed(list(enumerate(rows))):
                sub_ = lambda t, row=row: t.map(
                    lambda x: row if x is el else None)
                choice = T("choice", el, j)
                r = self.do_call(
                    row.args[k], [self._refold(sub_(a)) for a in args],
                    [(kw, self._refold(sub_(v))) for kw, v in kwargs], node,
                    frame, tm.mk_and(live, choice))
                out = r if out is None else tm.ite(choice, r, out)
            return out
        if fn.op == "attr" and fn.args[1] == "format" and not kwargs and \
                tm.is_const(fn.args[0]) and \
                isinstance(fn.args[0].args[1], str):
            # "a{}b{}".format(x, y) is the f-string f"a{x}b{y}"
            pieces = _plain_fields(fn.args[0].args[1])
            if pieces is not None and len(pieces) == len(args) + 1 and \
                    not any(a.op == "star" for a in args):
                parts: List[T] = []
                for k, piece in enumerate(pieces):
                    if piece:
                        parts.append(const(piece))
                    if k < len(args):
                        parts.append(args[k])
                return T("fstr", *parts)
        if fn.op == "global" and fn.args[0] in _FUNC_SYNONYMS:
            # one term for the spellings of the same library function
            fn = tm.glob(_FUNC_SYNONYMS[fn.args[0]])
        if fn.op == "global" and len(args) == 1 and not kwargs and \
                args[0].op != "star":
            g_ = fn.args[0]
            if g_ == "numpy.negative":
                return T("unop", "USub", args[0])
            if g_ == "numpy.nonzero":
                fn = tm.glob("numpy.where")
            if g_ == "numpy.identity":
                fn = tm.glob("numpy.eye")
            if g_ == "numpy.transpose":
                return tm.call(tm.attr(args[0], "transpose"), (), ())
        if fn.op == "attr" and fn.args[1] in ("argmin", "argmax") and \
                not args and not kwargs:
            # a.argmin() is np.argmin(a)
            return self.do_call(tm.glob("numpy." + fn.args[1]), [fn.args[0]],
                                [], node, frame, live)
        if fn.op == "attr" and fn.args[1] in ("values", "keys", "items") \
                and not args and not kwargs and \
                self.unname(fn.args[0]).op == "dict":
            d_ = self.unname(fn.args[0])
            if d_.args and all(isinstance(kv, tuple) and
                               kv[0].op != "star" for kv in d_.args):
                # views of a dict literal: its keys / values / pairs
                return T("tuple", *[
                    kv[0] if fn.args[1] == "keys" else kv[1]
                    if fn.args[1] == "values" else T("tuple", kv[0], kv[1])
                    for kv in d_.args])
        if fn.op == "named" and fn.args[1].op == "call" and \
                tm.callee_name(fn.args[1]) in ("operator.attrgetter",
                                               "operator.itemgetter"):
            fn = fn.args[1]       # a getter kept in a module constant
        if fn.op == "call" and tm.callee_name(fn) == "operator.itemgetter" \
                and len(fn.args[1]) > 1 and not fn.args[2] and \
                len(args) == 1 and not kwargs:
            # itemgetter(a, b, ...)(x) is (x[a], x[b], ...)
            return T("tuple", *[self.subscript(args[0], k)
                                for k in fn.args[1]])
        if fn.op == "call" and tm.callee_name(fn) in (
                "operator.attrgetter", "operator.itemgetter") and \
                len(fn.args[1]) == 1 and not fn.args[2] and \
                len(args) == 1 and not kwargs:
            # operator.attrgetter("a")(x) is x.a, itemgetter(k)(x) is x[k]
            if tm.callee_name(fn).endswith("attrgetter"):
                if tm.is_const(fn.args[1][0]) and isinstance(
                        tm.const_val(fn.args[1][0]), str) and \
                        "." not in tm.const_val(fn.args[1][0]):
                    return self.get_attr(args[0], tm.const_val(fn.args[1][0]),
                                         frame, live, node)
            else:
                return self.subscript(args[0], fn.args[1][0])
        if fn.op == "global" and fn.args[0] == "operator.index" and \
                len(args) == 1 and not kwargs:
            return args[0]        # the identity on integers
        if fn.op == "global" and fn.args[0] == "numpy.take" and \
                len(args) == 2 and len(kwargs) == 1 and \
                kwargs[0][0] == "axis" and tm.is_const(kwargs[0][1], 0):
            return self.subscript(args[0], args[1])   # X[idx] along axis 0
        if fn.op == "attr" and fn.args[1] == "index" and len(args) == 1 \
                and not kwargs and tm.is_const(self.unname(args[0])):
            su = self.unname(fn.args[0])
            if su.op in ("tuple", "list") and all(tm.is_const(x)
                                                  for x in su.args):
                vals = [tm.const_val(x) for x in su.args]
                if tm.const_val(self.unname(args[0])) in vals:
                    return const(vals.index(
                        tm.const_val(self.unname(args[0]))))
        if fn.op == "attr" and fn.args[1] == "__getitem__" and \
                len(args) == 1 and not kwargs and args[0].op != "star":
            return tm.sub(fn.args[0], args[0])
        if fn.op == "global" and fn.args[0] in _ATTR_ALIASES and \
                len(args) == 1 and not kwargs and args[0].op != "star":
            # np.shape(a) is a.shape etc.: one term for both spellings
            return tm.attr(args[0], _ATTR_ALIASES[fn.args[0]])
        if fn.op == "attr" and fn.args[1] == "get" and not kwargs and \
                len(args) in (1, 2) and \
                self.unname(fn.args[0]).op == "dict" and \
                self.unname(args[0]).op in ("const", "enum"):
            # TABLE.get(key[, default]) on a completely known table
            hit = _dict_lookup(fn.args[0], self.unname(args[0]), self.unname)
            if hit is _MISSING:
                return args[1] if len(args) == 2 else NONE
            if hit is not None:
                return hit
        if fn.op == "global" and fn.args[0] == "builtins.next" and \
                not kwargs and len(args) in (1, 2):
            # next(<completely known sequence>[, default]): a table search
            # written as next((v for k, v in TABLE if k == key), default)
            seq = self.unname(args[0])
            if seq.op in ("list", "tuple") and not any(
                    x.op == "star" for x in seq.args):
                if seq.args:
                    return seq.args[0]
                if len(args) == 2:
                    return args[1]
        if fn.op == "global" and fn.args[0] == "builtins.getattr" and \
                len(args) == 3 and not kwargs and \
                tm.is_const(args[1]) and self.attr_absent is not None and \
                self.attr_absent(args[0], tm.const_val(args[1])) is True:
            return args[2]            # the rule knows the attribute is unset
        if fn.op == "global" and fn.args[0] == "builtins.getattr" and \
                not kwargs and len(args) in (2, 3) and \
                tm.is_const(args[1]) and \
                isinstance(tm.const_val(args[1]), str) and (
                    len(args) == 2 or (
                        args[0].op == "param" and args[0].args[0] == "args")):
            # getattr(x, "name") is x.name; with a default only for the
            # parsed command line, whose options always exist
            return self.get_attr(args[0], tm.const_val(args[1]), frame, live,
                                 node)
        if fn.op == "cls" and len(args) == 1 and not kwargs and \
                self.prog.enum_members(fn.args[0]) is not None:
            # Enum lookup by member or by value: Unit(Unit.meters) is
            # Unit.meters, Unit("m") is Unit.meters
            a0 = self.unname(args[0])
            if a0.op == "enum" and a0.args[0] == fn.args[0]:
                return a0
            c = self.prog.classes.get(fn.args[0])
            if a0.op == "const" and c is not None:
                for mname in self.prog.enum_members(fn.args[0]):
                    nd = c.members.get(mname)
                    if isinstance(nd, ast.Constant) and \
                            nd.value == tm.const_val(a0) and \
                            type(nd.value) is type(tm.const_val(a0)):
                        return tm.enum(fn.args[0], mname)
        if fn.op == "global" and fn.args[0] == "builtins.len" and \
                len(args) == 1 and not kwargs and tm.is_const(args[0]) and \
                isinstance(tm.const_val(args[0]), (str, bytes)):
            return const(len(tm.const_val(args[0])))
        recv: Optional[T] = None
        target: Optional[Function] = None
        name: Optional[str] = None
        how = ""
        ctor: Optional[Class] = None
        if fn.op == "func":
            target = self.prog.functions.get(fn.args[0])
            name = fn.args[0]
            how = "direct"
        elif fn.op == "bound":
            target = self.prog.functions.get(fn.args[0].args[0])
            name = fn.args[0].args[0]
            recv = fn.args[1]
            how = "super"
        elif fn.op == "cls":
            ctor = self.prog.classes.get(fn.args[0])
            name = fn.args[0]
            how = "ctor"
        elif fn.op == "closure":
            name = fn.args[0]
            how = "closure"
        elif fn.op == "global":
            name = fn.args[0]
            how = "external"
        elif fn.op == "attr":
            recv = fn.args[0]
            mname = fn.args[1]
            c = self.class_of(recv, frame)
            if c is not None:
                target = self.prog.find_method(c, mname)
                if target is not None:
                    how = "typed"
            if target is None and self.unique_method_fallback and \
                    recv.op not in ("global", "module", "unknown"):
                cands = self.prog.methods_named(mname)
                impls = {f.qualname for f in cands}
                if cands and mname not in COMMON_METHOD_NAMES:
                    # unique up to overriding within one hierarchy
                    roots = set()
                    for f in cands:
                        mro = self.prog.mro(f.cls)
                        roots.add(mro[-1].qualname if mro else f.cls.qualname)
                    tops = [f for f in cands if not any(
                        g is not f and self.prog.is_subclass(
                            f.cls.qualname, g.cls.qualname) for g in cands)]
                    if len(tops) == 1:
                        target = tops[0]
                        how = "unique-name"
            name = target.qualname if target is not None else "." + mname
        elif fn.op == "ite":
            a = self.do_call(fn.args[1], args, kwargs, node, frame,
                             tm.mk_and(live, fn.args[0]))
            b = self.do_call(fn.args[2], args, kwargs, node, frame,
                             tm.mk_and(live, tm.mk_not(fn.args[0])))
            return tm.ite(fn.args[0], a, b)

        # ---- special forms folded by the interpreter itself
        if fn.op == "attr" and name in _STR_FOLDS and not kwargs:
            ru = self.unname(fn.args[0])
            au = [self.unname(a) for a in args]
            if tm.is_const(ru) and isinstance(tm.const_val(ru), str) and \
                    all(tm.is_const(a) and isinstance(tm.const_val(a), str)
                        for a in au):
                try:
                    return const(getattr(tm.const_val(ru), name[1:])(
                        *[tm.const_val(a) for a in au]))
                except (TypeError, ValueError):
                    pass
        if fn.op == "attr" and name == ".format" and not kwargs:
            # "%.{}e".format(18): a format string assembled from constants
            ru = self.unname(fn.args[0])
            au = [self.unname(a) for a in args]
            if tm.is_const(ru) and isinstance(tm.const_val(ru), str) and \
                    all(tm.is_const(a) and isinstance(
                        tm.const_val(a), (str, int)) and not isinstance(
                            tm.const_val(a), bool) for a in au):
                try:
                    return const(tm.const_val(ru).format(
                        *[tm.const_val(a) for a in au]))
                except (IndexError, KeyError, ValueError):
                    pass
        if name == "builtins.super":
            c = frame.func.cls if frame.func is not None else None
            if args and args[0].op == "cls":
                c = self.prog.classes.get(args[0].args[0]) or c
            selfobj = args[1] if len(args) > 1 else (
                frame.env.get(frame.self_name) if frame.self_name else None)
            scls = frame.cls if frame.cls is not None else c
            if c is not None:
                return T("super", c.qualname,
                         scls.qualname if scls else None, selfobj)
        if name == "builtins.isinstance" and len(args) == 2:
            r = self._fold_isinstance(args[0], args[1], frame)
            if r is not None:
                return const(r)
        if name in ("itertools.filterfalse", "builtins.filter") and \
                len(args) == 2 and not kwargs:
            # filter(F, X) / filterfalse(F, X) are the generator expressions
            # (x for x in X if [not] F(x)); operator.methodcaller("m", *a)
            # applied to x is x.m(*a)
            fu = self.unname(args[0])
            lid = self.new_loop(node)
            el = T("elem", args[1], lid)
            test = None
            if fu.op == "call" and tm.callee_name(fu) == \
                    "operator.methodcaller" and fu.args[1] and \
                    tm.is_const(fu.args[1][0]) and not fu.args[2]:
                test = tm.call(tm.attr(el, tm.const_val(fu.args[1][0])),
                               tuple(fu.args[1][1:]), ())
            elif fu.op in ("closure", "func"):
                test = self.do_call(fu, [el], [], node, frame, live)
            if test is not None:
                cond = self.as_cond(test)
                if name.endswith("filterfalse"):
                    cond = tm.mk_not(cond)
                return T("comp", "gen", el, ((args[1], lid),), (cond,))
        if name == "builtins.map" and len(args) == 2 and not kwargs and \
                self.unname(args[0]).op in ("closure", "func", "global",
                                            "attr", "bound", "cls", "call"):
            # map(F, X) is the generator expression (F(x) for x in X)
            its = literal_items(args[1], self.unname)
            if its is not None and len(its) <= 8:
                return T("tuple", *[self.do_call(
                    self.unname(args[0]) if self.unname(args[0]).op in (
                        "closure", "func") else args[0], [x], [], node,
                    frame, live) for x in its])
            lid = self.new_loop(node)
            el = T("elem", args[1], lid)
            fu = self.unname(args[0])
            val = self.do_call(fu if fu.op in ("closure", "func") else
                               args[0], [el], [], node, frame, live)
            return T("comp", "gen", val, ((args[1], lid),), ())
        if name == "builtins.dict" and not args and kwargs and \
                all(k != "**" for k, _ in kwargs):
            # dict(a=x, b=y) is the literal {"a": x, "b": y}
            return T("dict", *[(const(k), v) for k, v in kwargs])
        if name == "builtins.bool" and len(args) == 1 and not kwargs and \
                tm.is_const(self.unname(args[0])) and isinstance(
                    tm.const_val(self.unname(args[0])),
                    (bool, int, float, str, type(None))):
            return const(bool(tm.const_val(self.unname(args[0]))))
        if name == "builtins.slice" and 1 <= len(args) <= 3 and not kwargs \
                and not any(a.op == "star" for a in args):
            # slice(a, b, c) is the subscript a:b:c
            if len(args) == 1:
                return T("slice", NONE, args[0], NONE)
            return T("slice", args[0], args[1],
                     args[2] if len(args) == 3 else NONE)
        if name in ("builtins.any", "builtins.all") and len(args) == 1 and \
                not kwargs:
            # any / all of a completely known short sequence: the chain of
            # or / and over its members
            its = literal_items(args[0], self.unname)
            if its is not None and 0 < len(its) <= 8:
                conds = [self.as_cond(x) for x in its]
                return (tm.mk_or if name.endswith("any") else
                        tm.mk_and)(*conds)
        if name == "builtins.map" and len(args) >= 3 and not kwargs and \
                self.unname(args[0]).op in ("closure", "func", "global",
                                            "attr", "bound", "cls", "call") \
                and not any(a.op == "star" for a in args):
            # map(F, A, B, ...) is (F(a, b, ...) for a, b, ... in zip(A, B))
            lid = self.new_loop(node)
            zipped = tm.call(tm.glob("builtins.zip"), tuple(args[1:]), ())
            els = [T("elem", a, lid) for a in args[1:]]
            fu = self.unname(args[0])
            val = self.do_call(fu if fu.op in ("closure", "func") else
                               args[0], els, [], node, frame, live)
            return T("comp", "gen", val, ((zipped, lid),), ())
        if name == "functools.reduce" and len(args) in (2, 3) and not kwargs:
            # a fold over a completely known sequence: unrolled
            its = literal_items(args[1], self.unname)
            if its is not None and len(its) <= 8 and \
                    (its or len(args) == 3) and \
                    self.unname(args[0]).op in ("closure", "func", "global"):
                acc = args[2] if len(args) == 3 else its[0]
                for x in (its if len(args) == 3 else its[1:]):
                    acc = self.do_call(self.unname(args[0]), [acc, x], [],
                                       node, frame, live)
                return acc
        if name == "builtins.len" and len(args) == 1:
            au = self.unname(args[0])
            if au.op in ("tuple", "list", "set", "dict"):
                if not any(x.op == "star" for x in au.args
                           if isinstance(x, T)):
                    return const(len(au.args))
        if name == "builtins.getattr" and len(args) == 3 and \
                tm.is_const(args[1]) and self.attr_absent is not None and \
                self.attr_absent(args[0], tm.const_val(args[1])) is True:
            return args[2]            # the rule knows the attribute is unset
        if name == "builtins.getattr" and len(args) >= 2 and \
                tm.is_const(args[1]) and isinstance(tm.const_val(args[1]),
                                                    str):
            return self.get_attr(args[0], tm.const_val(args[1]), frame, live,
                                 node)
        if name == "builtins.setattr" and len(args) == 3 and \
                tm.is_const(args[1]) and isinstance(tm.const_val(args[1]),
                                                    str):
            self.emit("setattr", node, live, frame, base=args[0],
                      name=tm.const_val(args[1]), value=args[2])
            self._store_attr(args[0], tm.const_val(args[1]), args[2], live)
            return NONE
        if name == "builtins.delattr" and len(args) == 2 and \
                tm.is_const(args[1]) and isinstance(tm.const_val(args[1]),
                                                    str):
            self.emit("delattr", node, live, frame, base=args[0],
                      name=tm.const_val(args[1]))
            self._store_attr(args[0], tm.const_val(args[1]), T("deleted"),
                             live)
            return NONE
        if fn.op == "attr" and fn.args[1] == "pop" and \
                1 <= len(args) <= 2 and tm.is_const(args[0]) and isinstance(
                    tm.const_val(args[0]), str):
            # vars(obj).pop("name"[, default]) / obj.__dict__.pop(...): the
            # instance attribute is removed (if it is there)
            du = self.unname(fn.args[0])
            owner = None
            if du.op == "attr" and du.args[1] == "__dict__":
                owner = du.args[0]
            elif tm.callee_name(du) == "builtins.vars" and \
                    len(du.args[1]) == 1:
                owner = du.args[1][0]
            if owner is not None:
                an = tm.const_val(args[0])
                if self.attr_absent is not None and \
                        self.attr_absent(owner, an) is True:
                    return args[1] if len(args) == 2 else NONE
                old_v = self.get_attr(owner, an, frame, live, node)
                self.emit("delattr", node, live, frame, base=owner, name=an)
                self._store_attr(owner, an, T("deleted"), live)
                return old_v
        if fn.op == "attr" and fn.args[1] == "get" and 1 <= len(args) <= 2:
            du = self.unname(fn.args[0])
            if du.op == "dict" and args[0].op in ("const", "enum") and all(
                    k.op in ("const", "enum") for k, _ in du.args):
                for k, v in du.args:
                    if k is args[0]:
                        return v
                return args[1] if len(args) == 2 else NONE
        if name in ("builtins.tuple", "builtins.list") and len(args) == 1:
            au = self.unname(args[0])
            if au.op in ("tuple", "list"):
                return T(name.split(".")[1], *au.args)
            if name == "builtins.list" and au.op == "comp" and \
                    au.args[0] == "gen":
                # list(<generator expression>) is the list comprehension
                return T("comp", "list", *au.args[1:])

        if target is not None:
            self.stats["resolved_evo"] += 1
        elif how == "external":
            self.stats["external"] += 1
        elif how in ("ctor", "closure"):
            self.stats["resolved_evo"] += 1
        else:
            self.stats["unresolved"] += 1

        bound = None
        if target is not None:
            bound = self.bind(target, args, kwargs, recv, fn.op != "bound"
                              and fn.op != "attr" and target.cls is not None
                              and not target.is_static)
        result_term = tm.call(fn if fn.op != "bound" else fn.args[0],
                              args, kwargs)
        ev = self.emit("call", node, live, frame, name=name, fn=fn,
                       args=tuple(args), kwargs=tuple(kwargs), recv=recv,
                       target=target, how=how, bound=bound,
                       result=result_term)

        # constructor: inline __init__ if asked
        if ctor is not None:
            init = self.prog.find_method(ctor, "__init__")
            obj = result_term
            if init is not None and self.inline(init) and \
                    frame.depth < self.max_depth and \
                    init.qualname not in self.stack:
                selfobj = T("newobj", ctor.qualname, len(self.events))
                b = self.bind(init, args, kwargs, selfobj, False)
                self.inline_call(init, b, frame, live, node, ctor)
                ev.data["result"] = selfobj
                ev.data["inlined"] = True
                return selfobj
            return obj
        if how == "closure" and self.inline_closures and \
                frame.depth < self.max_depth and name not in self.stack:
            cnode, cframe = self.closures[name]
            r = self.inline_closure(name, cnode, cframe, args, kwargs, frame,
                                    live)
            ev.data["result"] = r
            ev.data["inlined"] = True
            return r
        if target is not None and (self.inline(target) or
                                   self._constant_call(target, bound)) and \
                frame.depth < self.max_depth and \
                target.qualname not in self.stack:
            r = self.inline_call(target, bound, frame, live, node,
                                 self.class_of(recv, frame) if recv is not None
                                 else None)
            ev.data["result"] = r
            ev.data["inlined"] = True
            return r
        # in-place methods on tracked objects
        if fn.op == "attr" and target is None and \
                fn.args[1] == "setflags":
            return result_term     # array flags: the values stay the values
        if fn.op == "attr" and target is None and \
                fn.args[1] in MUTATING_METHODS:
            new = T("mut", recv, fn.args[1], tuple(args))
            ru = self.unname(recv)
            au = self.unname(args[0]) if len(args) == 1 and not kwargs \
                else None
            if fn.args[1] == "update" and ru.op == "dict" and \
                    au is not None and au.op == "dict" and all(
                        tm.is_const(k) for k, _ in ru.args + au.args):
                # literal dictionaries: the merged literal (exact)
                merged = {k: v for k, v in ru.args}
                merged.update({k: v for k, v in au.args})
                new = T("dict", *merged.items())
            ev.data["mutates_recv"] = True
            fnode = node.func if isinstance(node, ast.Call) else None
            if fnode is not None and isinstance(fnode, ast.Attribute):
                self._rebind(fnode.value, new, frame, live)
        return result_term

    def _refold(self, t: T) -> T:
        """subscripts of literal tuples that a substitution exposed"""
        def rw(x: T):
            if x.op == "sub" and x.args[0].op in ("tuple", "list") and \
                    tm.is_const(x.args[1]) and \
                    type(tm.const_val(x.args[1])) is int and \
                    -len(x.args[0].args) <= tm.const_val(x.args[1]) < \
                    len(x.args[0].args):
                return x.args[0].args[tm.const_val(x.args[1])]
            return None
        return t.map(rw)

    def _table_callees(self, fn: T):
        """(element term, component, rows) if `fn` is component k of the
        generic element of a list that consists of appended literal tuples
        whose k-th components are all functions of the analysed program"""
        if not (fn.op == "sub" and tm.is_const(fn.args[1]) and
                type(tm.const_val(fn.args[1])) is int and
                fn.args[0].op == "elem"):
            return None
        el, k = fn.args[0], tm.const_val(fn.args[1])
        rows: List[T] = []

        def items(x: T, depth=0) -> bool:
            x = self.unname(x)
            if depth > 12:
                return False
            if x.op in ("list", "tuple"):
                for r in x.args:
                    if r.op == "star":
                        return False
                    if not any(r is q for q in rows):
                        rows.append(r)
                return True
            if x.op == "mut" and x.args[1] == "append" and \
                    len(x.args[2]) == 1:
                if not items(x.args[0], depth + 1):
                    return False
                r = x.args[2][0]
                if not any(r is q for q in rows):
                    rows.append(r)
                return True
            if x.op == "ite":
                return items(x.args[1], depth + 1) and \
                    items(x.args[2], depth + 1)
            return False
        if not items(el.args[0]) or not rows or len(rows) > 6:
            return None
        for r in rows:
            r = self.unname(r)
            if r.op != "tuple" or not (0 <= k < len(r.args)) or \
                    r.args[k].op not in ("func", "cls", "global"):
                return None
        return el, k, [self.unname(r) for r in rows]

    def _fold_isinstance(self, obj: T, types: T, frame: Frame
                         ) -> Optional[bool]:
        c = None
        if obj.op == "call" and obj.args[0].op == "cls":
            c = self.prog.classes.get(obj.args[0].args[0])
        if self.unname(obj).op == "enum":
            # a member of an enumeration is an instance of it
            c = self.prog.classes.get(self.unname(obj).args[0])
        ou = self.unname(obj)
        if c is None and tm.callee_name(ou) == "builtins.input":
            # input() returns a str
            tys = types.args if types.op == "tuple" else (types,)
            names = [self.unname(t).args[0] if self.unname(t).op in (
                "global", "cls") else None for t in tys]
            if "builtins.str" in names:
                return True
            if all(n_ in ("builtins.int", "builtins.float", "builtins.bytes",
                          "builtins.bool", "builtins.list") for n_ in names):
                return False
        if c is None and tm.is_const(ou):
            # a constant: decided with the builtin / abstract types by name
            import collections.abc as _abc
            table = {"builtins.str": str, "builtins.int": int,
                     "builtins.float": float, "builtins.bool": bool,
                     "builtins.bytes": bytes, "builtins.list": list,
                     "builtins.tuple": tuple, "builtins.dict": dict,
                     "builtins.set": set, "typing.Iterable": _abc.Iterable,
                     "collections.abc.Iterable": _abc.Iterable,
                     "typing.Sequence": _abc.Sequence,
                     "collections.abc.Sequence": _abc.Sequence,
                     "typing.Mapping": _abc.Mapping,
                     "numbers.Number": __import__("numbers").Number}
            tys = types.args if types.op == "tuple" else (types,)
            pyt = []
            for t in tys:
                tu = self.unname(t)
                n_ = tu.args[0] if tu.op in ("global", "cls") else None
                if n_ not in table:
                    return None
                pyt.append(table[n_])
            return isinstance(tm.const_val(ou), tuple(pyt))
        if c is None:
            return None
        tys = types.args if types.op == "tuple" else (types,)
        res = False
        for t in tys:
            if t.op != "cls":
                return None
            if self.prog.is_subclass(c.qualname, t.args[0]):
                res = True
        return res

    def bind(self, target: Function, args: List[T],
             kwargs: List[Tuple[str, T]], recv: Optional[T],
             unbound_method: bool) -> Dict[str, T]:
        """map the callee's parameter names to actual-argument terms"""
        params = list(target.params)
        out: Dict[str, T] = {}
        pos = list(args)
        if target.cls is not None and not target.is_static and params:
            if "classmethod" in (target.decorators or ()):
                # Class.make(...): cls is the class (of the receiver, which
                # is not told apart from the defining class here)
                out[params[0]] = T("cls", target.cls.qualname)
                params = params[1:]
            elif recv is not None:
                out[params[0]] = recv
                params = params[1:]
            # unbound call Class.m(obj, ...): first positional is self
        for p, a in zip(params, pos):
            if a.op == "star":
                out["*"] = a
                break
            out[p] = a
        if len(pos) > len(params) and target.node.args.vararg:
            out[target.node.args.vararg.arg] = T("tuple",
                                                 *pos[len(params):])
        for k, v in kwargs:
            if k == "**":
                out["**"] = v
            else:
                out[k] = v
        return out

    def inline_call(self, target: Function, bound: Dict[str, T],
                    frame: Frame, live: T, node, self_cls: Optional[Class]
                    ) -> T:
        self.stats["inlined"] += 1
        argenv: Dict[str, T] = {}
        defaults = target.defaults()
        for p in target.params + target.kwonly:
            if p in bound:
                argenv[p] = bound[p]
            elif p in defaults:
                fr = Frame(None, target.module, {}, {}, None, 99)
                argenv[p] = self.eval(defaults[p], fr, TRUE, quiet=True)
            else:
                argenv[p] = tm.unknown(f"missing arg {p}")
        va = target.node.args.vararg
        if va is not None:
            # *args: the extra positional arguments (none: the empty tuple)
            argenv[va.arg] = bound.get(va.arg, T("tuple")) \
                if "*" not in bound else tm.unknown(f"varargs {va.arg}")
        newf = self._make_frame(target, argenv, self_cls, frame.depth + 1)
        body = target.node.body
        if any(isinstance(n, (ast.Yield, ast.YieldFrom))
               for st in target.node.body for n in ast.walk(st)):
            # a generator function: `for x in it: [if c: continue] yield e`
            # is the generator expression (e for x in it if not c)
            gen = _generator_as_genexp(target.node)
            if gen is None:
                # straight-line code that yields a fixed number of values:
                # to its consumer the tuple of those values
                vals = []
                lv = live
                for st in target.node.body:
                    if isinstance(st, ast.Expr) and \
                            isinstance(st.value, ast.Yield) and \
                            st.value.value is not None:
                        vals.append(self.eval(st.value.value, newf, lv))
                    elif isinstance(st, (ast.Assign, ast.AnnAssign)) and \
                            not any(isinstance(x, (ast.Yield, ast.YieldFrom))
                                    for x in ast.walk(st)):
                        lv = self.exec_block([st], newf, lv)
                    elif isinstance(st, ast.Expr) and \
                            isinstance(st.value, ast.Constant):
                        pass
                    else:
                        vals = None
                        break
                if vals:
                    return T("tuple", *vals)
                body = _generator_as_list_body(target.node) if not any(
                    "contextmanager" in d for d in target.decorators) \
                    else None          # a context manager: not iterated
                if body is None:
                    return tm.unknown(f"generator {target.qualname}")
                newf = self._make_frame(target, argenv, self_cls,
                                        frame.depth + 1)
            else:
                return self.eval(gen, newf, live)
        self.stack.append(target.qualname)
        try:
            out = self.exec_block(body, newf, live)
        finally:
            self.stack.pop()
        self._note_narrowing(newf, live, out)
        self.inlined_envs.append((target, newf.env))
        self._propagate_mutations(target, argenv, newf, frame, live, node)
        out_v = self._join_returns(newf, live)
        if any(d in ("lru_cache", "cache") for d in target.decorators) and \
                out_v.op not in ("const", "enum"):
            # a memoised function: its value reads like the body's value, but
            # it is one *shared* object for all callers (rules about in-place
            # writes look for the marker)
            out_v = T("named", "memo:" + target.qualname, out_v)
        return out_v

    @staticmethod
    def _mutation_of(v: T, init: T, depth: int = 0) -> bool:
        """v is `init` after in-place updates (item stores, mutating
        methods, possibly in loops / branches) — not a re-binding"""
        if v is init:
            return True
        if depth > 40 or not isinstance(v, T):
            return False
        if v.op in ("upd", "mut"):
            return Interp._mutation_of(v.args[0], init, depth + 1)
        if v.op == "loopvar":
            return Interp._mutation_of(v.args[2], init, depth + 1)
        if v.op == "loopout":
            return Interp._mutation_of(v.args[2], init, depth + 1) and \
                Interp._mutation_of(v.args[3], init, depth + 1) or \
                (v.args[2] is init)
        if v.op == "ite":
            return Interp._mutation_of(v.args[1], init, depth + 1) and \
                Interp._mutation_of(v.args[2], init, depth + 1)
        return False

    def _propagate_mutations(self, target: Function, argenv, newf: Frame,
                             frame: Frame, live: T, node) -> None:
        """a container mutated in place by the inlined callee is the
        caller's object: make the caller's variable see the updated term"""
        if not isinstance(node, ast.Call):
            return
        params = list(target.params)
        if target.cls is not None and not target.is_static and params and \
                isinstance(node.func, ast.Attribute):
            params = params[1:]
        pairs = list(zip(params, node.args)) + [
            (k.arg, k.value) for k in node.keywords if k.arg]
        for p, anode in pairs:
            if isinstance(anode, ast.Starred) or p not in argenv:
                continue
            init, fin = argenv[p], newf.env.get(p)
            if fin is None or fin is init or init.op in ("const",):
                continue
            if self._mutation_of(fin, init) and isinstance(
                    anode, (ast.Name, ast.Attribute)):
                self._rebind(anode, fin, frame, live)

    def _note_narrowing(self, newf: Frame, live: T, out: T) -> None:
        """condition (relative to the call site) under which the inlined
        callee comes back at all, when that is not every path"""
        base = set(self._conj(live))
        conts = [out] + [l for _, l in newf.returns]
        rel = tm.mk_or(*[tm.mk_and(*[c for c in self._conj(l)
                                     if c not in base]) for l in conts
                         if not tm.is_const(l, False)])
        if not tm.is_const(rel, True):
            self._narrow.append(rel)

    def inline_closure(self, key, cnode, cframe: Frame, args, kwargs,
                       frame: Frame, live: T) -> T:
        a = cnode.args
        names = [x.arg for x in a.posonlyargs + a.args]
        env = {}
        for p, v in zip(names, args):
            env[p] = v
        for k, v in kwargs:
            env[k] = v
        dn = names[len(names) - len(a.defaults):]
        for p, d in zip(dn, a.defaults):
            if p not in env:
                env[p] = self.eval(d, cframe, TRUE, quiet=True)
        for p in names:
            env.setdefault(p, tm.unknown(f"missing arg {p}"))
        newf = Frame(cframe.func, cframe.module, env,
                     dict(cframe.local_imports), cframe.cls,
                     frame.depth + 1, None, [], cframe.env)
        self.stack.append(key)
        try:
            if isinstance(cnode, ast.Lambda):
                v = self.eval(cnode.body, newf, live)
                newf.returns.append((v, live))
            else:
                self.exec_block(cnode.body, newf, live)
        finally:
            self.stack.pop()
        return self._join_returns(newf, live)


def _plain_fields(fmt_str: str) -> Optional[List[str]]:
    """literal pieces around the auto-numbered plain `{}` fields of a format
    string; None if it uses anything else (specs, names, escapes)"""
    if "{{" in fmt_str or "}}" in fmt_str:
        return None
    pieces = fmt_str.split("{}")
    if any("{" in p or "}" in p for p in pieces):
        return None
    return pieces


_MISSING = object()


def _dict_lookup(d: T, key: T, unname=lambda v: v):
    """value stored under a closed key in a dict display (merged displays
    included): the value term, _MISSING if the key is certainly absent, None
    if the display is not completely known"""
    d = unname(d)
    if d.op != "dict":
        return None
    found = _MISSING
    for k, v in d.args:
        if isinstance(k, T) and k.op == "star":
            inner = _dict_lookup(v, key, unname)
            if inner is None:
                return None
            if inner is not _MISSING:
                found = inner
            continue
        ku = unname(k)
        if not _closed_key(ku, unname):
            return None
        if _canon(ku, unname) == _canon(key, unname):
            found = v
    return found


def _closed_key(k: T, unname=lambda v: v) -> bool:
    """a dictionary key whose value is known: a constant, an enumeration
    member, or a tuple of those ((True, False): handler)"""
    k = unname(k)
    if k.op in ("const", "enum"):
        return True
    return k.op == "tuple" and all(_closed_key(x, unname) for x in k.args)


def _dict_keys(d: T, unname=lambda v: v) -> Optional[List[T]]:
    """keys of a dict display, through {**a, **b} merges of displays"""
    d = unname(d)
    if d.op != "dict":
        return None
    out: List[T] = []
    for k, v in d.args:
        if isinstance(k, T) and k.op == "star":
            inner = _dict_keys(v, unname)
            if inner is None:
                return None
            out += inner
        else:
            out.append(k)
    return out


def _closed(t: T, unname=lambda v: v) -> bool:
    t = unname(t)
    if t.op in ("const", "enum"):
        return True
    if t.op in ("tuple", "list"):
        return all(_closed(x, unname) for x in t.args)
    return False


def _canon(t: T, unname=lambda v: v):
    t = unname(t)
    if t.op == "const":
        return ("c", t.args[1])
    if t.op == "enum":
        return ("e", t.args[0], t.args[1])
    return ("t",) + tuple(_canon(x, unname) for x in t.args)


_ENUM_MEMBERS = [None]     # set by Interp: qualname -> member names or None


def literal_items(it: T, unname=lambda v: v, known_len=None,
                  enums: bool = False) -> Optional[List[T]]:
    """the items of an iteration space that is known completely: a literal
    tuple / list, range(consts), enumerate(...) or zip(...) of those; in a
    zip also a sequence whose length the path condition fixes
    (`known_len`): its items are seq[0] .. seq[n-1]"""
    it = unname(it)
    if enums and it.op == "cls" and _ENUM_MEMBERS[0] is not None:
        ms = _ENUM_MEMBERS[0](it.args[0])
        if ms is not None and len(ms) <= 12:
            return [tm.enum(it.args[0], m) for m in ms]   # for m in Enum
    if it.op in ("tuple", "list"):
        if any(x.op == "star" for x in it.args):
            return None
        return list(it.args)
    if it.op == "mut" and it.args[1] == "append" and len(it.args[2]) == 1:
        # a literal list that grew by unconditional appends
        base = literal_items(it.args[0], unname, known_len)
        if base is None or unname(it.args[0]).op == "tuple":
            return None
        return base + [it.args[2][0]]
    if it.op == "const" and isinstance(tm.const_val(it), str) and \
            len(tm.const_val(it)) <= 8:
        return [const(ch) for ch in tm.const_val(it)]   # characters
    if it.op == "dict" and len(it.args) <= 8 and all(
            isinstance(kv, tuple) and tm.is_const(kv[0]) for kv in it.args):
        return [kv[0] for kv in it.args]                # keys, in order
    if it.op == "sub" and it.args[1].op == "slice":
        base = unname(it.args[0])
        lo, hi, st = it.args[1].args
        if base.op == "const" and isinstance(tm.const_val(base), str) and \
                all(z is NONE or (tm.is_const(z) and isinstance(
                    tm.const_val(z), int)) for z in (lo, hi, st)):
            sl = slice(*[None if z is NONE else tm.const_val(z)
                         for z in (lo, hi, st)])
            return [const(ch) for ch in tm.const_val(base)[sl]]
    if is_range_literal(it):
        return [const(k) for k in range_values(it)]
    name = tm.callee_name(it) if it.op == "call" else None
    if name == "builtins.enumerate" and it.args[1]:
        start = 0
        extra = list(it.args[1][1:]) + [v for k, v in it.args[2]
                                        if k == "start"]
        if len(extra) > 1 or any(k != "start" for k, _ in it.args[2]):
            return None
        if extra:
            if not (tm.is_const(extra[0]) and
                    isinstance(extra[0].args[1], int)):
                return None
            start = extra[0].args[1]
        inner = literal_items(it.args[1][0], unname, known_len)
        if inner is None:
            return None
        return [T("tuple", const(start + k), x)
                for k, x in enumerate(inner)]
    if name == "builtins.zip" and it.args[1] and not it.args[2]:
        cols = [literal_items(a, unname) for a in it.args[1]]
        if known_len is not None:
            for k, a in enumerate(it.args[1]):
                n = known_len(a) if cols[k] is None else None
                if n is not None and 0 <= n <= 8:
                    cols[k] = [tm.sub(a, const(j)) for j in range(n)]
        if any(c is None for c in cols):
            return None
        return [T("tuple", *row) for row in zip(*cols)]
    if name in ("builtins.list", "builtins.tuple") and \
            len(it.args[1]) == 1 and not it.args[2]:
        return literal_items(it.args[1][0], unname)
    if name == "itertools.product" and it.args[1] and not it.args[2]:
        cols = [literal_items(a, unname) for a in it.args[1]]
        if any(c is None for c in cols) or \
                any(len(c) > 16 for c in cols):
            return None
        import itertools as _it
        rows = list(_it.product(*cols))
        return [T("tuple", *row) for row in rows] if len(rows) <= 64 \
            else None
    if name == "itertools.permutations" and len(it.args[1]) == 1 and \
            not it.args[2]:
        inner = literal_items(it.args[1][0], unname)
        if inner is None or len(inner) > 4:
            return None
        import itertools as _it
        return [T("tuple", *row) for row in _it.permutations(inner)]
    return None


def is_range_literal(t: T) -> bool:
    if tm.callee_name(t) != "builtins.range" or t.args[2]:
        return False
    a = t.args[1]
    if not (1 <= len(a) <= 3) or not all(
            tm.is_const(x) and isinstance(x.args[1], int) and
            not isinstance(x.args[1], bool) for x in a):
        return False
    return 0 < len(range_values(t)) <= 8


def range_values(t: T):
    return list(range(*[x.args[1] for x in t.args[1]]))


COMMON_METHOD_NAMES = {
    "__init__", "__str__", "__eq__", "__ne__", "__repr__", "check", "update",
    "get", "items", "keys", "values", "copy", "close", "open", "read", "write",
    "run", "main", "show", "info", "debug", "warning", "error", "format",
    "append", "extend", "index", "count", "add", "pop", "clear", "plot",
    "get_infos", "get_statistics", "process_data", "get_result", "export",
    "serialize", "locked", "from_json_file", "lookup", "instance",
}
