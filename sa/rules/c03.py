"""C03 — Umeyama alignment (partial: guards, scale constant, sign-fix flow)."""
from __future__ import annotations

from .. import terms as tm
from ..interp import Interp
from ..lib import fmt, is_call_to
from ..terms import T, const

EXPLANATION = """
Only four clauses of C03 are structural and decided here, on
geometry.umeyama_alignment: C03.1 a shape comparison of the two inputs whose
unequal side raises GeometryException precedes and guards all arithmetic;
C03.2 a raise GeometryException control-dependent on the singular values
returned by the SVD guards the return; C03.3 with with_scale=False constant
propagation carries the float constant 1.0 to the third returned element;
C03.4 'never a reflection' needs the sign correction: a branch
control-dependent on the determinants of *both SVD factors* modifies a value
that reaches (def-use) the returned rotation and, with with_scale=True, the
returned scale (Umeyama eq. 42 uses tr(D S)). Deleting the fix, keying it on
something else, or applying it to the rotation but not to the scale trace is
reported. C03.5 (numerical-stability lint): the covariance fed to the SVD is
built from centred points; the one-pass form E[y x^T] - mean_y mean_x^T
cancels catastrophically for large common offsets, which the property's
quantifier includes.
"""
UNDECIDED = [
    "least-squares optimality of the returned transform",
    "properness of the rotation for every input (numerical)",
    "noise-free recovery, equivariance under moving/scaling/permuting points",
    "which inputs count as degenerate; direction of the `< 0` test",
]
TRUSTED = ["numpy.linalg.svd returns (u, d, vT)", "numpy.linalg.det"]
ASSUMPTIONS = ["the recognised sign-fix idioms are: S-matrix of the paper, "
               "flipping the last singular value, flipping the last "
               "column/row of a factor"]
MANIFEST = dict(
    text="Partial claim. Decides only the guard structure (unequal shapes "
         "and degenerate singular values are refused before anything is "
         "returned), the exact constant scale 1.0 without scale estimation, "
         "and the dataflow of the reflection fix (keyed on det of both SVD "
         "factors, reaching both the returned rotation and the returned "
         "scale). These are necessary conditions of the property; the "
         "least-squares / properness / equivariance core is numerical and "
         "NOT decided by static analysis.",
    note="Undecided: optimality, properness for all inputs, equivariance, "
         "adequacy of the degeneracy threshold. numpy.linalg is trusted.",
    technique="dominance via live-condition folding + constant propagation "
              "+ def-use reachability on provenance terms",
)
FLOORS = {"C03.1": 1, "C03.2": 1, "C03.3": 1, "C03.4": 3, "C03.5": 1}
FN = "evo.core.geometry.umeyama_alignment"


def check(ctx):
    prog = ctx.prog
    f = prog.func(FN)
    ctx.analysed_fn(FN)
    ctx.require(f.params[:3] == ["x", "y", "with_scale"],
                "umeyama_alignment signature changed")
    x, y = tm.param("x"), tm.param("y")
    for ws in (True, False):
        r = Interp(prog).run(f, {"with_scale": const(ws)})
        ctx.analysed["configs"] += 1
        svd = r.calls("numpy.linalg.svd")
        ctx.require(len(svd) == 1, "SVD call not found (unknown idiom)")
        SV = svd[0].data["result"]
        u, d, v = (tm.sub(SV, const(k)) for k in range(3))
        raises = [e for e in r.of_kind("raise")
                  if "GeometryException" in (e.data.get("exc_name") or "")]
        ret = r.ret
        ctx.require(ret.op == "tuple" and len(ret.args) == 3,
                    f"return is not a triple: {fmt(ret)}")
        if ws:
            # ----------------------------------------------------- C03.1
            shape = [e for e in raises if any(
                a.op == "cmp" and {a.args[1], a.args[2]} ==
                {tm.attr(x, "shape"), tm.attr(y, "shape")}
                for a in tm.atoms(e.live))]
            ok = bool(shape)
            if ok:
                atom = [a for a in tm.atoms(shape[0].live) if a.op == "cmp"
                        and tm.attr(x, "shape") in (a.args[1], a.args[2])][0]
                neq = atom.args[0] == "NotEq"
                arith = [e for e in r.of_kind("call")
                         if e.idx > shape[0].idx]
                ok = tm.fold(shape[0].live, lambda t: neq if t is atom
                             else None) is True and \
                    all(tm.fold(e.live, lambda t: neq if t is atom else None)
                        is False for e in arith) and \
                    not [e for e in r.of_kind("call") if e.idx <
                         shape[0].idx and not (e.data.get("name") or "")
                         .endswith("GeometryException")]
            ctx.ob("C03.1", f, ok,
                   "unequal shapes raise GeometryException before any "
                   "arithmetic" if ok else
                   "no shape comparison of x and y raising "
                   "GeometryException guards the computation",
                   key="C03.1:shape-guard")
            # ----------------------------------------------------- C03.2
            deg = [e for e in raises if any(
                any(s is d for s in a.walk()) for a in tm.atoms(e.live))]
            rets = r.of_kind("return")
            ok = bool(deg) and all(e.idx < rets[-1].idx for e in deg)
            if ok:
                da = [a for a in tm.atoms(deg[0].live)
                      if any(s is d for s in a.walk())]
                # return unreachable when the degeneracy test fires
                pol = tm.fold(deg[0].live,
                              lambda t: True if t in da else None)
                ok = any(tm.fold(rets[-1].live,
                                 lambda t, p=p: p if t in da else None)
                         is False for p in (True, False))
            ctx.ob("C03.2", f, ok,
                   "a rank test on the singular values raises "
                   "GeometryException and guards the return" if ok else
                   "no GeometryException is raised in dependence of the "
                   "singular values before the result is returned",
                   key="C03.2:degenerate-guard")
        else:
            ok = tm.is_const(ret.args[2]) and ret.args[2].args[0] == "float" \
                and ret.args[2].args[1] == 1.0
            ctx.ob("C03.3", f, ok,
                   "with_scale=False: the returned scale is the constant 1.0"
                   if ok else
                   f"with_scale=False: returned scale is {fmt(ret.args[2])}",
                   key="C03.3:unit-scale", value=fmt(ret.args[2]))
        # --------------------------------------------------------- C03.5
        if ws:
            cov = svd[0].data["args"][0] if svd[0].data["args"] else None
            prods = []
            for t_ in (cov.walk() if cov is not None else []):
                if t_.op == "call" and tm.callee_name(t_) in (
                        "numpy.outer", "numpy.dot", "numpy.matmul",
                        "numpy.einsum", ".dot") or (
                        t_.op == "binop" and t_.args[0] == "MatMult"):
                    ops_ = list(t_.args[1]) if t_.op == "call" else \
                        [t_.args[1], t_.args[2]]
                    if t_.op == "call" and tm.callee_name(t_) == ".dot":
                        ops_.append(tm.method_recv(t_))
                    ops_ = [o for o in ops_ if isinstance(o, T) and (
                        tm.mentions_param(o, "x") or
                        tm.mentions_param(o, "y"))]
                    if ops_:
                        prods.append((t_, ops_))

            def centred(o: T) -> bool:
                if any(is_call_to(z, ".mean", "numpy.mean") for z in o.walk()) \
                        and not any(z.op == "binop" and z.args[0] == "Sub"
                                    for z in o.walk()):
                    return True        # a mean itself
                for z in o.walk():
                    if z.op == "binop" and z.args[0] == "Sub" and any(
                            is_call_to(w, ".mean", "numpy.mean")
                            for w in z.args[2].walk()) and (
                            tm.mentions_param(z.args[1], "x") or
                            tm.mentions_param(z.args[1], "y")):
                        return True
                return False
            if not prods:
                ctx.undecidable("C03.5", f, f"covariance construction not "
                                f"recognised: {fmt(cov)}")
            else:
                raw = [(t_, o) for t_, ops_ in prods for o in ops_
                       if not centred(o)]
                ok = not raw
                ctx.ob("C03.5", f, ok,
                       "the covariance is accumulated from *centred* points "
                       "(y_i - mean_y)(x_i - mean_x)^T" if ok else
                       f"the covariance multiplies uncentred data "
                       f"({fmt(raw[0][1])[:60]}) and subtracts the product "
                       f"of the means afterwards: for point sets with a "
                       f"large common offset (UTM-like coordinates) this "
                       f"cancels catastrophically and the rotation is wrong",
                       key="C03.5:centred-covariance", cov=fmt(cov))

        # --------------------------------------------------------- C03.4
        def det_cond(c: T) -> bool:
            dets = [s for s in c.walk() if is_call_to(s, "numpy.linalg.det")]
            srcs = set()
            for s in dets:
                for w in s.walk():
                    if w is u:
                        srcs.add("u")
                    if w is v:
                        srcs.add("v")
            return srcs == {"u", "v"}
        fixes = [t for t in ret.walk() if t.op == "ite" and
                 det_cond(t.args[0])]
        in_rot = [t for t in ret.args[0].walk() if t.op == "ite" and
                  det_cond(t.args[0])]
        ok = bool(in_rot)
        ctx.ob("C03.4", f, ok,
               f"[with_scale={ws}] a correction keyed on det(u)·det(v) "
               f"reaches the returned rotation" if ok else
               f"[with_scale={ws}] no branch that depends on the "
               f"determinants of both SVD factors influences the returned "
               f"rotation (reflection fix missing or keyed on something "
               f"else): r = {fmt(ret.args[0])}",
               key="C03.4:sign-fix-rotation", rotation=fmt(ret.args[0]))
        if ws:
            in_scale = [t for t in ret.args[2].walk() if t.op == "ite" and
                        det_cond(t.args[0])]
            uses_d = any(s is d for s in ret.args[2].walk())
            ok = bool(in_scale) and uses_d
            ctx.ob("C03.4", f, ok,
                   "[with_scale=True] the same correction reaches the "
                   "returned scale (trace(D S))" if ok else
                   "[with_scale=True] the returned scale does not depend on "
                   "the reflection correction: in the mirrored case the "
                   f"scale is not the least-squares one: c = "
                   f"{fmt(ret.args[2])}",
                   key="C03.4:sign-fix-scale", scale=fmt(ret.args[2]))
            in_t = [t for t in ret.args[1].walk() if t.op == "ite" and
                    det_cond(t.args[0])]
            ctx.ob("C03.4", f, bool(in_t),
                   "[with_scale=True] translation is computed from the "
                   "corrected rotation/scale" if in_t else
                   "translation does not use the corrected rotation",
                   key="C03.4:sign-fix-translation")


VARIANTS = [
    dict(name="shape-guard-removed", file="evo/core/geometry.py",
         find="    if x.shape != y.shape:\n        raise GeometryException(\"data matrices must have the same shape\")\n",
         replace="", expect="fire", rule="C03.1"),
    dict(name="degeneracy-guard-removed", file="evo/core/geometry.py",
         find="    if np.count_nonzero(d > np.finfo(d.dtype).eps) < m - 1:",
         replace="    if False:", expect="fire", rule="C03.2"),
    dict(name="scale-not-one", file="evo/core/geometry.py",
         find=" if with_scale else 1.0", replace=" if with_scale else 1",
         expect="fire", rule="C03.3"),
    dict(name="sign-fix-deleted", file="evo/core/geometry.py",
         find="        s[m - 1, m - 1] = -1", replace="        pass",
         expect="fire", rule="C03.4"),
    dict(name="scale-ignores-S", file="evo/core/geometry.py",
         find="    c = 1 / sigma_x * np.trace(np.diag(d).dot(s)) if with_scale else 1.0",
         replace="    c = d.sum() / sigma_x if with_scale else 1.0",
         expect="fire", rule="C03.4"),
    dict(name="fix-keyed-on-cov", file="evo/core/geometry.py",
         find="    if np.linalg.det(u) * np.linalg.det(v) < 0.0:",
         replace="    if np.linalg.det(cov_xy) < 0.0:",
         expect="fire", rule="C03.4"),
    dict(name="one-pass-covariance", file="evo/core/geometry.py",
         find="    cov_xy = np.multiply(1.0 / n, outer_sum)",
         replace="    cov_xy = 1.0 / n * y.dot(x.T) - np.outer(mean_y, mean_x)",
         expect="fire", rule="C03.5"),
    dict(name="vectorised-centred-covariance", file="evo/core/geometry.py",
         find="    cov_xy = np.multiply(1.0 / n, outer_sum)",
         replace="    cov_xy = 1.0 / n * (y - mean_y[:, np.newaxis]).dot((x - mean_x[:, np.newaxis]).T)",
         expect="silent"),
    dict(name="det-of-product", file="evo/core/geometry.py",
         find="    if np.linalg.det(u) * np.linalg.det(v) < 0.0:",
         replace="    if np.linalg.det(u.dot(v)) < 0.0:", expect="silent"),
]
