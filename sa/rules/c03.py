"""C03 — Umeyama alignment (partial: guards, scale constant, sign-fix flow and
value, typed equivariance under moving / scaling / permuting the points)."""
from __future__ import annotations

from fractions import Fraction
from typing import Optional

from .. import terms as tm
from ..equivariance import Analyzer, Inequivariant, SP_X, SP_Y, Unknown
from ..interp import Interp
from ..lib import fmt, is_call_to
from ..terms import T, const

EXPLANATION = """
Only four clauses of C03 are structural and decided here, on
geometry.umeyama_alignment: C03.1 a shape comparison of the two inputs whose
unequal side raises GeometryException precedes and guards all arithmetic;
C03.2 a raise GeometryException control-dependent on the singular values
returned by the SVD guards the return; C03.3 with with_scale=False constant
propagation carries the float constant 1.0 to the third returned element;
C03.4 'never a reflection' needs the sign correction: a branch
control-dependent on the determinants of *both SVD factors* modifies a value
that reaches (def-use) the returned rotation and, with with_scale=True, the
returned scale (Umeyama eq. 42 uses tr(D S)). Deleting the fix, keying it on
something else, or applying it to the rotation but not to the scale trace is
reported. C03.5 (numerical-stability lint): the covariance fed to the SVD is
built from centred points; the one-pass form E[y x^T] - mean_y mean_x^T
cancels catastrophically for large common offsets, which the property's
quantifier includes (a product with at least one centred factor is fine).
C03.6 equivariance typing (sa/equivariance.py, an abstract interpretation of
the returned terms): every intermediate value is typed with the coordinate
space of each axis (x-space, y-space, point index, singular index), its
homogeneity degrees in the two input scales and in the number of points, and
its exact sensitivity to moving the two point sets (a formal linear
combination of matrix products). Linear operations propagate these; norms,
outer products, the SVD, determinants, traces and divisions demand
translation-invariant operands; sums over the points must run over all of
them with paired indices and be normalised. Decided from this: r maps x-space
to y-space and is invariant; c scales like ly/lx and is invariant under
moves; t is a y-space vector that changes by exactly b - c r a; nothing grows
with the number of points. With with_scale=False only joint scaling is an
equivariance and degrees are compared jointly. C03.7 the correction itself:
S = identity with its last diagonal entry -1, taken exactly when
det(u) det(v) is negative.
"""
UNDECIDED = [
    "least-squares optimality of the returned transform",
    "properness of the rotation for every input (numerical)",
    "noise-free recovery (follows from optimality, not from typing)",
    "which singular values count as negligible (the eps threshold); the "
    "count that leads to the refusal is decided (C03.2 rank-threshold)",
    "floating-point accuracy of the equivariances (they are decided as "
    "exact algebraic identities of the formulas, not of rounded results)",
]
TRUSTED = ["numpy.linalg.svd returns (u, d, vT)", "numpy.linalg.det"]
ASSUMPTIONS = ["the recognised sign-fix idioms are: S-matrix of the paper, "
               "flipping the last singular value, flipping the last "
               "column/row of a factor"]
MANIFEST = dict(
    text="Partial claim. Decides the guard structure (unequal shapes and "
         "degenerate singular values are refused before anything is "
         "returned), the exact constant scale 1.0 without scale estimation, "
         "the dataflow and the value of the reflection fix (keyed on det of "
         "both SVD factors, S = diag(1,..,1,-1), reaching the returned "
         "rotation, scale and translation), and — by typing every "
         "intermediate value with coordinate space, homogeneity degrees and "
         "translation sensitivity — the equivariance clause as an algebraic "
         "identity of the formulas: moving the sets changes t by exactly "
         "b - c r a and nothing else, scaling changes (r, t, c) by "
         "(1, ly, ly/lx), permuting or replicating the points changes "
         "nothing, and x-space and y-space coordinates are never mixed. "
         "These are necessary conditions of the property; least-squares "
         "optimality and properness for every input are numerical and NOT "
         "decided by static analysis.",
    note="Undecided: optimality, properness for all inputs, noise-free "
         "recovery, adequacy of the degeneracy threshold, rounding. "
         "numpy.linalg is trusted (SVD factors orthogonal, singular values "
         "homogeneous of degree 1).",
    technique="dominance via live-condition folding + constant propagation "
              "+ def-use reachability on provenance terms + abstract "
              "interpretation in an equivariance type domain (axis roles, "
              "homogeneity degrees, affine translation weights)",
)
FLOORS = {"C03.1": 1, "C03.2": 1, "C03.3": 1, "C03.4": 3, "C03.5": 1,
          "C03.6": 8, "C03.7": 2, "C03.8": 4, "C03.9": 1}
FN = "evo.core.geometry.umeyama_alignment"


def _documented_layout(a: T):
    """the property is about 3-D point sets passed as 3 x n arrays (the
    documented layout): shape tests that only sort out other layouts are
    decided for that case"""
    from ..lib import strip_asarray
    if a.op != "cmp":
        return None
    op, l, r = a.args
    l = strip_asarray(l)
    while r.op == "named":
        r = r.args[1]
    pts = (tm.param("x"), tm.param("y"))
    if l.op == "attr" and l.args[1] == "ndim" and l.args[0] in pts and \
            tm.is_const(r) and op in ("Eq", "NotEq"):
        return (tm.const_val(r) == 2) == (op == "Eq")
    if l.op == "sub" and tm.is_const(l.args[1], 0) and \
            l.args[0].op == "attr" and l.args[0].args[1] == "shape" and \
            l.args[0].args[0] in pts:
        if op in ("In", "NotIn") and r.op in ("tuple", "list", "set") and \
                all(tm.is_const(z) for z in r.args):
            return (3 in [tm.const_val(z) for z in r.args]) == (op == "In")
        if op in ("Eq", "NotEq") and tm.is_const(r) and \
                isinstance(tm.const_val(r), int):
            return (tm.const_val(r) == 3) == (op == "Eq")
    return None


def _rank_threshold(ctx, f, ev, d: T, x: T):
    """the raise condition of the degeneracy test as a function of the
    number of non-negligible singular values"""
    M = 3
    m_terms = (tm.sub(tm.attr(x, "shape"), const(0)),)

    def is_count(t: T) -> bool:
        t = Interp.unname(t)
        if is_call_to(t, "numpy.count_nonzero", "numpy.sum",
                      "builtins.sum") and len(t.args[1]) == 1:
            inner = Interp.unname(t.args[1][0])
        elif is_call_to(t, ".sum") and not t.args[1]:
            inner = Interp.unname(tm.method_recv(t))
        else:
            return False
        return inner.op == "cmp" and inner.args[0] in ("Gt", "GtE") and \
            inner.args[1] is d

    def val(t: T, count: int):
        t = Interp.unname(t)
        if is_count(t):
            return count
        if any(t is m_ for m_ in m_terms):
            return M
        if is_call_to(t, "builtins.len") and len(t.args[1]) == 1 and \
                t.args[1][0] is d:
            return M
        if tm.is_const(t) and type(tm.const_val(t)) is int:
            return tm.const_val(t)
        if t.op == "binop" and t.args[0] in ("Add", "Sub"):
            a_, b_ = val(t.args[1], count), val(t.args[2], count)
            if a_ is None or b_ is None:
                return None
            return a_ + b_ if t.args[0] == "Add" else a_ - b_
        return None
    atoms = [a for a in tm.atoms(ev.live) if a.op == "cmp" and
             any(is_count(z) for z in (a.args[1], a.args[2]))]
    if len(atoms) != 1:
        return                      # another form of rank test: not decided
    a = atoms[0]
    refused = []
    for count in range(0, M + 1):
        l_, r_ = val(a.args[1], count), val(a.args[2], count)
        if l_ is None or r_ is None:
            return
        truth = {"Lt": l_ < r_, "LtE": l_ <= r_, "Gt": l_ > r_,
                 "GtE": l_ >= r_, "Eq": l_ == r_, "NotEq": l_ != r_}.get(
                     a.args[0])
        if truth is None:
            return
        v = tm.fold(ev.live, lambda t, truth=truth: truth if t is a else (
            None if t.op in ("and", "or", "not") else (
                False if t.op == "cmp" and t.args[0] == "NotEq" and
                t.args[1].op == "attr" and t.args[1].args[1] == "shape"
                else None)))
        if v is None:
            return
        refused.append(v)
    want = [True, True, False, False]      # counts 0, 1 | 2, 3  (m = 3)
    ok = refused == want
    ctx.ob("C03.2", f, ok,
           "the rank test refuses exactly the point sets with fewer than "
           "m - 1 non-negligible singular values (coincident / collinear), "
           "planar sets are aligned" if ok else
           f"the rank test `<singular values above the threshold> "
           f"{a.args[0]} {fmt(a.args[2])[:40]}` refuses point sets with "
           f"{[c for c, v in enumerate(refused) if v]} of 3 non-negligible "
           f"singular values — expected: 0 and 1 only (a planar trajectory, "
           f"rank 2, determines the rotation and must be aligned; a "
           f"collinear one must be refused)",
           key="C03.2:rank-threshold", refused_counts=[
               c for c, v in enumerate(refused) if v])


def check(ctx):
    prog = ctx.prog
    f = prog.func(FN)
    ctx.analysed_fn(FN)
    from ..lib import extra_defaults
    extra = extra_defaults(f, ["x", "y", "with_scale"])
    ctx.require(extra is not None, "umeyama_alignment signature changed")
    x, y = tm.param("x"), tm.param("y")
    for ws in (True, False):
        # parameters added later are analysed at their defaults
        r = Interp(prog, assume=_documented_layout).run(
            f, dict(extra, with_scale=const(ws)))
        ctx.analysed["configs"] += 1
        svd = r.calls("numpy.linalg.svd")
        ctx.require(len(svd) == 1, "SVD call not found (unknown idiom)")
        SV = svd[0].data["result"]
        u, d, v = (tm.sub(SV, const(k)) for k in range(3))
        raises = [e for e in r.of_kind("raise")
                  if "GeometryException" in (e.data.get("exc_name") or "")]
        ret = r.ret
        ctx.require(ret.op == "tuple" and len(ret.args) == 3,
                    f"return is not a triple: {fmt(ret)}")
        if ws:
            # ----------------------------------------------------- C03.1
            shape = [e for e in raises if any(
                a.op == "cmp" and {a.args[1], a.args[2]} ==
                {tm.attr(x, "shape"), tm.attr(y, "shape")}
                for a in tm.atoms(e.live))]
            ok = bool(shape)
            if ok:
                atom = [a for a in tm.atoms(shape[0].live) if a.op == "cmp"
                        and tm.attr(x, "shape") in (a.args[1], a.args[2])][0]
                neq = atom.args[0] == "NotEq"
                arith = [e for e in r.of_kind("call")
                         if e.idx > shape[0].idx]
                ok = tm.fold(shape[0].live, lambda t: neq if t is atom
                             else None) is True and \
                    all(tm.fold(e.live, lambda t: neq if t is atom else None)
                        is False for e in arith) and \
                    not [e for e in r.of_kind("call") if e.idx <
                         shape[0].idx and not (e.data.get("name") or "")
                         .endswith("GeometryException")]
            ctx.ob("C03.1", f, ok,
                   "unequal shapes raise GeometryException before any "
                   "arithmetic" if ok else
                   "no shape comparison of x and y raising "
                   "GeometryException guards the computation",
                   key="C03.1:shape-guard")
            # ----------------------------------------------------- C03.2
            deg = [e for e in raises if any(
                any(s is d for s in a.walk()) for a in tm.atoms(e.live))]
            rets = r.of_kind("return")
            ok = bool(deg) and all(e.idx < rets[-1].idx for e in deg)
            if ok:
                da = [a for a in tm.atoms(deg[0].live)
                      if any(s is d for s in a.walk())]
                # return unreachable when the degeneracy test fires
                pol = tm.fold(deg[0].live,
                              lambda t: True if t in da else None)
                ok = any(tm.fold(rets[-1].live,
                                 lambda t, p=p: p if t in da else None)
                         is False for p in (True, False))
                if not ok and deg[0].loops:
                    # the rank test walks over the singular values one by
                    # one (a counting loop that raises): which values lead
                    # to the raise is carried by loop state — not modelled
                    ctx.undecidable("C03.2", deg[0], "the rank test is a "
                                    "loop over the singular values that "
                                    "raises from inside (loop-carried count)")
                    ok = None
            if ok is not None:
                ctx.ob("C03.2", f, ok,
                     "a rank test on the singular values raises "
                     "GeometryException and guards the return" if ok else
                     "no GeometryException is raised in dependence of the "
                     "singular values before the result is returned",
                     key="C03.2:degenerate-guard")
            # ... and *which* inputs it refuses: "exactly degenerate sets
            # (all points coincident, or all on one coordinate axis) are
            # refused", point sets that determine a rotation (rank >= m - 1,
            # e.g. every planar trajectory) are not. Decided when the test
            # compares a count of the singular values above a threshold with
            # an expression in m: evaluated for m = 3 and counts 0 .. 3
            if deg:
                _rank_threshold(ctx, f, deg[0], d, x)
        else:
            ok = tm.is_const(ret.args[2]) and ret.args[2].args[0] == "float" \
                and ret.args[2].args[1] == 1.0
            ctx.ob("C03.3", f, ok,
                   "with_scale=False: the returned scale is the constant 1.0"
                   if ok else
                   f"with_scale=False: returned scale is {fmt(ret.args[2])}",
                   key="C03.3:unit-scale", value=fmt(ret.args[2]))
        # --------------------------------------------------------- C03.5
        if ws:
            cov = svd[0].data["args"][0] if svd[0].data["args"] else None
            prods = []

            def data(o) -> bool:
                """o depends on the point coordinates (not only on the
                shape of the arrays)"""
                if not isinstance(o, T):
                    return False
                if o.op == "attr" and o.args[1] in ("shape", "size",
                                                    "ndim", "dtype"):
                    return False
                if is_call_to(o, "builtins.len"):
                    return False
                if o.op == "param":
                    return o.args[0] in ("x", "y")
                stack = list(o.args)
                while stack:
                    a = stack.pop()
                    if isinstance(a, T):
                        if data(a):
                            return True
                    elif isinstance(a, (tuple, list, frozenset)):
                        stack.extend(a)
                return False

            def meanlike(z: T) -> bool:
                """a (weighted) mean of the data: .mean / np.mean /
                np.average, or the data matrix times a weight vector that
                does not depend on the data"""
                if is_call_to(z, ".mean", "numpy.mean", "numpy.average"):
                    return True
                ops = None
                if z.op == "call" and tm.callee_name(z) == ".dot" and \
                        len(z.args[1]) == 1:
                    ops = (tm.method_recv(z), z.args[1][0])
                elif is_call_to(z, "numpy.dot", "numpy.matmul") and \
                        len(z.args[1]) == 2:
                    ops = tuple(z.args[1])
                elif z.op == "binop" and z.args[0] == "MatMult":
                    ops = (z.args[1], z.args[2])
                return bool(ops) and ops[0] is not None and \
                    ops[0].op == "param" and ops[0].args[0] in ("x", "y") \
                    and not data(ops[1])
            for t_ in (cov.walk() if cov is not None else []):
                if meanlike(t_):
                    continue
                if t_.op == "call" and tm.callee_name(t_) in (
                        "numpy.outer", "numpy.dot", "numpy.matmul",
                        "numpy.einsum", ".dot") or (
                        t_.op == "binop" and t_.args[0] == "MatMult"):
                    ops_ = list(t_.args[1]) if t_.op == "call" else \
                        [t_.args[1], t_.args[2]]
                    if t_.op == "call" and tm.callee_name(t_) == ".dot":
                        ops_.append(tm.method_recv(t_))
                    ops_ = [o for o in ops_ if isinstance(o, T) and (
                        tm.mentions_param(o, "x") or
                        tm.mentions_param(o, "y"))]
                    if ops_:
                        prods.append((t_, ops_))

            def centred(o: T) -> bool:
                if any(meanlike(z) for z in o.walk()) \
                        and not any(z.op == "binop" and z.args[0] == "Sub"
                                    for z in o.walk()):
                    return True        # a mean itself
                for z in o.walk():
                    if z.op == "binop" and z.args[0] == "Sub" and any(
                            meanlike(w)
                            for w in z.args[2].walk()) and (
                            tm.mentions_param(z.args[1], "x") or
                            tm.mentions_param(z.args[1], "y")):
                        return True
                return False
            if not prods:
                ctx.undecidable("C03.5", f, f"covariance construction not "
                                f"recognised: {fmt(cov)}")
            else:
                # every data factor must be centred: with only one centred
                # factor the other's common offset is multiplied by residuals
                # that sum to zero only up to the round-off of the mean
                # (~ eps * offset), an error of eps * offset^2 in the
                # covariance — 1e-5 rad of rotation for UTM-sized offsets
                raw = [(t_, o) for t_, ops_ in prods for o in ops_
                       if not centred(o)]
                ok = not raw
                ctx.ob("C03.5", f, ok,
                       "the covariance is accumulated from *centred* points "
                       "(y_i - mean_y)(x_i - mean_x)^T" if ok else
                       f"the covariance multiplies uncentred data "
                       f"({fmt(raw[0][1])[:60]}): for point sets with a "
                       f"large common offset (UTM-like coordinates) the "
                       f"offset is cancelled only up to round-off "
                       f"(eps * offset^2) and the rotation is wrong",
                       key="C03.5:centred-covariance", cov=fmt(cov))

        # --------------------------------------------------------- C03.4
        def det_cond(c: T) -> bool:
            dets = [s for s in c.walk() if is_call_to(s, "numpy.linalg.det")]
            srcs = set()
            for s in dets:
                for w in s.walk():
                    if w is u:
                        srcs.add("u")
                    if w is v:
                        srcs.add("v")
            return srcs == {"u", "v"}
        fixes = [t for t in ret.walk() if t.op == "ite" and
                 det_cond(t.args[0])]
        in_rot = [t for t in ret.args[0].walk() if t.op == "ite" and
                  det_cond(t.args[0])]
        ok = bool(in_rot)
        ctx.ob("C03.4", f, ok,
               f"[with_scale={ws}] a correction keyed on det(u)·det(v) "
               f"reaches the returned rotation" if ok else
               f"[with_scale={ws}] no branch that depends on the "
               f"determinants of both SVD factors influences the returned "
               f"rotation (reflection fix missing or keyed on something "
               f"else): r = {fmt(ret.args[0])}",
               key="C03.4:sign-fix-rotation", rotation=fmt(ret.args[0]))
        if ws:
            in_scale = [t for t in ret.args[2].walk() if t.op == "ite" and
                        det_cond(t.args[0])]
            uses_d = any(s is d for s in ret.args[2].walk())
            ok = bool(in_scale) and uses_d
            ctx.ob("C03.4", f, ok,
                   "[with_scale=True] the same correction reaches the "
                   "returned scale (trace(D S))" if ok else
                   "[with_scale=True] the returned scale does not depend on "
                   "the reflection correction: in the mirrored case the "
                   f"scale is not the least-squares one: c = "
                   f"{fmt(ret.args[2])}",
                   key="C03.4:sign-fix-scale", scale=fmt(ret.args[2]))
            in_t = [t for t in ret.args[1].walk() if t.op == "ite" and
                    det_cond(t.args[0])]
            ctx.ob("C03.4", f, bool(in_t),
                   "[with_scale=True] translation is computed from the "
                   "corrected rotation/scale" if in_t else
                   "translation does not use the corrected rotation",
                   key="C03.4:sign-fix-translation")
        _sign_fix_value(ctx, f, ws, ret, fixes)
        _equivariance(ctx, f, ws, ret, x, y)
    # "sets of unequal size are refused" must also hold at the public entry
    # PosePath3D.align: it may only cut the inputs to the first n pairs when
    # n is given — otherwise a longer reference is silently truncated and the
    # size check never sees the mismatch (instances of C04.2)
    from ..core import import_rules
    n = import_rules(ctx, "c04", ("C04.2",), "C03.8")
    ctx.require(n >= 4, "C03.8: first-n instances not found")
    # the returned similarity is a function of the two point sets alone: a
    # shared memoised object (a cached identity matrix ...) written in place
    # makes it depend on earlier calls (instances of C16.4)
    n = import_rules(ctx, "c16", ("C16.4",), "C03.9")
    ctx.require(n >= 1, "C03.9: memoised-result instances not found")


def _sign_fix_value(ctx, f, ws, ret, fixes):
    """C03.7: what the correction does. Recognised idiom (Umeyama eq. 43):
    S = identity with the *last* diagonal entry set to -1."""
    if not fixes:
        return
    fx = fixes[0]
    alts = [a for a in (fx.args[1], fx.args[2]) if a.op == "upd"]
    diag = len(alts) == 1 and is_call_to(alts[0].args[0], "numpy.ones")
    if len(alts) != 1 or not (is_call_to(alts[0].args[0], "numpy.eye",
                                         "numpy.identity") or diag):
        ctx.undecidable("C03.7", f, f"[with_scale={ws}] form of the "
                        f"reflection correction not recognised: "
                        f"{fmt(fx)[:120]}")
        return
    base, idx, val = alts[0].args
    other = fx.args[2] if alts[0] is fx.args[1] else fx.args[1]
    m_term = base.args[1][0] if base.args[1] else None

    def last(i: T) -> Optional[bool]:
        if tm.is_const(i):
            return i.args[1] == -1
        if i.op == "binop" and i.args[0] == "Sub" and i.args[1] is m_term \
                and tm.is_const(i.args[2]):
            return i.args[2].args[1] == 1
        return None
    if diag and m_term is not None and m_term.op == "sub" and \
            m_term.args[0].op == "attr" and m_term.args[0].args[1] == "shape":
        pass        # np.ones(u.shape[0]): m taken from a matrix' shape
    # S as a matrix (entry [m-1, m-1]) or as its diagonal (entry [m-1])
    pos = [last(i) for i in idx.args] if idx.op == "tuple" and \
        len(idx.args) == 2 and not diag else (
            [last(idx)] if diag and idx.op != "tuple" else [None])
    if None in pos or not tm.is_const(val):
        ctx.undecidable("C03.7", f, f"[with_scale={ws}] sign-matrix entry "
                        f"not recognised: {fmt(alts[0])[:120]}")
        return
    taken_when_negative = alts[0] is fx.args[1]
    cmps = [a for a in tm.atoms(fx.args[0]) if a.op == "cmp"]
    neg = None
    if len(cmps) == 1 and tm.is_const(cmps[0].args[2]) and \
            cmps[0].args[2].args[1] == 0:
        neg = cmps[0].args[0] in ("Lt", "LtE")
        if fx.args[0].op == "not":
            neg = not neg
    ok = all(pos) and val.args[1] == -1 and other is base and \
        neg is not None and neg == taken_when_negative
    ctx.ob("C03.7", f, ok,
           f"[with_scale={ws}] when det(u)·det(v) is negative, S is the "
           f"identity with the last diagonal entry -1 (flips the direction "
           f"of the smallest singular value); otherwise S is the identity"
           if ok else
           f"[with_scale={ws}] reflection correction deviates from "
           f"S = diag(1, ..., 1, -1) applied iff det(u)·det(v) < 0: "
           f"{fmt(fx)[:160]} — a reflection is returned (or a proper "
           f"rotation is spoilt) for mirrored inputs",
           key="C03.7:sign-matrix")


def _uniform_weights(t: T) -> T:
    """the unweighted case of a weighted formulation, written with the
    uniform weight vector w = np.full(n, 1/n):  X.dot(w) is X.mean(axis=1)
    and w * A is (1/n) * A — the spellings the typing knows"""
    def full(z: T):
        if is_call_to(z, "numpy.full") and len(z.args[1]) == 2:
            n, c = z.args[1]
            if c.op == "binop" and c.args[0] == "Div" and \
                    tm.is_const(c.args[1]) and \
                    tm.const_val(c.args[1]) == 1 and c.args[2] is n:
                return c
        return None

    def rw(z: T):
        ops = None
        if z.op == "call" and tm.callee_name(z) == ".dot" and \
                len(z.args[1]) == 1:
            ops = (tm.method_recv(z), z.args[1][0])
        elif is_call_to(z, "numpy.dot", "numpy.matmul") and \
                len(z.args[1]) == 2:
            ops = tuple(z.args[1])
        elif z.op == "binop" and z.args[0] == "MatMult":
            ops = (z.args[1], z.args[2])
        if ops and ops[0] is not None and full(ops[1]) is not None:
            return tm.call(tm.attr(ops[0], "mean"), (),
                           (("axis", const(1)),))
        if z.op == "binop" and z.args[0] == "Mult":
            for a, b in ((z.args[1], z.args[2]), (z.args[2], z.args[1])):
                c = full(a)
                if c is not None:
                    return T("binop", "Mult", c, b)
        return None
    return t.map(rw)


def _equivariance(ctx, f, ws, ret, x, y):
    """C03.6: typed equivariance of (r, t, c) under moving, scaling,
    replicating / permuting the points, and no mixing of the two spaces"""
    an = Analyzer(x, y, joint_scale=not ws)
    tag = f"[with_scale={ws}]"
    ret = _uniform_weights(ret)
    try:
        vr, vt, vc = (an.ev(a) for a in ret.args)
    except Unknown as e:
        ctx.undecidable("C03.6", f, f"{tag} equivariance typing: {e}")
        return
    except Inequivariant as e:
        ctx.ob("C03.6", f, False, f"{tag} {e.msg}",
               key=f"C03.6:{e.kind}")
        return
    ctx.analysed["configs"] += 0
    ctx.note(f"C03.6 {tag}: typed {an.stats['terms']} terms, "
             f"{an.stats['linear']} linear / {an.stats['nonlinear']} "
             f"non-linear operations, {an.stats['reductions']} reductions "
             f"over the points") if hasattr(ctx, "note") else None
    ok = vr.axes == (SP_Y, SP_X) and vt.axes == (SP_Y,) and vc.axes == ()
    ctx.ob("C03.6", f, ok,
           f"{tag} r maps x-space to y-space, t lives in y-space, c is a "
           f"scalar (the two coordinate spaces are never mixed)" if ok else
           f"{tag} result types: r {vr.axes}, t {vt.axes}, c {vc.axes} — "
           f"expected a map x-space -> y-space and a y-space vector",
           key="C03.6:space")
    F_ = Fraction
    if ws:
        want = {"r": (0, 0), "t": (0, 1), "c": (-1, 1)}
        got = {"r": vr.deg[:2], "t": vt.deg[:2], "c": vc.deg[:2]}
        ok = all(tuple(map(F_, want[k])) == tuple(got[k]) for k in want)
        desc = "x -> lx·x, y -> ly·y gives r, ly·t, (ly/lx)·c"
    else:
        want = {"r": 0, "t": 1, "c": 0}
        got = {"r": sum(vr.deg[:2]), "t": sum(vt.deg[:2]),
               "c": sum(vc.deg[:2])}
        ok = all(F_(want[k]) == got[k] for k in want)
        desc = "scaling both sets by l gives r, l·t, c"
    ctx.ob("C03.6", f, ok,
           f"{tag} scaling the inputs: {desc}" if ok else
           f"{tag} homogeneity degrees of (r, t, c) are "
           f"{ {k: tuple(str(z) for z in (v if isinstance(v, tuple) else (v,))) for k, v in got.items()} }"
           f", expected {want}: the result is not equivariant under "
           f"scaling the point sets", key="C03.6:scale")
    rep = (vr.deg[2], vt.deg[2], vc.deg[2])
    ok = rep == (0, 0, 0)
    ctx.ob("C03.6", f, ok,
           f"{tag} all sums over the points are symmetric and normalised "
           f"by n: permuting or replicating the points leaves (r, t, c) "
           f"unchanged" if ok else
           f"{tag} (r, t, c) grow like n^{tuple(str(z) for z in rep)} when "
           f"the point set is replicated: a sum over the points is not "
           f"normalised by the number of points", key="C03.6:permute")
    r_t, c_t = ret.args[0], ret.args[2]
    want_wx = {(() if tm.is_const(c_t) else (c_t,), (r_t,)):
               Fraction(-1) * (Fraction(c_t.args[1]).limit_denominator(10**9)
                               if tm.is_const(c_t) else 1)}
    ok = vr.invariant and vc.invariant and vt.wy == {((), ()): 1} and \
        vt.wx == want_wx
    ctx.ob("C03.6", f, ok,
           f"{tag} moving the sets by a, b: r and c unchanged, "
           f"t -> t + b - c·r·a (exact translation equivariance)" if ok else
           f"{tag} translation sensitivity of t is wx={_wshow(vt.wx)}, "
           f"wy={_wshow(vt.wy)} (r invariant: {vr.invariant}, c invariant: "
           f"{vc.invariant}) — expected t -> t + b - c·r·a",
           key="C03.6:move")


def _wshow(w):
    if not isinstance(w, dict):
        return str(w)
    return {(" ".join(fmt(z)[:24] for z in k[0]),
             " ".join(fmt(z)[:24] for z in k[1])): str(c)
            for k, c in w.items()}


_LOOP = ("    sigma_x = 1.0 / n * (np.linalg.norm(x - mean_x[:, np.newaxis])**2)\n"
         "\n"
         "    # covariance matrix, eq. 38\n"
         "    outer_sum = np.zeros((m, m))\n"
         "    for i in range(n):\n"
         "        outer_sum += np.outer((y[:, i] - mean_y), (x[:, i] - mean_x))\n"
         "    cov_xy = np.multiply(1.0 / n, outer_sum)\n")
VARIANTS = [
    dict(name="rank-test-refuses-planar", file="evo/core/geometry.py",
         find="    if np.count_nonzero(d > np.finfo(d.dtype).eps) < m - 1:",
         replace="    if np.count_nonzero(d > np.finfo(d.dtype).eps) <= m - 1:",
         expect="fire", rule="C03.2"),
    dict(name="rank-test-accepts-collinear", file="evo/core/geometry.py",
         find="    if np.count_nonzero(d > np.finfo(d.dtype).eps) < m - 1:",
         replace="    if np.count_nonzero(d > np.finfo(d.dtype).eps) < m - 2:",
         expect="fire", rule="C03.2"),
    dict(name="rank-test-mask-sum", file="evo/core/geometry.py",
         find="    if np.count_nonzero(d > np.finfo(d.dtype).eps) < m - 1:",
         replace="    if (d > np.finfo(d.dtype).eps).sum() + 1 < m:",
         expect="silent"),
    dict(name="eqv-vectorised-covariance", file="evo/core/geometry.py",
         find=_LOOP,
         replace="    x_c = x - mean_x[:, np.newaxis]\n"
                 "    y_c = y - mean_y[:, np.newaxis]\n"
                 "    sigma_x = np.sum(x_c**2) / n\n"
                 "    cov_xy = y_c.dot(x_c.T) / n\n", expect="silent"),
    dict(name="eqv-covariance-transposed", file="evo/core/geometry.py",
         find=_LOOP,
         replace="    x_c = x - mean_x[:, np.newaxis]\n"
                 "    y_c = y - mean_y[:, np.newaxis]\n"
                 "    sigma_x = np.sum(x_c**2) / n\n"
                 "    cov_xy = x_c.dot(y_c.T) / n\n", expect="fire",
         rule="C03.6"),
    dict(name="eqv-variance-of-y", file="evo/core/geometry.py",
         find="np.linalg.norm(x - mean_x[:, np.newaxis])",
         replace="np.linalg.norm(y - mean_y[:, np.newaxis])", expect="fire",
         rule="C03.6"),
    dict(name="eqv-variance-uncentred", file="evo/core/geometry.py",
         find="np.linalg.norm(x - mean_x[:, np.newaxis])",
         replace="np.linalg.norm(x)", expect="fire", rule="C03.6"),
    dict(name="eqv-covariance-not-normalised", file="evo/core/geometry.py",
         find="    cov_xy = np.multiply(1.0 / n, outer_sum)",
         replace="    cov_xy = outer_sum", expect="fire", rule="C03.6"),
    dict(name="eqv-translation-unscaled", file="evo/core/geometry.py",
         find="    t = mean_y - np.multiply(c, r.dot(mean_x))",
         replace="    t = mean_y - r.dot(mean_x)", expect="fire",
         rule="C03.6"),
    dict(name="eqv-translation-inverse-rotation", file="evo/core/geometry.py",
         find="    t = mean_y - np.multiply(c, r.dot(mean_x))",
         replace="    t = mean_y - np.multiply(c, r.T.dot(mean_x))",
         expect="fire", rule="C03.6"),
    dict(name="eqv-skips-first-point", file="evo/core/geometry.py",
         find="    for i in range(n):", replace="    for i in range(1, n):",
         expect="fire", rule="C03.6"),
    dict(name="eqv-one-sided-centring", file="evo/core/geometry.py",
         find="np.outer((y[:, i] - mean_y), (x[:, i] - mean_x))",
         replace="np.outer(y[:, i] - mean_y, x[:, i])", expect="fire",
         rule="C03.5"),
    dict(name="sign-matrix-first-entry", file="evo/core/geometry.py",
         find="s[m - 1, m - 1] = -1", replace="s[0, 0] = -1", expect="fire",
         rule="C03.7"),
    dict(name="sign-matrix-negative-index", file="evo/core/geometry.py",
         find="s[m - 1, m - 1] = -1", replace="s[-1, -1] = -1",
         expect="silent"),
    dict(name="sign-fix-on-positive", file="evo/core/geometry.py",
         find="np.linalg.det(u) * np.linalg.det(v) < 0.0",
         replace="np.linalg.det(u) * np.linalg.det(v) > 0.0", expect="fire",
         rule="C03.7"),
    dict(name="shape-guard-removed", file="evo/core/geometry.py",
         find="    if x.shape != y.shape:\n        raise GeometryException(\"data matrices must have the same shape\")\n",
         replace="", expect="fire", rule="C03.1"),
    dict(name="degeneracy-guard-removed", file="evo/core/geometry.py",
         find="    if np.count_nonzero(d > np.finfo(d.dtype).eps) < m - 1:",
         replace="    if False:", expect="fire", rule="C03.2"),
    dict(name="scale-not-one", file="evo/core/geometry.py",
         find=" if with_scale else 1.0", replace=" if with_scale else 1",
         expect="fire", rule="C03.3"),
    dict(name="sign-fix-deleted", file="evo/core/geometry.py",
         find="        s[m - 1, m - 1] = -1", replace="        pass",
         expect="fire", rule="C03.4"),
    dict(name="scale-ignores-S", file="evo/core/geometry.py",
         find="    c = 1 / sigma_x * np.trace(np.diag(d).dot(s)) if with_scale else 1.0",
         replace="    c = d.sum() / sigma_x if with_scale else 1.0",
         expect="fire", rule="C03.4"),
    dict(name="fix-keyed-on-cov", file="evo/core/geometry.py",
         find="    if np.linalg.det(u) * np.linalg.det(v) < 0.0:",
         replace="    if np.linalg.det(cov_xy) < 0.0:",
         expect="fire", rule="C03.4"),
    dict(name="one-pass-covariance", file="evo/core/geometry.py",
         find="    cov_xy = np.multiply(1.0 / n, outer_sum)",
         replace="    cov_xy = 1.0 / n * y.dot(x.T) - np.outer(mean_y, mean_x)",
         expect="fire", rule="C03.5"),
    dict(name="vectorised-centred-covariance", file="evo/core/geometry.py",
         find="    cov_xy = np.multiply(1.0 / n, outer_sum)",
         replace="    cov_xy = 1.0 / n * (y - mean_y[:, np.newaxis]).dot((x - mean_x[:, np.newaxis]).T)",
         expect="silent"),
    dict(name="det-of-product", file="evo/core/geometry.py",
         find="    if np.linalg.det(u) * np.linalg.det(v) < 0.0:",
         replace="    if np.linalg.det(u.dot(v)) < 0.0:", expect="silent"),
]
