"""C14 — plane projection."""
from __future__ import annotations

from typing import Optional

from .. import terms as tm
from ..interp import Interp
from ..lib import fmt, is_call_to
from ..terms import T, const
from .c08 import (CACHE_STATES, M, P, PATH, Q, VIEWS, materialised_at_exit,
                  run_in_state, state_name, view_writes)

EXPLANATION = """
project() is specialised by constant propagation for each of the 3 Plane
members (E-SCCP) and each reachable cache configuration. C14.1: the zeroed
coordinate, the axis of the generated rotation vector and the plane's missing
letter are the same index. C14.2: the heading taken from euler_from_matrix
must be an *outer* angle of the axis sequence (the middle Tait-Bryan angle is
confined to [-pi/2, pi/2] — read off the vendored euler_from_matrix: it is
atan2(., cy) with cy = sqrt(.) >= 0), and the axis letter at that position must
be the plane normal; otherwise planar poses with |heading| > 90 deg are
changed. C14.3: one-shot typestate: `_projected` is tested (raising) before
any mutation, initialised False and set to a truthy constant on every normal
exit for every plane. C14.4: the other views are flushed (all cache
configurations), and count/order/timestamps are untouched (new matrices are an
unfiltered comprehension over the old ones; no timestamp store).
"""
UNDECIDED = [
    "orthonormality of the rebuilt rotation (scipy Rotation.from_rotvec)",
    "exact zero in-plane change for outer-angle planes (floating point)",
    "the projected angle of general 3-D poses is not pinned by the property",
]
TRUSTED = ["vendored euler_from_matrix: static axis sequences 'sXYZ', angle k "
           "belongs to axis letter k+1; middle angle range [-pi/2, pi/2]"]
ASSUMPTIONS = ["A4 vendored transformations.py used as summary source"]
MANIFEST = dict(
    text="Decides for all 3 planes x 5 cache configurations: index "
         "consistency of the zeroed coordinate / rotation axis / plane "
         "name, that the heading is an outer Euler angle about the plane "
         "normal (necessary for 'planar poses with any heading are left "
         "unchanged'), the one-shot typestate of `_projected`, cache "
         "flushing and preservation of count/order/timestamps. Reports the "
         "XZ plane's middle-angle defect as a known finding.",
    note="Numerical claims (orthonormality, exact in-plane invariance) are "
         "undecided. The angle-range fact about the vendored "
         "euler_from_matrix is re-derived from its source on every run "
         "(second atan2 argument is a sqrt).",
    technique="per-enum-member constant propagation (SCCP-style "
              "specialisation) + typestate check on the event log + "
              "provenance matching",
)
FLOORS = {"C14.1": 3, "C14.2": 3, "C14.3": 5, "C14.4": 15, "C14.5": 2}
TRAJ_ = "evo.core.trajectory.PoseTrajectory3D"

PLANE = "evo.core.trajectory.Plane"
LETTERS = "xyz"


def _middle_angle_is_bounded(ctx, prog) -> bool:
    """re-derive from the vendored source: for the axes convention project()
    uses, the middle angle euler_from_matrix returns is, on every path,
    +-atan2(x, c) with c a square root (c >= 0)  =>  range [-pi/2, pi/2].
    The convention table lookup is folded for the constant convention name
    (which then cannot raise the exceptions its fallback handles)."""
    f = prog.func("evo.core.transformations.euler_from_matrix")
    from ..known_functions import KNOWN_FUNCTIONS
    r = Interp(prog, assume=lambda t: False if t.op == "exc" else None,
               inline=lambda fn: fn.module is f.module and
               fn.qualname not in KNOWN_FUNCTIONS).run(
        f, {f.params[1]: const("sxyz")})
    alts = [r.ret]
    for _ in range(6):
        alts = [b for a in alts for b in tm.strip_ite(a)]
    if not alts or not all(a.op == "tuple" and len(a.args) == 3
                           for a in alts):
        return False
    mids = [m for a in alts for m in tm.strip_ite(a.args[1])]

    def bounded(m: T) -> bool:
        if m.op == "unop" and m.args[0] == "USub":
            return bounded(m.args[1])
        if is_call_to(m, "math.atan2", "numpy.arctan2") and \
                len(m.args[1]) == 2:
            return is_call_to(Interp.unname(m.args[1][1]), "math.sqrt",
                              "numpy.sqrt")
        return False
    return bool(mids) and all(bounded(m) for m in mids)


ALLOWED_STATE = ("_poses_se3", "_positions_xyz", "_orientations_quat_wxyz",
                 "_projected", "timestamps", "meta", "poses_se3",
                 "positions_xyz", "orientations_quat_wxyz", "num_poses")


def _own_inputs(ctx, prog, f, selfp):
    """C14.5: the projection is computed from the poses the object holds
    *now*. (a) Everything project() reads from `self` — also through the
    getters it calls — is one of the three pose views (kept coherent by every
    operation, C08.1), the timestamps, meta or its own one-shot flag: state
    cached elsewhere (e.g. memoised Euler angles) is not re-selected by
    reduce_to_ids and would pair pose k with the heading of another pose.
    (b) no np.roll without an axis on per-pose arrays (it rolls the
    flattened array: every row receives a component of its neighbour)."""
    it = Interp(prog, inline=lambda fn: fn.cls is not None and
                fn.cls.qualname in (PATH, TRAJ_) and fn.name != "project",
                max_depth=3)
    r = it.run(f, {}, prog.cls(PATH))
    reads, cond_reads = set(), set()
    for e in r.events:
        for key in ("value", "result", "recv", "base"):
            v = e.data.get(key)
            if isinstance(v, T):
                for x in v.walk():
                    if x.op == "attr" and x.args[0] is selfp:
                        reads.add(x.args[1])
        for v in (e.data.get("args") or ()):
            for x in v.walk():
                if x.op == "attr" and x.args[0] is selfp:
                    reads.add(x.args[1])
        for x in e.live.walk():
            if x.op == "attr" and x.args[0] is selfp:
                cond_reads.add(x.args[1])
    # project's own one-shot state, whatever it is called: an attribute it
    # only *tests* and sets itself to a constant
    own_flag = {n for n in cond_reads - reads
                if any(e.kind == "setattr" and e.data["base"] is selfp and
                       e.data["name"] == n and e.depth == 0 and
                       (tm.is_const(e.data["value"]) or
                        e.data["value"].op in ("enum", "param") or
                        not any(x.op == "attr" and x.args[0] is selfp
                                for x in e.data["value"].walk()))
                       for e in r.events)}
    reads |= cond_reads
    cls_ = prog.cls(PATH)
    foreign = sorted(a for a in reads if a not in ALLOWED_STATE and
                     a not in own_flag and
                     prog.find_method(cls_, a) is None)
    ctx.ob("C14.5", f, not foreign,
           f"project() reads only the pose views / timestamps / its own flag "
           f"({sorted(reads & set(ALLOWED_STATE))})" if not foreign else
           f"project() (through the getters it calls) depends on cached "
           f"state {foreign}: that attribute is not one of the pose views "
           f"every operation keeps coherent, so after an index reduction "
           f"pose k is projected with the heading stored for another pose",
           key="C14.5:reads-own-views", reads=sorted(reads))
    rolls = [e for e in r.calls("numpy.roll")
             if "axis" not in dict(e.data["kwargs"]) and
             len(e.data["args"]) < 3]
    ctx.ob("C14.5", rolls[0] if rolls else f, not rolls,
           "project(): no flattening np.roll on per-pose arrays"
           if not rolls else
           f"project(): np.roll without `axis` at {rolls[0].where} rolls the "
           f"flattened per-pose array: each row receives a component of the "
           f"previous row (correct only for a single pose)",
           key="C14.5:roll-axis")


def _refusal_reaches_caller(ctx, prog):
    """C14.3: 'a second projection of the same object is refused' — the
    refusal is the TrajectoryException project() raises; a caller inside evo
    that catches it and carries on turns the refusal into 'silently keep the
    first plane' (values and stored trajectories then belong to another
    plane than the one requested and named in the result)."""
    from ..lib import sweep
    n = 0
    for q, r in sorted(sweep(prog, "plain").items()):
        for e in r.of_kind("call"):
            if not (e.data.get("name") or "").endswith("PosePath3D.project"):
                continue
            n += 1
            caught = [ty for _, types in e.tries for ty in types
                      if any(k in ty for k in (
                          "TrajectoryException", "EvoException", "Exception",
                          "BaseException"))]
            ctx.ob("C14.3", e, not caught,
                   f"{q}: the refusal of a second projection propagates to "
                   f"the caller" if not caught else
                   f"{q}: project() is called inside a try that catches "
                   f"{caught[0]}: a second projection (to another plane) is "
                   f"no longer refused but skipped", key=f"C14.3:caller:{q}")
    ctx.require(n >= 4, "callers of PosePath3D.project not found")


def _flag_truth(a, selfp, flag, v):
    """truth of a guard atom for an object whose state attribute `flag`
    holds the constant v"""
    fl = tm.attr(selfp, flag)
    if v is None or not tm.is_const(v) or not any(
            x is fl for x in a.walk()):
        return None
    t = a.map(lambda x: v if x is fl else None)
    if tm.is_const(t):
        return bool(t.args[1])
    if t.op == "not" and tm.is_const(t.args[0]):
        return not bool(t.args[0].args[1])
    if t.op == "cmp" and tm.is_const(t.args[1]) and tm.is_const(t.args[2]):
        l_, r_ = t.args[1].args[1], t.args[2].args[1]
        import operator as _op
        fn = {"Is": _op.is_, "IsNot": _op.is_not, "Eq": _op.eq,
              "NotEq": _op.ne, "Lt": _op.lt, "LtE": _op.le, "Gt": _op.gt,
              "GtE": _op.ge}.get(t.args[0])
        try:
            return bool(fn(l_, r_)) if fn else None
        except TypeError:
            return None
    return None


def check(ctx):
    prog = ctx.prog
    f = prog.func(f"{PATH}.project")
    ctx.analysed_fn(f.qualname)
    selfp = tm.param(f.params[0])
    planes = prog.enum_members(PLANE)
    ctx.require(planes is not None and len(planes) >= 3,
                "Plane enum vanished")
    bounded = _middle_angle_is_bounded(ctx, prog)
    ctx.require(bounded, "vendored euler_from_matrix: the middle angle is "
                "no longer +-atan2(., sqrt(.)) on every path; its range fact "
                "cannot be re-derived")
    planec = prog.cls(PLANE)
    import ast
    from .. import vendored
    vendored.check(ctx, "C14.2", ("euler_from_matrix", "_AXES2TUPLE",
                                  "_NEXT_AXIS", "_EPS"))

    _own_inputs(ctx, prog, f, selfp)
    _refusal_reaches_caller(ctx, prog)

    flag_names, guard_lives = set(), []
    for member in planes:
        node = planec.members[member]
        ctx.require(isinstance(node, ast.Constant) and
                    isinstance(node.value, str) and len(node.value) == 2,
                    f"Plane.{member} value is not a 2-letter plane name")
        missing = [i for i, c in enumerate(LETTERS)
                   if c not in node.value.lower()]
        ctx.require(len(missing) == 1, f"Plane.{member} value {node.value!r}")
        normal = missing[0]
        cfg = {f.params[1]: tm.enum(planec.qualname, member)}
        res = run_in_state(prog, f, (True, True, True), cfg, prog.cls(PATH))
        ctx.analysed["configs"] += 1
        # zeroed coordinate(s): element stores  pose[k, 3] = 0
        zeroed = []
        for e in res.of_kind("setitem"):
            idx = e.data["index"]
            if idx.op == "tuple" and len(idx.args) == 2 and \
                    tm.is_const(idx.args[1], 3) and tm.is_const(idx.args[0]) \
                    and tm.is_const(e.data["value"]) and \
                    e.data["value"].args[1] == 0:
                zeroed.append(idx.args[0].args[1])
            # ... or for the whole stack at once: poses[:, k, 3] = 0
            ALL_ = T("slice", tm.NONE, tm.NONE, tm.NONE)
            if idx.op == "tuple" and len(idx.args) == 3 and \
                    idx.args[0] is ALL_ and tm.is_const(idx.args[2], 3) and \
                    tm.is_const(idx.args[1]) and \
                    tm.is_const(e.data["value"]) and \
                    e.data["value"].args[1] == 0:
                zeroed.append(idx.args[1].args[1])
        if not zeroed and not res.calls("evo.core.lie_algebra.so3_exp"):
            # the plane is refused outright: under `plane == member` and a
            # fresh (not yet projected) object the call ends in a raise and
            # no pose is written
            flagless = lambda t: tm.fold(t, lambda a: None if a.op in (
                "and", "or", "not") else (False if any(
                    x.op == "attr" and str(x.args[1]).startswith("_proj")
                    for x in a.walk()) else None))
            rz = [e for e in res.of_kind("raise")
                  if flagless(e.live) is True]
            if rz and not res.of_kind("setitem") and not [
                    e for e in res.of_kind("setattr")
                    if e.data["name"] in ("_poses_se3",)]:
                ctx.ob("C14.1", rz[0], False,
                       f"Plane.{member}: project() raises "
                       f"{rz[0].data.get('exc_name') or 'an exception'} for "
                       f"this plane instead of projecting (the plane "
                       f"dispatch no longer reaches its branch)",
                       key=f"C14.1:{member}:refused")
                continue
            # another construction of the planar poses altogether (the Euler
            # angle re-derived from the matrix entries ...): not modelled —
            # the summary of the vendored euler_from_matrix (A4) does not
            # carry over to a re-implementation
            ctx.undecidable("C14.1", f, f"Plane.{member}: the projected "
                            f"poses are not built by zeroing pose[k, 3] and "
                            f"so3_exp of the Euler angle")
            continue
        ok = zeroed == [normal]
        ctx.ob("C14.1", f, ok,
               f"Plane.{member}: exactly the out-of-plane coordinate "
               f"{LETTERS[normal]} is zeroed" if ok else
               f"Plane.{member}: zeroed translation rows {zeroed}, expected "
               f"[{normal}] ({LETTERS[normal]})",
               key=f"C14.1:{member}:zeroed", zeroed=zeroed,
               # (no store of a constant 0 into pose[k, 3] was read at all:
               # the zeroing is written in another form — no evidence)
               evidence=bool(zeroed))
        # rotation axis: unit vector with 1 at `normal`
        exps = res.calls("evo.core.lie_algebra.so3_exp")
        ctx.require(len(exps) == 1 and exps[0].data["args"],
                    f"Plane.{member}: so3_exp call not found (unknown idiom)")
        # every pose gets the rebuilt rotation: the rebuild must not depend
        # on a test of the pose itself (an "already planar" shortcut with a
        # tolerance leaves slightly tilted poses untouched)
        pose_tests = [a for a in tm.atoms(exps[0].live)
                      if any(x.op == "elem" for x in a.walk())]
        def exact(a: T) -> bool:
            approx = any(is_call_to(x, "numpy.isclose", "numpy.allclose",
                                    "math.isclose") for x in a.walk())
            return not approx and (
                (a.op == "cmp" and a.args[0] in ("Eq", "NotEq")) or
                is_call_to(a, ".any", ".all", "numpy.any", "numpy.all",
                           "numpy.array_equal", "numpy.count_nonzero"))
        # a conjunction is at least as strict as its exact members: an
        # approximate test next to an exact one cannot widen the shortcut
        exact_ok = bool(pose_tests) and any(exact(a) for a in pose_tests)
        ctx.ob("C14.1", exps[0], not pose_tests or exact_ok,
               f"Plane.{member}: the rotation of every pose is rebuilt "
               f"(no data-dependent shortcut)" if not pose_tests else
               (f"Plane.{member}: poses are skipped only on exact equality "
                f"tests" if exact_ok else
                f"Plane.{member}: the rebuild of the rotation is skipped "
                f"when {fmt(pose_tests[0])[:80]} — an approximate test on "
                f"the pose: a pose tilted out of the plane within that "
                f"tolerance keeps its out-of-plane rotation"),
               key=f"C14.1:{member}:every-pose")
        av = exps[0].data["args"][0]
        axis_idx = None
        angle = None

        def unit(a: T):
            return a.args[1].args[1] if (
                a.op == "upd" and is_call_to(a.args[0], "numpy.zeros") and
                tm.is_const(a.args[1]) and tm.is_const(a.args[2]) and
                tm.const_val(a.args[2]) == 1 and
                not isinstance(tm.const_val(a.args[2]), bool)) \
                else None
        if av.op == "binop" and av.args[0] == "Mult":
            for a, b in ((av.args[1], av.args[2]), (av.args[2], av.args[1])):
                if unit(a) is not None:
                    axis_idx = unit(a)
                    angle = b
        elif unit(av) is not None:
            # so3_exp(axis, angle): axis and angle passed separately (the
            # callee scales the normalised axis by the angle)
            b_ = exps[0].data.get("bound") or {}
            extra = [v for k, v in b_.items() if v is not av and
                     k not in ("degrees",)]
            deg = b_.get("degrees")
            if len(exps[0].data["args"]) + len(exps[0].data["kwargs"]) >= 2 \
                    and len(extra) >= 1 and (deg is None or
                                             tm.is_const(deg, False)):
                axis_idx = unit(av)
                # the callee must use the angle whenever one is passed — a
                # heading of exactly 0 included (`if angle:` would treat it
                # as "no angle" and rotate by |axis| = 1 rad instead)
                tgt = exps[0].data.get("target")
                if tgt is not None and len(tgt.params) >= 2:
                    ap = tm.param(tgt.params[1])
                    rr = Interp(prog).run(tgt)
                    truthy = any(a is ap for e_ in rr.events
                                 for a in tm.atoms(e_.live)) or any(
                        a is ap for x in rr.ret.walk() if x.op == "ite"
                        for a in tm.atoms(x.args[0]))
                    ctx.ob("C14.6", tgt, not truthy,
                           f"{tgt.name}: the separate angle argument is used "
                           f"whenever it is given (tested against None)"
                           if not truthy else
                           f"{tgt.name}: whether an angle was passed is "
                           f"decided by its truth value: a planar pose with "
                           f"heading exactly 0 is rebuilt with the rotation "
                           f"vector `axis` itself (1 rad about the normal) — "
                           f"the pose is not left unchanged",
                           key=f"C14.6:{member}:angle-given")
                angle = exps[0].data["args"][1] if len(
                    exps[0].data["args"]) > 1 else dict(
                    exps[0].data["kwargs"]).get("angle")
        ok = axis_idx == normal
        if axis_idx is None:
            # the rotation vector is not `unit vector of the normal * angle`
            # built from np.zeros(3): no evidence which axis it is
            ctx.undecidable("C14.1", f, f"Plane.{member}: the axis of the "
                            f"rebuilt rotation is not read from the so3_exp "
                            f"argument {fmt(av)[:100]}")
            continue
        ctx.ob("C14.1", f, ok,
               f"Plane.{member}: rotation is rebuilt about the plane normal "
               f"{LETTERS[normal]}" if ok else
               f"Plane.{member}: rotation axis index {axis_idx}, plane "
               f"normal is {normal}", key=f"C14.1:{member}:axis",
               axis=fmt(av))
        # C14.2 heading = outer Euler angle about the normal
        ctx.require(angle is not None, f"Plane.{member}: angle factor of the "
                    "rotation vector not found (unknown idiom)")
        eul = None
        pos = None
        if angle.op == "sub" and tm.is_const(angle.args[1]) and \
                is_call_to(angle.args[0],
                           "evo.core.transformations.euler_from_matrix"):
            eul = angle.args[0]
            pos = angle.args[1].args[1]
        ctx.require(eul is not None, f"Plane.{member}: heading is not an "
                    f"element of euler_from_matrix(...) (unknown idiom: "
                    f"{fmt(angle)})")
        axes = None
        if len(eul.args[1]) >= 2 and tm.is_const(eul.args[1][1]):
            axes = eul.args[1][1].args[1]
        for k, v in eul.args[2]:
            if k == "axes" and tm.is_const(v):
                axes = v.args[1]
        if axes is None and len(eul.args[1]) == 1:
            axes = "sxyz"
        ctx.require(isinstance(axes, str) and len(axes) == 4 and
                    axes[0] in "sr", f"Plane.{member}: non-literal Euler "
                    f"axes")
        # static frame: angle k <-> letter axes[1+k]; rotating: reversed
        letters = axes[1:] if axes[0] == "s" else axes[1:][::-1]
        rep = letters[0] == letters[2]
        letter = letters[pos] if 0 <= pos <= 2 else "?"
        outer = pos in (0, 2)
        m_arg_ok = eul.args[1] and any(
            x.op == "elem" for x in eul.args[1][0].walk())
        ok = outer and not rep and letter == LETTERS[normal] and m_arg_ok
        ctx.ob("C14.2", f, ok,
               f"Plane.{member}: heading = euler_from_matrix(R, "
               f"{axes!r})[{pos}] is an outer angle about "
               f"{LETTERS[normal]} (full range (-pi, pi])" if ok else
               f"Plane.{member}: heading = euler_from_matrix(R, "
               f"{axes!r})[{pos}] is "
               + ("the MIDDLE angle of the sequence, confined to "
                  "[-pi/2, pi/2]: a pose lying in the plane with |heading| "
                  "> 90 deg is changed by the projection"
                  if not outer else
                  f"an angle about {letter}, not about the plane normal "
                  f"{LETTERS[normal]}"),
               key=f"C14.2:project:Plane.{member}:axes={axes!r}:"
                   f"angle_position={pos}",
               axes=axes, position=pos)
        # the rebuilt rotation replaces the rotation block of the same pose
        rot_sets = [e for e in res.of_kind("setitem")
                    if e.data["value"] is exps[0].data["result"]]
        ok = len(rot_sets) == 1 and rot_sets[0].data["index"] == T(
            "tuple", T("slice", tm.NONE, const(3), tm.NONE),
            T("slice", tm.NONE, const(3), tm.NONE))
        ctx.ob("C14.1", f, ok,
               f"Plane.{member}: the rebuilt rotation replaces the [:3,:3] "
               f"block" if ok else
               f"Plane.{member}: rebuilt rotation is not stored to [:3,:3]",
               key=f"C14.1:{member}:rot-block")

        # ----------------------------------------------------------- C14.3
        raises = [e for e in res.of_kind("raise")]
        # (modifications of the poses / views / timestamps; emptying a
        # private cache of derived quantities before the test is harmless)
        def _state_write(e):
            if e.kind == "setitem":
                return True
            if e.kind in ("setattr", "delattr"):
                n_ = e.data.get("name") or ""
                return n_ in ALLOWED_STATE or not n_.startswith("_") or \
                    n_.startswith("_projected")
            return False
        first_mut = min([e.idx for e in res.events
                         if _state_write(e) and e.idx >= 0] or [10 ** 9])
        # the state attribute: `_projected`, or whatever attribute of the
        # object the refusing raise tests and project itself sets (the nulled
        # axis, the plane ...); its value at the normal exit decides what a
        # second call sees
        FLAG = "_projected"
        if not any(x is tm.attr(selfp, FLAG) for e in raises
                   for x in e.live.walk()):
            cands = [x.args[1] for e in raises if e.idx < first_mut
                     for x in e.live.walk() if x.op == "attr" and
                     x.args[0] is selfp and (selfp, x.args[1]) in res.attrs
                     and tm.is_const(res.attrs[(selfp, x.args[1])])]
            if cands:
                FLAG = cands[0]
        flag_names.add(FLAG)
        final = res.attrs.get((selfp, FLAG))

        def after(a, v=final, flag=FLAG):
            return _flag_truth(a, selfp, flag, v)
        r0 = [e for e in raises if tm.fold(e.live, after) is True]
        guard_lives.extend(e.live for e in r0)
        ok = bool(r0) and r0[0].idx < first_mut and \
            "TrajectoryException" in (r0[0].data.get("exc_name") or "")
        ctx.ob("C14.3", f, ok,
               f"Plane.{member}: a second projection raises "
               f"TrajectoryException before anything is modified" if ok else
               f"Plane.{member}: `{FLAG}` is not tested (raising "
               f"TrajectoryException) before the first modification",
               key=f"C14.3:{member}:guard")
        # mutations are unreachable when already projected
        muts_live = [e for e in res.events if _state_write(e)]
        ok = all(tm.fold(e.live, after) is False for e in muts_live)
        ctx.ob("C14.3", f, ok,
               f"Plane.{member}: no modification is reachable once "
               f"projected", key=f"C14.3:{member}:no-mutation-after")
        ok = final is not None and tm.is_const(final) and bool(r0)
        ctx.ob("C14.3", f, ok,
               f"Plane.{member}: `{FLAG}` is set to {fmt(final)} on the "
               f"normal exit, for which the guard refuses" if ok else
               f"Plane.{member}: after projecting, `{FLAG}` is "
               f"{fmt(final)} — the guard of project does not "
               f"refuse a second projection",
               key=f"C14.3:{member}:set", value=fmt(final))

        # ----------------------------------------------------------- C14.4
        for st in CACHE_STATES:
            r2 = run_in_state(prog, f, st, cfg, prog.cls(PATH))
            ctx.analysed["configs"] += 1
            w = view_writes(r2, selfp)
            mat = materialised_at_exit(r2, selfp, st)
            for v in VIEWS:
                if not mat[v]:
                    continue
                ok = bool(w[v])
                ctx.ob("C14.4", f, ok,
                       f"project[{member}; cache={state_name(st)}]: view "
                       f"{v} refreshed or flushed" if ok else
                       f"project[{member}]: with cached views "
                       f"{state_name(st)} the view {v} is neither updated "
                       f"nor flushed (stale after projection)",
                       key=f"C14.4:project:{v}:stale")
        # count / order / timestamps
        ok = not w["timestamps"] and not [
            e for e in res.of_kind("call")
            if (e.data.get("name") or "").endswith("reduce_to_ids")]
        newM = res.attrs.get((selfp, M))
        base = newM
        for _ in range(8):
            if base is not None and base.op in ("loopout",):
                base = base.args[2]
            elif base is not None and base.op in ("upd",):
                base = base.args[0]
            else:
                break
        same_seq = base is not None and (
            (base.op == "comp" and not base.args[3] and
             len(base.args[2]) == 1) or base is tm.attr(selfp, M))
        ctx.ob("C14.4", f, bool(ok and same_seq),
               f"project[{member}]: count, order and timestamps are "
               f"untouched" if ok and same_seq else
               f"project[{member}]: pose sequence or timestamps are "
               f"re-selected: {fmt(newM)}", key=f"C14.4:{member}:count")

    init = prog.func(f"{PATH}.__init__")
    ri = Interp(prog).run(init)
    ctx.require(len(flag_names) == 1, f"project: the state attribute "
                f"differs between the planes: {sorted(flag_names)}")
    FLAG = flag_names.pop()
    v = ri.attrs.get((tm.param(init.params[0]), FLAG))
    # a fresh object must not be refused: the guard of project is false for
    # the initial value
    ok = v is not None and tm.is_const(v) and bool(guard_lives) and all(
        tm.fold(lv, lambda a: _flag_truth(a, selfp, FLAG, v)) is False
        for lv in guard_lives)
    if FLAG == "_projected":
        ok = v is not None and tm.is_const(v) and not bool(v.args[1])
    ctx.ob("C14.3", init, ok,
           f"__init__: `{FLAG}` starts as {fmt(v)}: a fresh path can be "
           f"projected" if ok else
           f"__init__: `{FLAG}` starts as {fmt(v)}",
           key="C14.3:init")
    # typestate ownership: nothing but __init__ (falsy) and project (truthy)
    # may write `_projected` — a reset elsewhere re-arms a second projection
    from ..lib import sweep
    writers = []
    for q, res in sorted(sweep(prog, "plain").items()):
        for e in res.of_kind("setattr", "delattr"):
            if e.data["name"] == FLAG and e.depth == 0:
                writers.append((q, e))
        for e in res.of_kind("call"):
            if (e.data.get("name") or "") in ("builtins.setattr",
                                              "builtins.delattr") and any(
                    tm.is_const(a, FLAG) for a in e.data["args"]):
                writers.append((q, e))
    foreign = [(q, e) for q, e in writers
               if q not in (f"{PATH}.__init__", f"{PATH}.project")]
    ctx.ob("C14.3", foreign[0][1] if foreign else init, not foreign,
           f"`{FLAG}` is written only by __init__ and project "
           f"({len(writers)} writes)" if not foreign else
           f"{foreign[0][0]} writes `{FLAG}`: the one-shot state of a "
           f"projected trajectory can be reset, so a second projection of "
           f"the same object is no longer refused",
           key="C14.3:writers")


VARIANTS = [
    dict(name="xy-zeroes-y", file="evo/core/trajectory.py",
         find="            null_dim = 2  # Z", replace="            null_dim = 1  # Z",
         expect="fire", rule="C14.1"),
    dict(name="projected-never-set", file="evo/core/trajectory.py",
         find="            del self._orientations_quat_wxyz\n        self._projected = True",
         replace="            del self._orientations_quat_wxyz",
         expect="fire", rule="C14.3"),
    dict(name="projected-stores-dim", file="evo/core/trajectory.py",
         find="            del self._orientations_quat_wxyz\n        self._projected = True",
         replace="            del self._orientations_quat_wxyz\n        self._projected = null_dim",
         expect="fire", rule="C14.3"),
    dict(name="guard-after-mutation", file="evo/core/trajectory.py",
         find="        if self._projected:\n            raise TrajectoryException(\"path was already projected once\")\n",
         replace="", expect="fire", rule="C14.3"),
    dict(name="keeps-position-cache", file="evo/core/trajectory.py",
         find="        if hasattr(self, \"_positions_xyz\"):\n            del self._positions_xyz\n"
              "        if hasattr(self, \"_orientations_quat_wxyz\"):\n            del self._orientations_quat_wxyz\n"
              "        self._projected = True",
         replace="        if hasattr(self, \"_orientations_quat_wxyz\"):\n            del self._orientations_quat_wxyz\n"
                 "        self._projected = True",
         expect="fire", rule="C14.4"),
    dict(name="xy-uses-middle-angle", file="evo/core/trajectory.py",
         find='                pose[:3, :3], "sxyz")[null_dim]',
         replace='                pose[:3, :3], "sxzy")[null_dim]',
         expect="fire", rule="C14.2"),
    dict(name="explicit-axes-kw", file="evo/core/trajectory.py",
         find='                pose[:3, :3], "sxyz")[null_dim]',
         replace='                pose[:3, :3], axes="sxyz")[null_dim]',
         expect="silent"),
]
