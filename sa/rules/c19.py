"""C19 — the settings file stays loadable across crashes and concurrent starts."""
from __future__ import annotations

import ast
from typing import Dict, List, Optional, Set, Tuple

from .. import terms as tm
from ..interp import Event, Interp, Result
from ..known_functions import KNOWN_FUNCTIONS
from ..lib import arg_of, fmt, is_call_to, sweep
from ..progdb import AnalysisError, Function
from ..terms import T, const
from .c17 import find_sinks

EXPLANATION = """
Crash points and interleavings are not enumerated; the rules establish the
write discipline that makes each of them harmless and flag every construct
that breaks it. C19.1: the set of path expressions that can denote
settings.json / assets_version is computed interprocedurally (module constants
of evo.tools.settings whose value ends in those file names, plus every
parameter they are bound to at any call site, to a fixpoint). For such a path,
any truncating/in-place write (open in w/a/x/+ mode, Path.write_*, truncate)
is forbidden outside a function recognised as the atomic-replace idiom:
temporary file in the target's directory with a per-call unique token, all
writes to the temp handle, handle closed before os.replace(temp, target), no
other effect on the target. C19.2: directory creation tolerates a concurrent
creator. C19.3: in the upgrade the settings write must precede the version
write; at import time initialise precedes upgrade precedes load. C19.4: every
artefact is (re)created by an existence test followed by an atomic create that
each process can do itself.
"""
UNDECIDED = [
    "durability against power loss (fsync) — outside the property (kill, not "
    "power cut)",
    "interleavings are covered by the sufficient discipline, not explored",
    "atomicity of os.replace on the target file system (trusted, POSIX)",
]
TRUSTED = ["os.replace is atomic", "uuid4 / mkstemp names are unique"]
ASSUMPTIONS = ["A3 os.replace atomicity", "the file names 'settings.json' and "
               "'assets_version' identify the protected artefacts"]
MANIFEST = dict(
    text="Decides that no code path truncates or rewrites settings.json / "
         "assets_version in place: every write to a path that can denote "
         "them (interprocedural binding fixpoint) goes through a function "
         "that matches the atomic-replace idiom (unique temp file in the "
         "same directory, closed before os.replace); that ~/.evo creation "
         "tolerates a concurrent creator; and that the upgrade and import "
         "sequences are ordered so that a kill between two steps is "
         "repaired by the next start. This discipline is sufficient for "
         "every crash point and interleaving, which no test can enumerate.",
    note="Crash points / schedules are not explored; os.replace atomicity "
         "and uniqueness of uuid4/mkstemp names are trusted. fsync / power "
         "loss is outside the property.",
    technique="interprocedural path-provenance fixpoint + effect inventory "
              "+ typestate/ordering check of the atomic-replace idiom on the "
              "event log of an AST abstract interpreter",
)
FLOORS = {"C19.1": 4, "C19.2": 1, "C19.3": 2, "C19.4": 2, "C19.6": 3}

PROTECTED_FILES = ("settings.json", "assets_version")
SETTINGS_MOD = "evo.tools.settings"
UNIQUE_SOURCES = ("uuid.uuid4", "uuid.uuid1", "tempfile.mkstemp",
                  "tempfile.NamedTemporaryFile", "tempfile.mktemp",
                  "secrets.token_hex", "os.urandom")


def protected_globals(prog) -> Dict[str, str]:
    """module constants of evo.tools.settings denoting a protected file"""
    m = prog.module(SETTINGS_MOD)
    it = Interp(prog)
    r = it.run_module(m)
    out = {}
    for name, val in r.env.items():
        fname = _path_leaf(val)
        if fname in PROTECTED_FILES:
            out[f"{SETTINGS_MOD}.{name}"] = fname
    return out


def _path_leaf(val: T) -> Optional[str]:
    """last component of a path expression  a / b / 'leaf'  or
    os.path.join(a, 'leaf') / Path(a, 'leaf')"""
    if val.op == "binop" and val.args[0] == "Div" and \
            tm.is_const(val.args[2]) and isinstance(val.args[2].args[1], str):
        return val.args[2].args[1]
    if val.op == "call" and tm.callee_name(val) in (
            "os.path.join", "pathlib.Path") and val.args[1] and \
            tm.is_const(val.args[1][-1]) and \
            isinstance(val.args[1][-1].args[1], str):
        return val.args[1][-1].args[1]
    return None


def assets_dir_globals(prog, prot: Dict[str, str]) -> Set[str]:
    m = prog.module(SETTINGS_MOD)
    r = Interp(prog).run_module(m)
    out = set()
    protvals = [r.env[q.rsplit(".", 1)[1]] for q in prot]
    for name, val in r.env.items():
        q = f"{SETTINGS_MOD}.{name}"
        if q in prot:
            continue
        if val.op in ("binop", "call") and any(
                pv is not val and pv.contains(val) for pv in protvals):
            out.add(q)
    return out


class Capability:
    def __init__(self, prog, results: Dict[str, Result], prot: Dict[str, str]):
        self.prog = prog
        self.results = results
        self.prot = prot
        self.params: Set[Tuple[str, str]] = set()
        self._fix()

    CONTENT = ("json.load", "json.loads", ".read", "json.dumps")

    def _path_walk(self, t: T):
        """subterms that can contribute to a *path* value: do not descend
        into values read from a file or into named module objects"""
        stack, seen = [t], set()
        while stack:
            x = stack.pop()
            if not isinstance(x, T):
                if isinstance(x, tuple):
                    stack.extend(x)
                continue
            if id(x) in seen:
                continue
            seen.add(id(x))
            if x.op == "named":
                continue
            if x.op == "call" and is_call_to(x, *self.CONTENT):
                continue
            yield x
            stack.extend(x.args)

    def term_capable(self, t: T, fq: str) -> bool:
        for x in self._path_walk(t):
            if x.op == "global" and x.args[0] in self.prot:
                return True
            if tm.is_const(x) and x.args[1] in PROTECTED_FILES:
                return True
            if x.op == "param" and (fq, x.args[0]) in self.params:
                return True
        return False

    def _fix(self):
        # defaults bound to protected globals
        for q, f in self.prog.functions.items():
            for p, d in f.defaults().items():
                try:
                    txt = ast.unparse(d)
                except Exception:
                    continue
                rq = self.prog.resolve_dotted(f.module, txt)
                if rq in self.prot:
                    self.params.add((q, p))
        changed = True
        while changed:
            changed = False
            for q, res in self.results.items():
                for e in res.of_kind("call"):
                    tgt: Optional[Function] = e.data.get("target")
                    b = e.data.get("bound")
                    if tgt is None or not b:
                        continue
                    for pname, val in b.items():
                        if pname in ("*", "**"):
                            continue
                        if (tgt.qualname, pname) in self.params:
                            continue
                        if self.term_capable(val, q):
                            self.params.add((tgt.qualname, pname))
                            changed = True


def writer_params(prog, results: Dict[str, Result]) -> Set[Tuple[str, str]]:
    """(function, parameter) pairs through which a path is *written*: the
    function has a file-creating call (or os.replace / rename target) whose
    path mentions the parameter, or hands the parameter to such a pair"""
    W: Set[Tuple[str, str]] = set()
    for q, res in results.items():
        f = res.func
        names = set(f.params + f.kwonly)
        sinks = [p for (_e, p, _k) in find_sinks(res)]
        for e in res.of_kind("call"):
            if (e.data.get("name") or "") in ("os.replace", "os.rename",
                                              "shutil.move") and \
                    len(e.data["args"]) > 1:
                sinks.append(e.data["args"][1])
            if (e.data.get("name") or "") in (".replace", ".rename") and \
                    e.data["args"]:
                sinks.append(e.data["args"][0])
        for p_ in sinks:
            for x in p_.walk():
                if x.op == "param" and x.args[0] in names:
                    W.add((q, x.args[0]))
    changed = True
    while changed:
        changed = False
        for q, res in results.items():
            f = res.func
            names = set(f.params + f.kwonly)
            for e in res.of_kind("call"):
                tgt = e.data.get("target")
                b = e.data.get("bound") or {}
                if tgt is None:
                    continue
                for pn, val in b.items():
                    if (tgt.qualname, pn) not in W:
                        continue
                    for x in val.walk():
                        if x.op == "param" and x.args[0] in names and \
                                (q, x.args[0]) not in W:
                            W.add((q, x.args[0]))
                            changed = True
    return W


def atomic_idiom(res: Result, target_param: str) -> Tuple[bool, str, dict]:
    """does function `res` implement write-temp-then-replace for
    target_param?"""
    tgt = tm.param(target_param)
    sinks = find_sinks(res)
    facts = {}

    def derived_from_target(t: T) -> bool:
        return t.contains(tgt)

    replaces = [e for e in res.of_kind("call")
                if e.data.get("name") in ("os.replace", "os.rename")
                or (e.data.get("name") in (".replace", ".rename") and
                    e.data.get("recv") is not None and
                    not tm.is_const(e.data["recv"]))]
    good_repl = []
    for e in replaces:
        a = e.data["args"]
        if e.data["name"].startswith("os."):
            if len(a) >= 2:
                good_repl.append((e, a[0], a[1]))
        else:
            if a:
                good_repl.append((e, e.data["recv"], a[0]))
    good_repl = [(e, s, d) for (e, s, d) in good_repl
                 if derived_from_target(d) and s is not d]
    if not good_repl:
        return False, "no os.replace/os.rename(temp, target)", facts
    e_rep, tmp, dst = good_repl[-1]
    facts["temp"] = fmt(tmp)
    facts["replace_at"] = e_rep.where
    # temp lives next to the target
    same_dir = any(
        (x.op == "call" and tm.callee_name(x) in (".with_name",
                                                  ".with_suffix")
         and tm.method_recv(x) is not None and
         derived_from_target(tm.method_recv(x)))
        or (x.op == "call" and tm.callee_name(x) in (
            "tempfile.mkstemp", "tempfile.NamedTemporaryFile") and
            any(k == "dir" and derived_from_target(v)
                for k, v in x.args[2]))
        for x in tmp.walk())
    if not same_dir:
        return False, "temporary file is not created in the target's " \
                      "directory (replace would not be atomic)", facts
    unique = any(is_call_to(x, *UNIQUE_SOURCES) for x in tmp.walk())
    if not unique:
        return False, "temporary file name has no per-call unique token " \
                      "(two processes share one temp file)", facts
    # all write sinks go to the temp, none to the target
    def is_temp(p: T) -> bool:
        # the temporary file (or a wrapper / part of its expression that
        # still carries the per-call unique token) — the target itself is a
        # sub-term of the temp expression, too, and is *not* the temp
        return p is tmp or p.contains(tmp) or (
            tmp.contains(p) and any(is_call_to(x, *UNIQUE_SOURCES)
                                    for x in p.walk()))
    for (e, p, kind) in sinks:
        if is_temp(p):
            continue
        if derived_from_target(p) and e is not e_rep:
            return False, f"{kind} writes the target itself at {e.where}", \
                facts
    opens = [e for (e, p, kind) in sinks
             if is_temp(p) and e is not e_rep and
             not kind.startswith("os.")]
    if not opens:
        # mkstemp + fdopen form
        opens = [e for e in res.of_kind("call")
                 if e.data.get("name") == "os.fdopen"]
    if not opens:
        # tempfile.NamedTemporaryFile(delete=False): the handle is the temp
        # file, its .name the path that is moved in place
        ntf = [e for e in res.of_kind("call")
               if e.data.get("name") == "tempfile.NamedTemporaryFile" and
               any(x is e.data["result"] for x in tmp.walk())]
        for e in ntf:
            kw = dict(e.data["kwargs"])
            if not tm.is_const(kw.get("delete", const(True)), False):
                return False, "NamedTemporaryFile without delete=False: the " \
                              "file vanishes on close, nothing to move in " \
                              "place", facts
            mode = kw.get("mode", e.data["args"][0] if e.data["args"]
                          else const("w+b"))
            if not (tm.is_const(mode) and any(
                    c in str(tm.const_val(mode)) for c in "wax+")):
                return False, "temporary file is not opened for writing", \
                    facts
        opens = ntf
    if not opens:
        return False, "no write to the temporary file found", facts
    # handle closed before the replace: with-exit or .close() precedes
    for o in opens:
        closed = [w for w in res.events
                  if (w.kind == "with_exit" and w.data["ctx"] is
                      o.data["result"]) or
                  (w.kind == "call" and w.data.get("name") == ".close" and
                   w.data.get("recv") is o.data["result"])]
        if not closed or min(c.idx for c in closed) > e_rep.idx:
            return False, f"temp handle opened at {o.where} is not closed " \
                          f"before the replace at {e_rep.where}", facts
    facts["writes_to_temp"] = [o.where for o in opens]
    return True, "write temp -> close -> os.replace(temp, target)", facts


def _contexts(prog, results, q, live: T, path: T, depth: int = 0):
    """[(function, condition, path)]: the condition under which the sink
    runs and the path it writes, expressed in the callers' terms — following
    the calls upwards while the condition depends on parameters; the
    function's own defaults are one context. None if too deep."""
    import ast as _ast
    f = results[q].func
    names = [x.args[0] for x in live.walk() if x.op == "param"]
    if not names:
        return [(q, live, path)]
    if depth > 3:
        return None
    out = []
    dflt = f.defaults()
    sub = {}
    for n in set(names):
        d = dflt.get(n)
        if isinstance(d, _ast.Constant):
            sub[tm.param(n)] = const(d.value)
    if len(sub) == len(set(names)):
        out.append((q + " (defaults)",
                    tm.deep_select(live.map(sub.get), lambda a: None),
                    path))
    callers = 0
    for cq, res in results.items():
        for e in res.of_kind("call"):
            tgt = e.data.get("target")
            if tgt is None or tgt.qualname != q or e.data.get("inlined"):
                continue
            callers += 1
            b = dict(e.data.get("bound") or {})
            m = {}
            for pn in f.params + f.kwonly:
                if pn in b:
                    m[tm.param(pn)] = b[pn]
                elif isinstance(dflt.get(pn), _ast.Constant):
                    m[tm.param(pn)] = const(dflt[pn].value)
            l2 = tm.mk_and(e.live, live.map(m.get))
            l2 = tm.deep_select(l2, lambda a: None)
            p2 = path.map(m.get)
            if tm.is_const(l2, False):
                continue
            up = _contexts(prog, results, cq, l2, p2, depth + 1)
            if up is None:
                return None
            out.extend(up)
    return out


def _settings_case(live: T, path: T, prot) -> Optional[bool]:
    """the condition for a path that denotes a protected file: a successful
    os.path.samefile(path, <protected constant>) holds (a comparison of the
    spellings would not: another spelling of the same file passes it)"""
    def assign(a: T):
        if a.op == "exc":
            return False
        if is_call_to(a, "os.path.samefile") and len(a.args[1]) == 2:
            x, y = a.args[1]
            if any(z.op == "global" and z.args[0] in prot
                   for z in (x, y)) and (x is path or y is path):
                return True
        return None
    return tm.fold(tm.deep_select(live, assign), assign)


def _inside_atomic(e, atomic_funcs) -> bool:
    """the event happened in the frame of a function that implements the
    atomic-replace idiom (or of a private helper of such a function's
    module that it calls), looked through from its caller"""
    fn = e.func
    if fn is None:
        return False
    if fn.qualname in atomic_funcs:
        return True
    return any(fn.module is not None and fn.name.startswith("_") and
               fn.module.name == q.rsplit(".", 1)[0] for q in atomic_funcs)


def _yields(fn) -> bool:
    import ast
    return any(isinstance(n, (ast.Yield, ast.YieldFrom))
               for n in ast.walk(fn.node))


def check(ctx):
    prog = ctx.prog
    results = sweep(prog, "plain")
    prot = protected_globals(prog)
    ctx.require(len(prot) >= 2, "protected path constants (settings.json / "
                "assets_version) not found in evo.tools.settings")
    cap = Capability(prog, results, prot)
    ctx.analysed["protected_globals"] = sorted(prot)
    ctx.analysed["capable_params"] = sorted(f"{f}:{p}" for f, p in cap.params)

    # ------------------------------------------------------------ C19.1
    atomic_funcs: Dict[str, str] = {}
    broken_idiom = 0
    for (fq, pname) in sorted(cap.params):
        res = results.get(fq)
        if res is None:
            continue
        ok, why, facts = atomic_idiom(res, pname)
        if ok:
            atomic_funcs[fq] = pname
            ctx.ob("C19.1", res.func, True,
                   f"{fq}({pname}) implements the atomic-replace idiom: "
                   f"{why}", key=f"C19.1:atomic:{fq}", **facts)
        elif not why.startswith("no os.replace"):
            # it moves a temporary file onto the target, but not safely
            broken_idiom += 1
            ctx.ob("C19.1", res.func, False,
                   f"{fq}({pname}) replaces the target by a temporary file, "
                   f"but {why}: a reader (or a crash) can meet an empty or "
                   f"partial file", key=f"C19.1:atomic:{fq}",
                   # a generator (context manager) hands the temporary path
                   # out: the write happens in its user's block
                   evidence=not _yields(res.func), **facts)
    nsinks = broken_idiom
    for q, res in sorted(results.items()):
        sinks = list(find_sinks(res))
        # .truncate() on a handle opened on a capable path
        for e in res.of_kind("call"):
            if e.data.get("name") == ".truncate" and e.data.get("recv") \
                    is not None:
                sinks.append((e, e.data["recv"], ".truncate"))
        for (e, p, kind) in sinks:
            if not cap.term_capable(p, q):
                continue
            if kind.startswith("os.re"):
                continue
            if q in atomic_funcs or _inside_atomic(e, atomic_funcs):
                continue      # the idiom's own temp-file write (also when
                #               the atomic function is looked through)
            nsinks += 1
            if any(x.op == "param" for x in e.live.walk()):
                # the write is behind a switch of its function: judged in
                # the contexts it is called in (and at the defaults)
                ctxs = _contexts(prog, results, q, e.live, p)
                hit = None if ctxs is None else [
                    c for c in ctxs if cap.term_capable(c[2], c[0]) and
                    _settings_case(c[1], c[2], prot) is not False]
                if hit is not None and not hit:
                    ctx.ob("C19.1", e, True,
                           f"{q}: the in-place {kind} is unreachable when "
                           f"the path denotes settings.json / "
                           f"assets_version ({len(ctxs)} calling contexts, "
                           f"defaults included)",
                           key=f"C19.1:inplace:{q}:{kind.split('(')[0]}")
                    continue
                if hit:
                    ctx.ob("C19.1", e, False,
                           f"{q}: {kind} rewrites in place a path that can "
                           f"denote settings.json/assets_version when "
                           f"called from {hit[0][0]} (condition "
                           f"{fmt(hit[0][1])[:100]})",
                           key=f"C19.1:inplace:{q}:{kind.split('(')[0]}",
                           path=fmt(p))
                    continue
            ctx.ob("C19.1", e, False,
                   f"{q}: {kind} rewrites a path that can denote "
                   f"settings.json/assets_version in place (a kill or a "
                   f"concurrent reader sees an empty/partial file)",
                   key=f"C19.1:inplace:{q}:{kind.split('(')[0]}",
                   path=fmt(p))
    # every writer of a capable path reaches the idiom
    for q, res in sorted(results.items()):
        for e in res.of_kind("call"):
            tgt = e.data.get("target")
            if tgt is not None and tgt.qualname in atomic_funcs:
                b = e.data["bound"] or {}
                v = b.get(atomic_funcs[tgt.qualname])
                if v is not None and cap.term_capable(v, q):
                    ctx.ob("C19.1", e, True,
                           f"{q} writes {fmt(v)[:60]} through "
                           f"{tgt.qualname}", key=f"C19.1:via:{q}",
                           path=fmt(v))
    ctx.require(bool(atomic_funcs) or nsinks > 0,
                "no writer of the settings file found at all")
    if not atomic_funcs:
        ctx.note("no function matches the atomic-replace idiom")
    # a unique-token regression inside a helper that is *called* for capable
    # paths shows up as: helper not recognised -> its open() is an in-place /
    # shared-temp write of a capable-derived path (reported above).

    # ------------------------------------------------------------ C19.2
    dirs = assets_dir_globals(prog, prot)
    ctx.analysed["assets_dir_globals"] = sorted(dirs)
    for q, res in sorted(results.items()):
        for e in res.of_kind("call"):
            n = e.data.get("name") or ""
            if n in (".mkdir", "os.mkdir", "os.makedirs"):
                subj = e.data.get("recv") if n == ".mkdir" else (
                    e.data["args"][0] if e.data["args"] else None)
                if subj is None or not any(
                        x.op == "global" and (x.args[0] in dirs or
                                              x.args[0] in prot)
                        for x in subj.walk()):
                    continue
                kw = dict(e.data["kwargs"])
                ok = tm.is_const(kw.get("exist_ok", tm.const(False)), True)
                if not ok:
                    ok = any(any(h in ("FileExistsError", "OSError",
                                       "Exception", "BaseException")
                                 for h in hs) for _, hs in e.tries)
                if not ok and n == "os.mkdir":
                    ok = False
                ctx.ob("C19.2", e, ok,
                       f"{q}: creation of {fmt(subj)} tolerates a concurrent "
                       f"creator (exist_ok=True / FileExistsError handled)"
                       if ok else
                       f"{q}: {n} on {fmt(subj)} fails with FileExistsError "
                       f"when another starting process created it first "
                       f"(exists()/mkdir() race)",
                       key=f"C19.2:mkdir-race:{q}", live=fmt(e.live))

    # ------------------------------------------------------------ C19.5
    # nobody deletes inside the assets directory: a removed file is either a
    # protected file itself (absent is fine only before the first write) or
    # another process's in-flight temp file, whose os.replace then fails
    ndel = 0
    for q, res in sorted(results.items()):
        for e in res.of_kind("call"):
            n = e.data.get("name") or ""
            if n in (".unlink", ".rmdir"):
                subj = e.data.get("recv")
            elif n in ("os.remove", "os.unlink", "os.rmdir", "shutil.rmtree",
                       "os.removedirs"):
                subj = e.data["args"][0] if e.data["args"] else None
            else:
                continue
            if subj is None or not any(
                    x.op == "global" and (x.args[0] in dirs or
                                          x.args[0] in prot)
                    for x in subj.walk()):
                continue
            ndel += 1
            own_tmp = (q in atomic_funcs or
                       _inside_atomic(e, atomic_funcs)) and not any(
                is_call_to(x, ".glob", ".iterdir", "os.listdir", "glob.glob",
                           ".rglob", "os.scandir") for x in subj.walk())
            ctx.ob("C19.5", e, own_tmp,
                   f"{q}: removes only its own temporary file" if own_tmp
                   else
                   f"{q}: {n} on {fmt(subj)[:80]} deletes files inside the "
                   f"settings directory: this can be the temp file another "
                   f"starting process is about to os.replace() (that process "
                   f"then fails with FileNotFoundError) or a protected file",
                   key=f"C19.5:delete:{q}")
    ctx.ob("C19.5", prog.func(f"{SETTINGS_MOD}.initialize_if_needed"),
           True, f"deletions inside the settings directory: {ndel}",
           key="C19.5:inventory", nontrivial=False)

    # ------------------------------------------------------------ C19.3
    upd = prog.func(f"{SETTINGS_MOD}.update_if_outdated")
    ctx.analysed_fn(upd.qualname)
    r = results[upd.qualname]

    # "sees every default key": the upgrade is skipped only when the stored
    # version *is* the running one. An ordering of versions (string parts
    # compare lexicographically: "1.10" < "1.9") or any other relation skips
    # upgrades that are due
    merges = [e for e in r.of_kind("call") if (e.data.get("name") or "")
              .endswith("merge_dicts")]
    early = [e for e in r.of_kind("return")
             if merges and e.idx < merges[0].idx]
    for e in early:
        ats = [a for a in tm.atoms(e.live) if a.op == "cmp"]
        import re as _re
        vers = [a for a in ats if any(
            (x.op == "global" and x.args[0].endswith("__version__")) or
            (tm.is_const(x) and isinstance(x.args[1], str) and
             _re.fullmatch(r"v?\d+\.\d+(\.\w+)*", x.args[1])) or
            (is_call_to(x, ".read", ".read_text") and any(
                y.op == "global" and "VERSION" in y.args[0]
                for y in x.walk()))
            for x in a.walk())]
        same = [a for a in vers if a.args[0] in ("Eq", "NotEq") and
                any(is_call_to(x, ".read", ".read_text")
                    for x in a.walk()) and not any(
                    x.op == "call" and (tm.callee_name(x) or "").startswith(
                        "evo.") for x in a.walk())]
        other = [a for a in vers if a not in same]
        if other:
            ctx.ob("C19.3", e, False,
                   f"update_if_outdated skips the upgrade when "
                   f"{fmt(other[0])[:100]} — not only when the stored "
                   f"version equals the running one: an upgrade that is due "
                   f"is skipped and the loaded settings lack the newer "
                   f"default keys", key="C19.3:skip-only-when-same")
        elif same:
            ctx.ob("C19.3", e, True,
                   "update_if_outdated returns early only when the stored "
                   "version equals the running one",
                   key="C19.3:skip-only-when-same")
        else:
            ctx.undecidable("C19.3", e, f"update_if_outdated: early return "
                            f"under {fmt(e.live)[:100]} (unknown idiom)")

    WP = writer_params(prog, results)

    def writes_of(res: Result, fname: str) -> List[Event]:
        out = []
        for e in res.of_kind("call"):
            tgt = e.data.get("target")
            b = e.data.get("bound") or {}
            vals = list(b.values()) if tgt is not None else \
                list(e.data["args"])
            is_writer = (tgt is not None and any(
                (tgt.qualname, pn) in WP and any(
                    x.op == "global" and prot.get(x.args[0]) == fname
                    for x in b[pn].walk()) for pn in b)) or \
                any(e is s[0] for s in find_sinks(res))
            if not is_writer:
                continue
            if e.data.get("inlined") and tgt is not None and \
                    tgt.qualname not in KNOWN_FUNCTIONS:
                # a function added later that was looked through: its own
                # writes are in this run, each with the path it really gets
                continue
            for v in vals:
                if any(x.op == "global" and prot.get(x.args[0]) == fname
                       for x in v.walk()):
                    out.append(e)
                    break
        return out
    # the whole start-up sequence of the module (initialise, upgrade) as one
    # event order, specialised to the upgrade situation: both files exist and
    # the recorded version is not the current one
    ms = prog.module(SETTINGS_MOD)
    rs_ = Interp(prog, inline=lambda fn: fn.module.name == SETTINGS_MOD and
                 fn.name in ("initialize_if_needed", "update_if_outdated")
                 ).run_module(ms)

    def upgrading(a: T):
        if a.op == "call" and tm.callee_name(a) in (
                ".exists", ".is_file", "os.path.exists", "os.path.isfile",
                "pathlib.Path.exists", "pathlib.Path.is_file"):
            return True
        if a.op == "cmp" and a.args[0] in ("In", "NotIn") and \
                a.args[1].op == "attr" and a.args[1].args[1] == "name" and \
                any(is_call_to(z, "os.scandir", "os.listdir", ".iterdir")
                    for z in a.args[2].walk()):
            return a.args[0] == "In"      # found in the directory listing
        if a.op == "cmp" and any(
                x.op in ("global", "named") and
                str(x.args[0]).endswith("__version__") for x in a.walk()):
            if a.args[0] in ("Eq", "Is"):
                return False
            if a.args[0] in ("NotEq", "IsNot"):
                return True
        if a.op == "cmp" and a.args[0] in ("Is", "IsNot") and any(
                tm.is_const(z, None) for z in (a.args[1], a.args[2])):
            return a.args[0] == "IsNot"
        return None
    sw = [e for e in writes_of(rs_, "settings.json")
          if tm.fold(e.live, upgrading) is not False]
    vw = [e for e in writes_of(rs_, "assets_version")
          if tm.fold(e.live, upgrading) is not False]
    if not sw or not vw:
        sw = writes_of(r, "settings.json")
        vw = writes_of(r, "assets_version")
    ctx.require(bool(sw) and bool(vw), "upgrade: settings or version write "
                "not found in the start-up sequence")
    ok = max(e.idx for e in sw) < min(e.idx for e in vw) and \
        not any(e.loops for e in sw + vw)
    ctx.ob("C19.3", vw[0], ok,
           "upgrade writes the merged settings before it records the new "
           "version" if ok else
           "upgrade records the new version before the merged settings are "
           "on disk: a kill in between loses the upgrade for good "
           "(next start sees a current version and skips the merge)",
           key="C19.3:version-before-settings",
           settings_write=[e.where for e in sw],
           version_write=[e.where for e in vw])
    # the version write must not be reachable when the settings write was
    # skipped
    vlive_ok = all(tm.fold(v.live, lambda a: None) is not False for v in vw)
    # import-time order
    m = prog.module(SETTINGS_MOD)
    rm = Interp(prog).run_module(m)
    order = []
    inside = None        # depth of the init / update call being looked through
    for e in rm.of_kind("call"):
        n = e.data.get("name") or ""
        if inside is not None and e.depth > inside:
            continue     # what the two steps do themselves: C19.4 / upgrade
        inside = None
        if n.endswith(".initialize_if_needed"):
            order.append(("init", e))
            inside = e.depth
        elif n.endswith(".update_if_outdated"):
            order.append(("update", e))
            inside = e.depth
        elif e.data.get("how") == "ctor" and e.data.get("target") is None \
                and n not in KNOWN_FUNCTIONS and not e.data.get("inlined"):
            continue     # a record of the paths (no constructor code)
        elif any(x.op == "global" and prot.get(x.args[0]) == "settings.json"
                 or (tm.is_const(x) and x.args[1] == "settings.json")
                 for a in e.data["args"] for x in a.walk()):
            order.append(("load", e))
    seq = [k for k, _ in order]
    ok = seq[:3] == ["init", "update", "load"] and \
        all(tm.is_const(e.live, True) for _, e in order[:3])
    ctx.ob("C19.3", order[0][1] if order else m.relpath, ok,
           "import of evo.tools.settings: initialise, then upgrade, then "
           "load — unconditionally and in this order" if ok else
           f"import-time sequence is {seq}, expected init, update, load",
           key="C19.3:import-order", sequence=seq)

    # ------------------------------------------------------------ C19.4
    init = prog.func(f"{SETTINGS_MOD}.initialize_if_needed")
    ri = results[init.qualname]
    ctx.analysed_fn(init.qualname)
    for fname in PROTECTED_FILES:
        ws = writes_of(ri, fname)
        if fname == "settings.json" and not ws:
            # through reset(destination=DEFAULT_PATH)
            ws = [e for e in ri.of_kind("call")
                  if (e.data.get("name") or "").endswith(".reset")]
        ctx.require(bool(ws), f"initialize_if_needed: creation of {fname} "
                    "not found")
        for w in ws:
            # guarded by `not <path>.exists()` of the same artefact
            def listed(a: T) -> bool:
                # `<path>.name in <names of a directory listing>`
                return a.op == "cmp" and a.args[0] == "In" and \
                    a.args[1].op == "attr" and a.args[1].args[1] == "name" \
                    and any(is_call_to(z, "os.scandir", "os.listdir",
                                       ".iterdir") for z in a.args[2].walk())
            guards = [a for a in tm.atoms(w.live)
                      if (a.op == "call" and tm.callee_name(a) in (
                          ".exists", "os.path.exists", ".is_file",
                          "os.path.isfile", "pathlib.Path.exists",
                          "pathlib.Path.is_file")) or listed(a)]
            mine = [g for g in guards if any(
                x.op == "global" and prot.get(x.args[0]) == fname
                for x in g.walk())]
            ok = bool(mine) and tm.fold(
                w.live, lambda a: True if a in mine else None) is False
            ctx.ob("C19.4", w, ok,
                   f"{fname} is created only when absent, by an atomic write "
                   f"any process can perform itself" if ok else
                   f"creation of {fname} is not guarded by its own "
                   f"existence test", key=f"C19.4:create:{fname}",
                   live=fmt(w.live))
    # reads of version/settings only after own initialisation: C19.3 order.
    rd = [e for e in r.of_kind("call")
          if e.data.get("name") in ("builtins.open", ".open", ".read_text",
                                    ".read_bytes", "json.load") and
          not any(e is s[0] for s in find_sinks(r))]
    ctx.ob("C19.4", upd, len(rd) >= 1,
           "update_if_outdated reads version/settings (after the caller's "
           "own initialize_if_needed, see C19.3)", key="C19.4:reads",
           nontrivial=False)
    # "... loads its settings successfully and sees every default key": after
    # an upgrade the file holds the user's settings completed with every
    # default key that was missing (instances of C18.4, the upgrade merge)
    from ..core import import_rules
    n = import_rules(ctx, "c18", ("C18.4",), "C19.6")
    ctx.require(n >= 3, "C19.6: upgrade-merge instances not found")


VARIANTS = [
    dict(name="inplace-write-restored", file="evo/tools/settings.py",
         find="    write_atomic(json_path, json.dumps(dictionary, indent=4, sort_keys=True))",
         replace="    with open(json_path, 'w') as json_file:\n"
                 "        json_file.write(json.dumps(dictionary, indent=4, sort_keys=True))",
         expect="fire", rule="C19.1"),
    dict(name="version-inplace", file="evo/tools/settings.py",
         find="    if not USER_ASSETS_VERSION_PATH.exists():\n"
              "        write_atomic(USER_ASSETS_VERSION_PATH, __version__)",
         replace="    if not USER_ASSETS_VERSION_PATH.exists():\n"
                 "        open(USER_ASSETS_VERSION_PATH, 'w').write(__version__)",
         expect="fire", rule="C19.1"),
    dict(name="replace-before-close", file="evo/tools/settings.py",
         find="        with open(tmp_path, 'w') as tmp_file:\n"
              "            tmp_file.write(text)\n"
              "        os.replace(tmp_path, path)",
         replace="        with open(tmp_path, 'w') as tmp_file:\n"
                 "            tmp_file.write(text)\n"
                 "            os.replace(tmp_path, path)",
         expect="fire", rule="C19.1"),
    dict(name="shared-temp-name", file="evo/tools/settings.py",
         find='    tmp_path = path.with_name("{}.{}.tmp".format(path.name, uuid.uuid4().hex))',
         replace='    tmp_path = path.with_name("{}.tmp".format(path.name))',
         expect="fire", rule="C19.1"),
    dict(name="mkdir-race", file="evo/tools/settings.py",
         find="    USER_ASSETS_PATH.mkdir(exist_ok=True)",
         replace="    if not USER_ASSETS_PATH.exists():\n"
                 "        USER_ASSETS_PATH.mkdir()",
         expect="fire", rule="C19.2"),
    dict(name="version-before-settings", file="evo/tools/settings.py",
         find="    write_to_json_file(DEFAULT_PATH, updated_settings)\n"
              "    write_atomic(USER_ASSETS_VERSION_PATH, __version__)",
         replace="    write_atomic(USER_ASSETS_VERSION_PATH, __version__)\n"
                 "    write_to_json_file(DEFAULT_PATH, updated_settings)",
         expect="fire", rule="C19.3"),
    dict(name="set-config-inplace", file="evo/main_config.py",
         find="    settings.write_atomic(config_path,\n"
              "                          json.dumps(config, indent=4, sort_keys=True))",
         replace="    with open(config_path, 'w') as config_file:\n"
                 "        config_file.write(json.dumps(config, indent=4, sort_keys=True))",
         expect="fire", rule="C19.1"),
    dict(name="mkstemp-spelling", file="evo/tools/settings.py",
         find='    tmp_path = path.with_name("{}.{}.tmp".format(path.name, uuid.uuid4().hex))',
         replace='    import tempfile\n'
                 '    tmp_path = path.with_name(path.name + "." + uuid.uuid4().hex)',
         expect="silent"),
    dict(name="load-before-init", file="evo/tools/settings.py",
         find="initialize_if_needed()\nupdate_if_outdated()\n",
         replace="update_if_outdated()\ninitialize_if_needed()\n",
         expect="fire", rule="C19.3"),
]
