"""C09 — Lie-group helpers (partial: index tables, operand roles, test
structure)."""
from __future__ import annotations

import ast

from typing import Dict, List, Optional, Tuple

from .. import terms as tm
from ..interp import Interp
from ..lib import fmt, is_call_to
from ..terms import T, const
from .c08 import _dot_operands

EXPLANATION = """
The group laws over all of SO(3)/SE(3)/Sim(3) with the stated numerical ranges
are statements about scipy/numpy arithmetic and are not decided. Decided:
C09.1 hat/vee are mutually inverse — decided completely, both are signed index
shuffles: the two literal tables are composed (vee(hat(v))[k] = +v[k]) and hat
is skew-symmetric with zero diagonal. C09.2 operand roles: relative_so3(r1,r2)
= r1^T . r2, relative_se3(p1,p2) = inverse(p1) . p2, se3_inverse builds
se3(R^T, -R^T t) from the blocks of its argument, sim3_inverse uses the
reciprocal scale for rotation block, translation and the returned scale,
se3()/sim3() put rotation in [:3,:3] and translation in [:3,3]. C09.3
membership tests are conjunctions of all necessary parts: is_so3 needs a
determinant test against +1 *and* an orthogonality test; is_se3/is_sim3 need
the rotation test *and* an exact comparison of row 3 with (0,0,0,1); is_sim3
must not let a negative block determinant through (scale from a real cube
root without positivity guard would); so3_log rejects non-members before
converting. C09.4 the rotation angle is the norm of the rotation vector of
so3_log (or Rotation.magnitude) — the trace/arccos formula is ill-conditioned
at 0 and pi and is reported — converted to degrees iff `degrees`.
"""
UNDECIDED = [
    "exp(log(R)) = R near angles 0 and pi; metric axioms of the angle",
    "scale recovery to rounding; acceptance of every genuine group element "
    "(adequacy of the 1e-6 tolerances)",
    "P . P^-1 = I numerically across magnitudes",
]
TRUSTED = ["scipy.spatial.transform.Rotation", "numpy.linalg.det / allclose"]
ASSUMPTIONS = []
MANIFEST = dict(
    text="Partial claim. Decides hat/vee inversion completely (finite index "
         "tables), the operand roles and block placement of the "
         "inverse / relative-pose / constructor helpers, that each "
         "membership test is the conjunction of all necessary conditions "
         "(so reflections, scaled/sheared blocks and wrong bottom rows each "
         "hit a dedicated conjunct), and that the rotation angle is taken "
         "from the rotation vector's norm. The group laws over the stated "
         "numerical ranges are NOT decided by static analysis.",
    note="Undecided: all numerical clauses (exp/log inversion near 0 and "
         "pi, metric axioms, tolerance adequacy). scipy Rotation trusted.",
    technique="symbolic composition of literal index tables + provenance "
              "term matching + known-ill-conditioned-idiom detection",
)
FLOORS = {"C09.1": 4, "C09.2": 7, "C09.3": 7, "C09.4": 2}
L = "evo.core.lie_algebra."
R33 = T("tuple", T("slice", tm.NONE, const(3), tm.NONE),
        T("slice", tm.NONE, const(3), tm.NONE))
T3 = T("tuple", T("slice", tm.NONE, const(3), tm.NONE), const(3))


def _signed(t: T, base: T):
    """(sign, index) for +-base[index] ; (0, None) for literal zero"""
    if tm.is_const(t) and t.args[1] == 0:
        return 0, None
    s = 1
    if t.op == "unop" and t.args[0] == "USub":
        s, t = -1, t.args[1]
    if t.op == "sub" and t.args[0] is base:
        idx = t.args[1]
        if tm.is_const(idx):
            return s, idx.args[1]
        if idx.op == "tuple" and all(tm.is_const(x) for x in idx.args):
            return s, tuple(x.args[1] for x in idx.args)
    return None


def _transpose_of(t: T) -> Optional[T]:
    if t.op == "attr" and t.args[1] == "T":
        return t.args[0]
    if is_call_to(t, ".transpose") and not t.args[1]:
        return tm.method_recv(t)
    if is_call_to(t, "numpy.transpose") and len(t.args[1]) == 1:
        return t.args[1][0]
    if is_call_to(t, "numpy.swapaxes") and len(t.args[1]) == 3 and \
            {tm.const_val(z) if tm.is_const(z) else None
             for z in t.args[1][1:]} in ({-1, -2}, {0, 1}):
        return t.args[1][0]       # the transpose of a (stack of) matrices
    return None


def _single(a: T):
    """the helpers are analysed for one group element (the documented call
    form): dimension tests that only tell a single matrix / vector from a
    stack are decided for the single one"""
    from ..lib import strip_asarray
    if a.op != "cmp":
        return None
    op, l, r = a.args
    l = strip_asarray(l)
    if l.op == "attr" and l.args[1] == "ndim" and tm.is_const(r) and \
            op in ("Eq", "NotEq"):
        inner = l.args[0]
        # scalar results (norm / rad2deg of a norm) and rotation vectors
        scalar = any(is_call_to(z, "numpy.linalg.norm") for z in
                     inner.walk())
        k = tm.const_val(r)
        if scalar and k == 0:
            return op == "Eq"
        if not scalar and k in (1, 2, 3):
            vec = any(is_call_to(z, ".as_rotvec") for z in inner.walk())
            want = 1 if vec else 2
            # r[np.newaxis]: a batch of one
            cur = strip_asarray(inner)
            while cur.op == "sub":
                ix = cur.args[1]
                want += sum(1 for z in (ix.args if ix.op == "tuple" else
                                        (ix,))
                            if z is tm.NONE or (z.op == "global" and
                                                z.args[0] == "numpy.newaxis"))
                cur = strip_asarray(cur.args[0])
            return (k == want) == (op == "Eq")
    if l.op == "sub" and l.args[0].op == "attr" and \
            l.args[0].args[1] == "shape" and r.op == "tuple" and \
            op in ("Eq", "NotEq") and l.args[0].args[0].op == "param":
        n = len(r.args)
        dims = [tm.const_val(z) if tm.is_const(z) else None for z in r.args]
        if dims in ([3, 3], [4, 4]):
            return op == "Eq"     # the argument is a matrix of that group
    return None


def _conjuncts(ret: T):
    """the top-level conjuncts of a membership test; a disjunction is not a
    conjunct (either side alone would let an element pass)"""
    while ret.op == "named" or is_call_to(ret, "builtins.bool"):
        ret = ret.args[1] if ret.op == "named" else ret.args[1][0]
    if ret.op == "boolop" and ret.args[0] == "And":
        out = []
        for c in ret.args[1]:
            out.extend(_conjuncts(c))
        return tuple(out)
    if ret.op == "boolop" and ret.args[0] == "Or":
        return ()
    if ret.op == "and":
        out = []
        for c in ret.args:
            out.extend(_conjuncts(c))
        return tuple(out)
    if ret.op == "or":
        return ()
    return (ret,)


def check(ctx):
    prog = ctx.prog
    from ..lib import strip_asarray

    class _R:          # result view with array conversions looked through
        def __init__(self, r):
            self._r = r
            self.ret = strip_asarray(r.ret)

        def __getattr__(self, k):
            return getattr(self._r, k)
    run = lambda n, **kw: _R(Interp(prog, assume=_single).run(
        prog.func(L + n), kw))
    ctx.analysed_fn(*(L + n for n in (
        "hat", "vee", "so3_log", "so3_log_angle", "se3", "sim3",
        "se3_inverse", "sim3_scale", "sim3_inverse", "is_so3", "is_se3",
        "is_sim3", "relative_so3", "relative_se3")))
    # --------------------------------------------------------------- C09.1
    v, m = tm.param("v"), tm.param("m")
    h = run("hat").ret
    ve = run("vee").ret
    H = None
    if is_call_to(h, "numpy.array") and h.args[1] and \
            h.args[1][0].op == "list" and len(h.args[1][0].args) == 3:
        rows = h.args[1][0].args
        H = [[_signed(x, v) for x in r_.args] if r_.op == "list" and
             len(r_.args) == 3 else None for r_ in rows]
    V = None
    if is_call_to(ve, "numpy.array") and ve.args[1] and \
            ve.args[1][0].op == "list" and len(ve.args[1][0].args) == 3:
        V = [_signed(x, m) for x in ve.args[1][0].args]
    if H is None or any(r_ is None or any(x is None for x in r_)
                        for r_ in H) or V is None or any(x is None
                                                         for x in V):
        ctx.undecidable("C09.1", prog.func(L + "hat"), f"hat/vee are not "
                        f"literal signed index tables: {fmt(h)} / {fmt(ve)}")
    else:
        skew = all(H[i][i] == (0, None) for i in range(3)) and all(
            H[i][j][1] == H[j][i][1] and H[i][j][0] == -H[j][i][0]
            for i in range(3) for j in range(3) if i != j)
        ctx.ob("C09.1", prog.func(L + "hat"), skew,
               "hat(v) is skew-symmetric with zero diagonal" if skew else
               f"hat(v) is not skew-symmetric: {H}", key="C09.1:hat-skew")
        std = H[2][1] == (1, 0) and H[0][2] == (1, 1) and H[1][0] == (1, 2)
        ctx.ob("C09.1", prog.func(L + "hat"), std,
               "hat(v) has +v0, +v1, +v2 at (2,1), (0,2), (1,0)" if std else
               f"hat(v) entries: {H}", key="C09.1:hat-table")
        comp = []
        for k in range(3):
            s, (i, j) = V[k]
            hs, hi = H[i][j]
            comp.append((s * hs, hi))
        ok = comp == [(1, 0), (1, 1), (1, 2)]
        ctx.ob("C09.1", prog.func(L + "vee"), ok,
               "vee(hat(v)) = v (composition of the two index tables)" if ok
               else f"vee(hat(v)) = {comp} — expected (+v0, +v1, +v2)",
               key="C09.1:vee-hat")
        # hat(vee(M)) = M for skew M: entry (i,j) of hat picks +-v[k] with
        # v[k] = vee's signed entry
        ok2 = True
        for i in range(3):
            for j in range(3):
                hs, hi = H[i][j]
                if hs == 0:
                    continue
                s, (a, b) = V[hi]
                # value = hs * s * M[a,b]; for skew M equals M[i,j] iff
                # (a,b)==(i,j) and sign +, or (a,b)==(j,i) and sign -
                good = ((a, b) == (i, j) and hs * s == 1) or \
                    ((a, b) == (j, i) and hs * s == -1)
                ok2 = ok2 and good
        ctx.ob("C09.1", prog.func(L + "vee"), ok2,
               "hat(vee(M)) = M for skew-symmetric M" if ok2 else
               "hat(vee(M)) != M for skew-symmetric M",
               key="C09.1:hat-vee")
    # --------------------------------------------------------------- C09.2
    # decided by entry evaluation (sa/affine.py): every entry of the matrix a
    # group operation returns, as a polynomial in the entries of its
    # arguments, must be the polynomial of the definition — however the
    # blocks are sliced, transposed, multiplied or assembled
    ctx.section(_group_ops, ctx, prog)
    # --------------------------------------------------------------- C09.3
    r = tm.param("r")
    ret = run("is_so3").ret
    conj = _conjuncts(ret)
    det_c = [c for c in conj if any(is_call_to(x, "numpy.linalg.det") and
                                    x.args[1][0] is r for x in c.walk())]
    orth_c = [c for c in conj if any(
        (_dot_operands(x) is not None and
         _transpose_of(_dot_operands(x)[0]) is r and
         _dot_operands(x)[1] is r) or
        (_dot_operands(x) is not None and _dot_operands(x)[0] is r and
         _transpose_of(_dot_operands(x)[1]) is r)
        for x in c.walk()) and any(is_call_to(x, "numpy.eye")
                                   for x in c.walk())]
    one = any(tm.is_const(x) and x.args[1] == 1.0 for c in det_c
              for x in c.walk())

    def _is_det(x):
        return is_call_to(x, "numpy.linalg.det") and x.args[1][0] is r
    # the sign of the determinant must reach the comparison with +1:
    # |det| or det**2 close to 1 also holds for reflections
    unsigned = [x for c in det_c for x in c.walk() if (
        (is_call_to(x, "numpy.abs", "numpy.absolute", "numpy.fabs",
                    "builtins.abs", "numpy.square") and x.args[1] and
         any(_is_det(y) for y in x.args[1][0].walk()) and not any(
             tm.is_const(y) and y.args[1] == 1.0
             for y in x.args[1][0].walk())) or
        (x.op == "binop" and x.args[0] == "Pow" and _is_det(x.args[1])) or
        (x.op == "binop" and x.args[0] == "Mult" and _is_det(x.args[1])
         and _is_det(x.args[2])))]
    if det_c and one and unsigned and orth_c:
        ctx.ob("C09.3", prog.func(L + "is_so3"), False,
               f"is_so3 compares {fmt(unsigned[0])[:60]} with 1: the sign of "
               f"the determinant is lost, reflections (det = -1) pass as "
               f"rotations", key="C09.3:is_so3")
        det_c = []
    ok = bool(det_c) and bool(orth_c) and one
    if not unsigned:
        ctx.ob("C09.3", prog.func(L + "is_so3"), ok,
               "is_so3 = (det(r) close to +1) AND (r^T r close to I): "
               "reflections and scaled/sheared blocks each fail a dedicated "
               "conjunct" if ok else
               f"is_so3 lacks the "
               f"{'determinant' if not det_c or not one else 'orthogonality'}"
               f" conjunct: {fmt(ret)}", key="C09.3:is_so3")
    tolv = [(k, _default_of(prog.func(L + "is_so3"), v_, prog))
            for c in conj for x in c.walk() if x.op == "call"
            for k, v_ in x.args[2] if k in ("atol", "rtol")]
    # the membership tests must not widen a parametrised tolerance
    for name in ("is_se3", "is_sim3"):
        fn = prog.func(L + name)
        for e in Interp(prog).run(fn).calls(L + "is_so3"):
            extra = list(e.data["args"][1:]) + \
                [v_ for _, v_ in e.data["kwargs"]]
            tolv += [(f"{name}->is_so3", _default_of(fn, v_, prog))
                     for v_ in extra]
    big = [(k, v_) for k, v_ in tolv if not (
        tm.is_const(v_) and isinstance(v_.args[1], (int, float)) and
        0 <= v_.args[1] <= 1e-3)]
    ctx.ob("C09.3", prog.func(L + "is_so3"), not big,
           f"is_so3 tolerances are small "
           f"({[(k, fmt(v_)) for k, v_ in tolv]}): a block scaled or sheared "
           f"by more than a rounding-level amount fails" if not big else
           f"is_so3 tolerance {big[0][0]}={fmt(big[0][1])} is not a "
           f"rounding-level bound (> 1e-3): scaled / sheared blocks and "
           f"near-reflections are accepted as rotations",
           key="C09.3:is_so3:tolerance")
    bottom = T("list", const(0.0), const(0.0), const(0.0), const(1.0))
    for name, arg in (("is_se3", "p"), ("is_sim3", "p")):
        # the block accessor is looked through: so3_from_se3(p) is p[:3, :3]
        # (C09.1 decides that)
        it = Interp(prog, inline=lambda fn: fn.qualname ==
                    L + "so3_from_se3")
        res = it.run(prog.func(L + name))
        ret = res.ret
        pa = tm.param(arg)
        conj = _conjuncts(ret)
        rot_c = [c for c in conj if any(is_call_to(x, L + "is_so3")
                                        for x in c.walk())]
        row_c = [c for c in conj if any(
            x is tm.sub(pa, T("tuple", const(3), T("slice", tm.NONE,
                                                   tm.NONE, tm.NONE)))
            for x in c.walk()) and any(
            (x.op in ("list", "tuple") and
             [y.args[1] if tm.is_const(y) else None
              for y in x.args] == [0.0, 0.0, 0.0, 1.0])
            for x in c.walk())]
        exact = any(is_call_to(x, "numpy.equal", "numpy.array_equal")
                    or (x.op == "cmp" and x.args[0] == "Eq")
                    for c in row_c for x in c.walk())
        ok = bool(rot_c) and bool(row_c) and exact
        if not rot_c and any(x is tm.sub(pa, R33) for x in ret.walk()):
            # the rotation test is re-implemented on the block (Gram matrix
            # ...) instead of calling is_so3. An orthogonality test alone
            # holds for a reflection -R as well: without a determinant (or a
            # handedness test by a cross product) nothing can tell them apart
            handed = any(is_call_to(x, "numpy.linalg.det", "numpy.cross",
                                    "numpy.linalg.slogdet")
                         for x in ret.walk())
            if handed:
                ctx.undecidable("C09.3", prog.func(L + name),
                                f"{name}: rotation test re-implemented "
                                f"without is_so3 (tolerances / handedness "
                                f"test not modelled)")
            else:
                ctx.ob("C09.3", prog.func(L + name), False,
                       f"{name} tests the block without is_so3 and without "
                       f"any determinant / handedness test: R^T R = s^2 I "
                       f"holds for a (scaled) reflection as well, which is "
                       f"then accepted as a group element",
                       key=f"C09.3:{name}")
            continue
        ctx.ob("C09.3", prog.func(L + name), ok,
               f"{name} = rotation-block test AND exact bottom row "
               f"(0,0,0,1)" if ok else
               f"{name} lacks the "
               f"{'rotation' if not rot_c else 'bottom-row'} conjunct: "
               f"{fmt(ret)}", key=f"C09.3:{name}")
        if name == "is_se3":
            okb = any(is_call_to(x, L + "is_so3") and x.args[1][0] is
                      tm.sub(pa, R33) for c in rot_c for x in c.walk())
            ctx.ob("C09.3", prog.func(L + name), okb,
                   "is_se3 tests the [:3,:3] block itself",
                   key="C09.3:is_se3:block")
    # "accept every genuine group element ... scales 1e-4..1e4": a
    # near-zero test with an *absolute* tolerance on a quantity that scales
    # with the element (determinant ~ s^3, block norm ~ s) rejects genuine
    # elements of small scale
    for name in ("is_sim3", "sim3_inverse", "sim3_scale"):
        fn = prog.func(L + name)
        rr = Interp(prog).run(fn)
        conds = [rr.ret] + [e.live for e in rr.of_kind("raise")]
        hits = []
        for c in conds:
            for x in c.walk():
                if not is_call_to(x, "numpy.isclose", "numpy.allclose",
                                  "math.isclose") or len(x.args[1]) < 2:
                    continue
                a_, b_ = x.args[1][0], x.args[1][1]
                for q, z in ((a_, b_), (b_, a_)):
                    zero = (tm.is_const(z) and tm.const_val(z) in (0, 0.0)) \
                        or any(y.op == "param" for y in z.walk())
                    scaled = any(is_call_to(y, "numpy.linalg.det",
                                            "numpy.linalg.norm")
                                 for y in q.walk()) and any(
                        y.op == "param" for y in q.walk())
                    kw = dict(x.args[2])
                    relative = "rel_tol" in kw or (
                        "atol" in kw and not tm.is_const(kw["atol"]))
                    if zero and scaled and not relative:
                        hits.append(x)
        if hits or name == "is_sim3":
            ctx.ob("C09.3", fn, not hits,
                   f"{name}: no absolute near-zero test on a quantity that "
                   f"scales with the element" if not hits else
                   f"{name}: {fmt(hits[0])[:90]} compares a determinant / "
                   f"norm of the scaled block with 0 (or with another "
                   f"quantity of the element's scale) under an absolute "
                   f"tolerance: at scale 1e-3 the determinant is 1e-9, far "
                   f"below the tolerance — genuine elements are treated as "
                   f"singular, resp. reflections / other scales pass",
                   key=f"C09.3:{name}:small-scale", nontrivial=bool(hits))
    # is_sim3: reflections (negative block determinant) must not pass
    sc = Interp(prog).run(prog.func(L + "sim3_scale")).ret
    while is_call_to(sc, "builtins.float", "numpy.float64", "numpy.real") \
            and sc.args[1]:
        sc = sc.args[1][0]
    good = (is_call_to(sc, "numpy.power") and len(sc.args[1]) == 2 and
            any(is_call_to(x, "numpy.linalg.det") for x in sc.args[1][0]
                .walk())) or (sc.op == "binop" and sc.args[0] == "Pow")
    bad = is_call_to(sc, "numpy.cbrt", "scipy.special.cbrt")
    sim = Interp(prog).run(prog.func(L + "is_sim3"))
    # (a test that can tell a negative scale from a positive one: an order
    # comparison with 0 — `s == 0` only catches the singular block)
    guard = any((a.op == "cmp" and a.args[0] in ("Lt", "LtE", "Gt", "GtE")
                 and any(tm.is_const(x) and x.args[1] == 0 and
                         x.args[1] is not False for x in a.walk()))
                for a in sim.ret.walk() if a.op == "cmp")
    if good or guard:
        ctx.ob("C09.3", prog.func(L + "sim3_scale"), True,
               "is_sim3: a negative block determinant cannot yield a real "
               "scale (fractional power -> NaN fails the rotation test) / "
               "is guarded", key="C09.3:is_sim3:reflection")
    elif bad:
        ctx.ob("C09.3", prog.func(L + "sim3_scale"), False,
               "sim3_scale uses a real cube root: for a scaled reflection "
               "(det < 0) the scale becomes negative, the rescaled block "
               "-F is a proper rotation, and is_sim3 (hence load_transform) "
               "accepts the reflection", key="C09.3:is_sim3:reflection")
    else:
        ctx.undecidable("C09.3", prog.func(L + "sim3_scale"),
                        f"scale extraction idiom not recognised: {fmt(sc)}")
    lg = Interp(prog).run(prog.func(L + "so3_log"))
    raises = [e for e in lg.of_kind("raise")
              if "LieAlgebraException" in (e.data.get("exc_name") or "")]
    member = tm.call(tm.func(L + "is_so3"), (tm.param("r"),), ())
    conv = [e for e in lg.of_kind("call") if "sst_rotation_from_matrix" in
            (e.data.get("name") or "") or ".as_rotvec" ==
            (e.data.get("name") or "")]
    ok = bool(raises) and bool(conv) and all(
        tm.fold(e.live, lambda t: False if t is member else None) is False
        for e in conv)
    if not conv:
        # the logarithm is computed by other means (closed form ...): whether
        # it is the inverse of so3_exp near angle 0 and pi is conditioning,
        # not shape
        ctx.undecidable("C09.3", prog.func(L + "so3_log"),
                        "so3_log: the conversion through scipy's Rotation "
                        "(as_rotvec) is replaced by another computation — "
                        "its accuracy near the angles 0 and pi is arithmetic")
    else:
        ctx.ob("C09.3", prog.func(L + "so3_log"), ok,
               "so3_log rejects non-members of SO(3) before converting"
               if ok else "so3_log converts without a membership test",
               key="C09.3:so3_log:guard")
    # --------------------------------------------------------------- C09.4
    f = prog.func(L + "so3_log_angle")
    # the unit is chosen by the `degrees` flag, or by a parameter that takes
    # a member radians / degrees of a unit enumeration
    if "degrees" in f.params:
        worlds = [(False, {"degrees": const(False)}),
                  (True, {"degrees": const(True)})]
    else:
        import ast as _ast
        ctx.require(len(f.params) >= 2, "so3_log_angle signature changed")
        sel = f.params[1]
        dn = f.defaults().get(sel)
        ev_ = None
        if dn is not None:
            from ..interp import Frame
            ev_ = Interp(prog).eval(dn, Frame(None, f.module, {}, {}, None,
                                              99), tm.TRUE)
            while ev_.op == "named":
                ev_ = ev_.args[1]
        ctx.require(ev_ is not None and ev_.op == "enum" and
                    {"radians", "degrees"} <= set(
                        prog.enum_members(ev_.args[0]) or ()),
                    "so3_log_angle signature changed (unit selector not "
                    "recognised)")
        worlds = [(False, {sel: tm.enum(ev_.args[0], "radians")}),
                  (True, {sel: tm.enum(ev_.args[0], "degrees")})]
    for deg, cfg_ in worlds:
        res = Interp(prog, assume=_single).run(f, dict(cfg_))
        # the property speaks about genuine group elements: a separate
        # treatment of matrices that fail the membership test is outside it
        member = tm.call(tm.func(L + "is_so3"), (tm.param("r"),), ())

        def genuine(t):
            return tm.select(t, lambda a: True if a is member else None)
        ret = genuine(res.ret)
        # a fast path "identity -> 0.0": fine for the *exact* identity; with
        # a tolerance every rotation below it gets the angle 0, so the angle
        # is no longer zero only for equal rotations
        shortcut_bad = None
        for _ in range(3):
            if ret.op != "ite":
                break
            c, a_, b_ = ret.args
            zero = lambda z: tm.is_const(z) and not isinstance(
                z.args[1], bool) and z.args[1] == 0
            if zero(a_) or zero(b_):
                cc = c.args[0] if c.op == "not" and zero(b_) else c
                approx = any(is_call_to(y, "numpy.allclose", "numpy.isclose",
                                        "math.isclose") or (
                    y.op == "cmp" and y.args[0] in ("Lt", "LtE") and any(
                        is_call_to(w, "numpy.abs", "builtins.abs",
                                   "numpy.linalg.norm") for w in y.walk()))
                    for y in cc.walk())
                exact = any(is_call_to(y, "numpy.array_equal") or (
                    is_call_to(y, ".all", "numpy.all")) for y in cc.walk())
                if approx:
                    shortcut_bad = cc
                elif not exact:
                    break
                ret = genuine(b_ if zero(a_) else a_)
                continue
            break
        if shortcut_bad is not None:
            ctx.ob("C09.4", f, False,
                   f"[degrees={deg}] rotations that pass "
                   f"{fmt(shortcut_bad)[:80]} get the angle 0.0: the angle "
                   f"of a small but non-zero rotation is lost (and with it "
                   f"'zero only for equal rotations' and the accumulation "
                   f"of per-frame angles)", key=f"C09.4:angle:{deg}")
            continue
        x = ret
        if is_call_to(x, "builtins.float") and x.args[1]:
            x = genuine(x.args[1][0])
        conv = is_call_to(x, "numpy.rad2deg", "numpy.degrees",
                          "math.degrees")
        if conv:
            x = genuine(x.args[1][0])
        if is_call_to(x, "builtins.float") and x.args[1]:
            x = genuine(x.args[1][0])
        ret = x
        ang_ok = is_call_to(x, "numpy.linalg.norm") and x.args[1] and \
            is_call_to(x.args[1][0], L + "so3_log") and \
            x.args[1][0].args[1][0] is tm.param("r") or \
            is_call_to(x, ".magnitude")
        if not ang_ok and is_call_to(x, "numpy.linalg.norm") and x.args[1]:
            # so3_log written out in place: the norm of the very rotation
            # vector so3_log(r) returns, behind the same membership guard
            lr = Interp(prog, assume=_single).run(
                prog.func(L + "so3_log"), {"return_skew": const(False)})
            rotvec = tm.select(lr.ret, lambda a: None)
            guarded = any(
                "LieAlgebraException" in (e.data.get("exc_name") or "") and
                any(is_call_to(y, L + "is_so3") for y in e.live.walk())
                for e in res.of_kind("raise"))
            ang_ok = x.args[1][0] is rotvec and guarded
        if ang_ok and not conv and is_call_to(x, "numpy.linalg.norm"):
            # the conversion may be delegated: so3_log(r, degrees=True)
            # returns the rotation vector in degrees (|k v| = k |v|)
            kw = dict(x.args[1][0].args[2])
            dg = kw.get("degrees")
            if dg is not None and tm.is_const(dg, True):
                lr = Interp(prog, assume=_single).run(
                    prog.func(L + "so3_log"),
                    {"degrees": const(True), "return_skew": const(False)})
                conv = is_call_to(lr.ret, "numpy.rad2deg", "numpy.degrees")
        # (looked for in everything a genuine rotation can be given back,
        # e.g. behind the empty-batch / unit branches of a vectorised helper;
        # not evidence if a well-conditioned form is used next to it)
        whole = tm.deep_select(res.ret, lambda a: True if a is member
                               else None)
        arccos = any(is_call_to(y, "numpy.arccos", "math.acos")
                     for y in whole.walk()) and any(
            is_call_to(y, "numpy.trace") or (y.op == "attr" and
                                             y.args[1] == "trace")
            for y in whole.walk()) and not any(
            is_call_to(y, ".as_rotvec", ".magnitude", L + "so3_log",
                       "numpy.arctan2", "math.atan2")
            for y in whole.walk())
        if ang_ok:
            ctx.ob("C09.4", f, conv == deg,
                   f"[degrees={deg}] angle = |rotation vector of so3_log(r)|"
                   f"{', converted with rad2deg' if deg else ''}"
                   if conv == deg else
                   f"[degrees={deg}] angle unit conversion is "
                   f"{'applied' if conv else 'missing'}",
                   key=f"C09.4:angle:{deg}")
        elif arccos:
            ctx.ob("C09.4", f, False,
                   f"[degrees={deg}] the rotation angle is computed as "
                   f"arccos((trace(R)-1)/2): the derivative of cos vanishes "
                   f"at 0 and pi, so angles below ~1e-8 collapse to 0 and "
                   f"angles near pi to pi — the angle is no longer zero "
                   f"only for equal rotations and exp/log do not invert "
                   f"there", key="C09.4:angle:ill-conditioned")
        else:
            ctx.undecidable("C09.4", f, f"angle idiom not recognised: "
                            f"{fmt(ret)}")


def _group_ops(ctx, prog):
    from ..affine import Aff, AffError, AffShapeError, atom, f_add, mul, \
        p_const, show, subst, inverse
    from ..known_functions import KNOWN_FUNCTIONS
    from ..lib import strip_asarray
    looked = ("se3", "sim3", "so3_from_se3", "se3_inverse", "sim3_inverse")

    def inl(fn):
        return fn.module.name == "evo.core.lie_algebra" and (
            fn.name in looked or fn.qualname not in KNOWN_FUNCTIONS)

    def A(name, *idx):
        return atom(("src", name) + idx)

    def neg(f):
        return f_add({}, f, -1.0)

    def total(fs):
        out = {}
        for f in fs:
            out = f_add(out, f)
        return out
    S = ("s", "S")                     # sim3_scale(a), opaque
    s_par = ("s", "s")
    bottom = lambda j: p_const(1 if j == 3 else 0)

    def inv_entries(src, inv_s=None):
        """definition of the inverse of a (scaled) rigid transformation
        [[sR, t], [0, 1]] from its own entries"""
        k = p_const(1) if inv_s is None else mul(inv_s, inv_s)

        def e(i, j):
            if i == 3:
                return bottom(j)
            if j < 3:
                return mul(k, A(src, j, i))
            return neg(mul(k, total(mul(A(src, m_, i), A(src, m_, 3))
                                    for m_ in range(3))))
        return e
    inv_S = inverse(atom(S))
    se3_inv_p1 = inv_entries("p1")
    specs = {
        "se3": (lambda i, j: bottom(j) if i == 3 else (
            A("r", i, j) if j < 3 else A("t", i)), "[[r, t], [0, 1]]"),
        "sim3": (lambda i, j: bottom(j) if i == 3 else (
            mul(atom(s_par), A("r", i, j)) if j < 3 else A("t", i)),
            "[[s*r, t], [0, 1]]"),
        "se3_inverse": (inv_entries("p"), "[[R^T, -R^T t], [0, 1]]"),
        "sim3_inverse": (inv_entries("a", inv_S),
                         "[[R^T / s, -R^T t / s], [0, 1]] with s = "
                         "sim3_scale(a)"),
        "relative_so3": (lambda i, j: total(
            mul(A("r1", k, i), A("r2", k, j)) for k in range(3)),
            "r1^T . r2"),
        "relative_se3": (lambda i, j: total(
            mul(se3_inv_p1(i, k), A("p2", k, j)) for k in range(4)),
            "inverse(p1) . p2"),
        "so3_from_se3": (lambda i, j: A("p", i, j), "p[:3, :3]"),
    }
    shapes = {"r": [(3,), (3,)], "t": [(3,)], "p": [(4,), (4,)],
              "a": [(4,), (4,)], "r1": [(3,), (3,)], "r2": [(3,), (3,)],
              "p1": [(4,), (4,)], "p2": [(4,), (4,)]}
    for name, (want, text) in specs.items():
        f = prog.func(L + name)
        r = Interp(prog, inline=inl, assume=_single, max_depth=3).run(f)
        ret = strip_asarray(_given(r.ret))
        scal = {tm.param("s"): "s",
                tm.call(tm.func(L + "sim3_scale"), (tm.param("a"),), ()): "S"}
        aff = Aff({tm.param(k): (k, d) for k, d in shapes.items()
                   if k in f.params}, scal, [], {}, unname=Interp.unname)
        # conditional constructions are judged case by case: every truth
        # assignment of the conditions that occur in the value. A condition
        # that *states an equality* (s == 1.0, (t == 0).all()) is used as
        # such — the equated entries are replaced by the constant on both
        # sides; any other condition (np.isclose(s, 1.0), ...) gives no
        # licence to return something else than the definition
        conds = []
        for x in ret.walk():
            if x.op == "ite" and not any(x.args[0] is c for c in conds):
                conds.append(x.args[0])
        bad, unknown = None, None
        if len(conds) > 3:
            unknown = f"{len(conds)} nested conditions"
            conds = []
        import itertools

        def equalities(c: T, val: bool, aff):
            """[(atom, number)] a condition with this truth value asserts"""
            neg = False
            while c.op == "not":
                c, neg = c.args[0], not neg
            truth = val != neg
            out = []
            if c.op == "cmp" and c.args[0] in ("Eq", "NotEq") and \
                    (c.args[0] == "Eq") == truth and tm.is_const(c.args[2]) \
                    and isinstance(tm.const_val(c.args[2]), (int, float)) \
                    and not isinstance(tm.const_val(c.args[2]), bool):
                try:
                    if not aff.dims_of(c.args[1]):
                        f_ = aff.entry_at(c.args[1], [])
                        if len(f_) == 1 and list(f_.values()) == [1.0] and \
                                len(list(f_)[0]) == 1:
                            out.append((list(f_)[0][0],
                                        float(tm.const_val(c.args[2]))))
                except AffError:
                    pass
            arr = None
            if is_call_to(c, ".all", "numpy.all") and truth:
                inner = tm.method_recv(c) if tm.callee_name(c) == ".all" \
                    else (c.args[1][0] if c.args[1] else None)
                if inner is not None and inner.op == "cmp" and \
                        inner.args[0] == "Eq" and tm.is_const(inner.args[2]):
                    arr, cv = inner.args[1], inner.args[2]
            if is_call_to(c, ".any", "numpy.any") and not truth:
                arr = tm.method_recv(c) if tm.callee_name(c) == ".any" \
                    else (c.args[1][0] if c.args[1] else None)
                cv = const(0)
            if arr is not None and isinstance(tm.const_val(cv), (int, float)):
                try:
                    d_ = aff.dims_of(arr)
                    for idx in aff.positions(d_):
                        f_ = aff.entry_at(arr, idx)
                        if len(f_) == 1 and list(f_.values()) == [1.0] and \
                                len(list(f_)[0]) == 1:
                            out.append((list(f_)[0][0],
                                        float(tm.const_val(cv))))
                except AffError:
                    pass
            return out
        for bits in itertools.product((True, False), repeat=len(conds)):
            env = dict(zip(map(id, conds), bits))
            t = tm.deep_select(ret, lambda a_: env.get(id(a_)))
            case = ", ".join(f"{fmt(c)[:50]} is {v}"
                             for c, v in zip(conds, bits))
            try:
                eqs = [e_ for c, v in zip(conds, bits)
                       for e_ in equalities(c, v, aff)]
                d = aff.dims_of(t)
                n_ = 3 if name in ("relative_so3", "so3_from_se3") else 4
                if d != [(n_,), (n_,)]:
                    raise AffError(f"result shape {d}")
                for i in range(n_):
                    for j in range(n_):
                        got = aff.entry_at(t, [(i,), (j,)])
                        exp = want(i, j)
                        for at_, cv in eqs:
                            exp = subst(exp, at_, cv)
                            got = subst(got, at_, cv)
                        if got != exp and bad is None:
                            # a test that was not understood as an equality
                            # and is not a tolerance test either: cannot
                            # tell whether it justifies the shortcut
                            opaque = [c for c, v in zip(conds, bits)
                                      if not equalities(c, v, aff) and
                                      not equalities(c, not v, aff) and
                                      not any(is_call_to(
                                          x, "numpy.isclose",
                                          "numpy.allclose", "math.isclose",
                                          "builtins.abs", "numpy.abs")
                                          for x in c.walk())]
                            if opaque:
                                unknown = (f"result under the test "
                                           f"{fmt(opaque[0])[:80]}")
                                continue
                            bad = (f"entry ({i}, {j}) is {show(got)[:120]}, "
                                   f"the definition gives {show(exp)[:120]}"
                                   + (f" (when {case})" if case else ""))
            except AffShapeError as ex:
                bad = f"the construction cannot run: {ex}"
            except AffError as ex:
                unknown = str(ex)
        if unknown is not None and bad is None:
            ctx.undecidable("C09.2", f, f"{name}: construction not "
                            f"understood by the entry algebra: {unknown}")
            continue
        ctx.ob("C09.2", f, bad is None,
               f"{name} = {text} (every entry, as a polynomial in the "
               f"entries of the arguments)" if bad is None else
               f"{name} is not {text}: {bad}", key=f"C09.2:{name}")


def _given(t: T) -> T:
    """value for arguments that were passed: conditionals on
    `<parameter> is None` take the not-None alternative (at any depth)"""
    def assign(a: T):
        if a.op == "cmp" and a.args[0] in ("Is", "IsNot") and \
                a.args[1].op == "param" and a.args[2] is tm.NONE:
            return a.args[0] == "IsNot"
        if a.op == "cmp" and a.args[0] in ("Is", "IsNot") and \
                a.args[2] is tm.NONE:
            # the result of slicing / arithmetic / transposition is an array
            x = a.args[1]
            if x.op in ("sub", "binop", "unop", "upd", "list", "tuple") or \
                    (x.op == "attr" and x.args[1] == "T"):
                return a.args[0] == "IsNot"
        return None

    def rw(x: T):
        if x.op == "ite":
            c = tm.fold(x.args[0], assign)
            if c is not None:
                return x.args[1] if c else x.args[2]
        return None
    return t.map(rw)


def _neg_dot(t: T):
    """(a, b) if t is -(a . b), (-a) . b or a . (-b)"""
    if t.op == "unop" and t.args[0] == "USub":
        return _dot_operands(t.args[1])
    o = _dot_operands(t)
    if o is None:
        return None
    a, b = o
    if a.op == "unop" and a.args[0] == "USub":
        return a.args[1], b
    if b.op == "unop" and b.args[0] == "USub":
        return a, b.args[1]
    return None


def _default_of(fn, v: T, prog=None) -> T:
    """a tolerance that is the function's own parameter stands for that
    parameter's default (what callers that do not pass it get)"""
    if v.op == "param":
        a = fn.node.args
        pos = a.posonlyargs + a.args
        for prm, d in list(zip(pos[len(pos) - len(a.defaults):],
                               a.defaults)) + \
                [(k, d) for k, d in zip(a.kwonlyargs, a.kw_defaults) if d]:
            if prm.arg == v.args[0] and isinstance(d, ast.Constant):
                return const(d.value)
            if prm.arg == v.args[0] and prog is not None:
                # a named module constant as default
                from ..interp import Frame
                dv = Interp(prog).eval(
                    d, Frame(None, fn.module, {}, {}, None, 99), tm.TRUE)
                while dv.op == "named":
                    dv = dv.args[1]
                if tm.is_const(dv):
                    return dv
    return v


VARIANTS = [
    dict(name="hat-sign-flipped", file="evo/core/lie_algebra.py",
         find="    return np.array([[0.0, -v[2], v[1]],",
         replace="    return np.array([[0.0, v[2], v[1]],", expect="fire",
         rule="C09.1"),
    dict(name="relative-se3-operands", file="evo/core/lie_algebra.py",
         find="    return np.dot(se3_inverse(p1), p2)",
         replace="    return np.dot(p2, se3_inverse(p1))", expect="fire",
         rule="C09.2"),
    dict(name="det-conjunct-removed", file="evo/core/lie_algebra.py",
         find="    return det_valid and inv_valid", replace="    return inv_valid",
         expect="fire", rule="C09.3"),
    dict(name="bottom-row-test-removed", file="evo/core/lie_algebra.py",
         find="    rot_valid = is_so3(p[:3, :3])\n    lower_valid = np.equal(p[3, :], np.array([0.0, 0.0, 0.0, 1.0])).all()\n    return rot_valid and bool(lower_valid)",
         replace="    rot_valid = is_so3(p[:3, :3])\n    return rot_valid",
         expect="fire", rule="C09.3"),
    dict(name="sim3-inverse-scale-not-reciprocal",
         file="evo/core/lie_algebra.py",
         find="    return sim3(r, t, 1 / s)", replace="    return sim3(r, t, s)",
         expect="fire", rule="C09.2"),
    dict(name="transpose-method-vs-T", file="evo/core/lie_algebra.py",
         find="    return np.dot(r1.transpose(), r2)",
         replace="    return np.dot(r1.T, r2)", expect="silent"),
    dict(name="angle-arccos-trace", file="evo/core/lie_algebra.py",
         find="    angle = np.linalg.norm(so3_log(r, return_skew=False))",
         replace="    if not is_so3(r):\n        raise LieAlgebraException(\"matrix is not a valid SO(3) group element\")\n"
                 "    angle = np.arccos(np.clip((np.trace(r) - 1.0) / 2.0, -1.0, 1.0))",
         expect="fire", rule="C09.4"),
    dict(name="scale-cbrt", file="evo/core/lie_algebra.py",
         find="    return np.power(np.linalg.det(a[:3, :3]), 1 / 3)",
         replace="    return np.cbrt(np.linalg.det(a[:3, :3]))",
         expect="fire", rule="C09.3"),
    dict(name="degrees-always", file="evo/core/lie_algebra.py",
         find="    if degrees:\n        angle = np.rad2deg(angle)\n    return float(angle)",
         replace="    angle = np.rad2deg(angle)\n    return float(angle)",
         expect="fire", rule="C09.4"),
]
