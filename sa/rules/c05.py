"""C05 — time association."""
from __future__ import annotations

from typing import Optional

from .. import terms as tm
from ..effects import roots
from ..interp import Interp
from ..lib import comparisons, fmt, is_call_to
from ..terms import T, const

EXPLANATION = """
Dataflow analysis of sync.matching_time_indices and
sync.associate_trajectories. C05.1: everything the association reduces is a
private deep copy; the offset is added in place only to a fresh copy of the
second stamp vector. C05.2/3/4 (specialised per `snd_longer` configuration by
constant propagation): the first returned trajectory derives from the first
argument and the second from the second; each index list is applied to the
trajectory whose timestamps produced it; the offset has positive sign exactly
when the vector it is added to derives from the second trajectory. C05.5: a
pair is accepted iff diff <= max_diff (comparison normalised over
not/flipped/continue spellings). C05.6: the accepted counterpart is
argmin |stamps_2 + offset - stamp_1|, and the tested difference is that
minimum. C05.7: zero matches raise SyncException before the normal return, and no
other SyncException depends on the time stamp values (a range pre-check would
refuse inputs that have a pair within max_diff).
C05.8: 'no pose used twice' needs a uniqueness mechanism — a loop-carried
dependence from the accepted set into the accept decision, or a
de-duplicating pass — its absence is reported (known finding F2). C05.9:
every normal return has passed the matching and both reductions. C05.10:
reduce_to_ids selects every materialised view and the timestamps with the same
ids in every cache configuration (instances of C08.1/C08.3), so pose and
timestamp of a kept pose stay together.
"""
UNDECIDED = [
    "floating point: argmin ties, rounding of |t1 - t2| at epoch magnitudes",
    "which contender should win when two stamps share a nearest counterpart "
    "(maintainer decision; see known finding)",
]
TRUSTED = ["numpy.argmin / numpy.abs semantics", "copy.deepcopy"]
ASSUMPTIONS = ["timestamps strictly increasing (property quantifier)"]
MANIFEST = dict(
    text="Decides the data-independent skeleton of the association for both "
         "length orderings at once: private copies, role-preserving "
         "returns, index lists applied to their own trajectory, offset sign "
         "following the argument order (reachable only with an offset and "
         "len(traj_1) >= len(traj_2), which no test does), inclusive "
         "tolerance, nearest-counterpart selection, SyncException on zero "
         "matches, no return that bypasses the matching; reports the missing "
         "uniqueness mechanism as a known finding.",
    note="Floating-point behaviour of argmin/abs at epoch magnitudes is not "
         "decided; deepcopy and numpy are trusted.",
    technique="SCCP-style specialisation per snd_longer + provenance terms "
              "+ comparison normalisation + loop-carried dependence test",
)
FLOORS = {"C05.1": 3, "C05.2": 4, "C05.3": 4, "C05.4": 3, "C05.5": 1,
          "C05.6": 2, "C05.7": 1, "C05.8": 1, "C05.9": 1, "C05.10": 10,
          "C05.11": 8}

MTI = "evo.core.sync.matching_time_indices"
ASSOC = "evo.core.sync.associate_trajectories"
KEY_F2 = "C05.8:matching_time_indices:no-uniqueness-mechanism"


def _shortcut(ctx, cfgname, e, ids_all: T, search: T, b: dict, mt_ev):
    """an index list that does not come from the search: accepted only as
    the identity pairing 0..n-1 under a condition that makes the search
    return exactly that — the (offset-shifted) stamp arrays are *equal*,
    strictly increasing, and max_diff is not negative. Equality up to a
    tolerance (allclose) is not the nearest counterpart within max_diff."""
    conds = []
    t = ids_all
    while t.op == "ite":
        if any(x is search for x in t.args[2].walk()) or t.args[2] is search:
            conds.append((t.args[0], t.args[1]))
            t = t.args[2]
        elif t.args[1] is search or any(x is search
                                        for x in t.args[1].walk()):
            conds.append((T("not", t.args[0]), t.args[2]))
            t = t.args[1]
        else:
            break
    for cond, alt in conds:
        ident = is_call_to(alt, "builtins.list") and alt.args[1] and \
            is_call_to(alt.args[1][0], "builtins.range") or \
            is_call_to(alt, "numpy.arange", "builtins.range")
        ats = tm.atoms(cond)
        approx = [a for a in ats if any(
            is_call_to(x, "numpy.allclose", "numpy.isclose", "math.isclose",
                       "numpy.testing.assert_allclose") for x in a.walk())]
        exact = [a for a in ats if is_call_to(a, "numpy.array_equal") or (
            is_call_to(a, ".all", "numpy.all") and any(
                x.op == "cmp" and x.args[0] == "Eq" for x in a.walk()))]
        incr = [a for a in ats if is_call_to(a, "numpy.all", ".all") and any(
            x.op == "cmp" and x.args[0] in ("Gt", "Lt") and any(
                is_call_to(y, "numpy.diff") for y in x.walk())
            for x in a.walk())]
        nonneg = [a for a in ats if a.op == "cmp" and a.args[0] in (
            "GtE", "LtE", "Gt", "Lt") and any(
            x is tm.param("max_diff") for x in a.walk())]
        site = e
        if approx:
            ctx.ob("C05.5", site, False,
                   f"[{cfgname}] the search is bypassed when the stamps are "
                   f"equal *up to a tolerance* ({fmt(approx[0])[:80]}): "
                   f"poses are then paired index by index although their "
                   f"stamps can differ by more than max_diff (or have a "
                   f"nearer counterpart)", key=f"C05.5:{cfgname}:shortcut")
        elif ident and exact and incr and nonneg and \
                tm.fold(cond, lambda a: False if a in exact else None) \
                is False:
            ctx.ob("C05.5", site, True,
                   f"[{cfgname}] identity pairing only for exactly equal, "
                   f"strictly increasing stamps and max_diff >= 0 (what the "
                   f"search returns then)", key=f"C05.5:{cfgname}:shortcut")
        else:
            ctx.undecidable("C05.5", site, f"[{cfgname}] index lists that "
                            f"bypass the search under {fmt(cond)[:100]} "
                            f"(unknown idiom)")


def check(ctx):
    prog = ctx.prog
    fm, fa = prog.func(MTI), prog.func(ASSOC)
    ctx.analysed_fn(MTI, ASSOC)
    ctx.require(fm.params[:4] == ["stamps_1", "stamps_2", "max_diff",
                                  "offset_2"],
                "matching_time_indices signature changed")
    ctx.require(fa.params[:4] == ["traj_1", "traj_2", "max_diff",
                                  "offset_2"],
                "associate_trajectories signature changed")
    rm = Interp(prog).run(fm)
    # a binary-search fast path next to the scan (np.searchsorted on sorted
    # stamps, the scan kept as fall-back): the scan is judged as before under
    # "fast path not taken"; whether the fast path picks the same counterpart
    # (ties, runs of equal stamps, rounding of midpoints) is arithmetic this
    # analysis does not model — undecidable, not a verdict
    fast = [e for e in rm.calls("numpy.searchsorted")
            if not tm.is_const(e.live, False)]
    if fast:
        guards = []
        for a in tm.atoms(rm.ret.args[0] if rm.ret.op == "ite" else tm.TRUE):
            guards.append(a)
        # evidence that needs no arithmetic: the tolerance window
        # [t - max_diff, t + max_diff] is closed (`<= max_diff`), so its
        # upper end has to be located with side='right' and its lower end
        # with side='left'; the other side excludes a counterpart that is
        # exactly max_diff away
        md = tm.param("max_diff")
        for e in fast:
            a_ = e.data["args"]
            kw = dict(e.data["kwargs"])
            val = a_[1] if len(a_) > 1 else kw.get("v")
            side = a_[2] if len(a_) > 2 else kw.get("side", const("left"))
            if val is None or not tm.is_const(side):
                continue
            v0 = Interp.unname(val)
            if v0.op == "binop" and v0.args[0] in ("Add", "Sub") and \
                    v0.args[2] is md:
                upper = v0.args[0] == "Add"
                want = "right" if upper else "left"
                if tm.const_val(side) != want:
                    ctx.ob("C05.3", e, False,
                           f"the {'upper' if upper else 'lower'} end of the "
                           f"tolerance window ({fmt(v0)[:40]}) is located "
                           f"with np.searchsorted(side="
                           f"'{tm.const_val(side)}'): a counterpart exactly "
                           f"max_diff {'later' if upper else 'earlier'} is "
                           f"left out of the window although its difference "
                           f"is within max_diff (<=)",
                           key="C05.3:window-side")
        ctx.undecidable("C05.3", fast[0], "matching_time_indices looks the "
                        "nearest stamps up with np.searchsorted: which "
                        "counterpart a binary search reports for ties, equal "
                        "stamps and unsorted input is not modelled")
        if rm.ret.op == "ite" and guards:
            for val in (True, False):
                r2 = Interp(prog, assume=lambda t, v=val: v if any(
                    t is g for g in guards) else None).run(fm)
                if not [e for e in r2.calls("numpy.searchsorted")
                        if not tm.is_const(e.live, False)]:
                    rm = r2
                    break
            else:
                return
        else:
            return
    s1, s2 = tm.param("stamps_1"), tm.param("stamps_2")
    maxd, off = tm.param("max_diff"), tm.param("offset_2")

    # ------------------------------------------------------- C05.1 (mti)
    augs = rm.of_kind("augassign")
    shifted = None
    for e in augs:
        if e.data["value"] is off or (e.data["value"].op == "unop" and
                                      e.data["value"].args[1] is off):
            rs = roots(e.data["target"])
            base = e.data["target"]
            derives2 = any(x is s2 for x in base.walk())
            ok = not rs
            ctx.ob("C05.1", e, ok,
                   "offset is added in place to a private copy of stamps_2"
                   if ok else
                   "offset is added in place to the caller's timestamp array "
                   f"({fmt(base)}): the input is modified",
                   key="C05.1:mti:offset-on-copy", target=fmt(base))
            ctx.ob("C05.4", e, derives2 and e.data["op"] == "Add" and
                   e.data["value"] is off,
                   "matching_time_indices adds +offset to its *second* stamp "
                   "vector" if derives2 else
                   f"offset is applied to {fmt(base)}, not to stamps_2",
                   key="C05.4:mti:offset-target")
            shifted = T("binop", e.data["op"], base, e.data["value"])
    if shifted is None:
        # non in-place spelling: stamps_2 + offset_2 somewhere
        for x in rm.ret.walk():
            pass
        cand = [x for e in rm.of_kind("call") for a in e.data["args"]
                for x in a.walk() if x.op == "binop" and x.args[0] == "Add"
                and off in (x.args[1], x.args[2])]
        ctx.require(bool(cand), "offset application not found in "
                    "matching_time_indices (unknown idiom)")
        shifted = cand[0]
        other = shifted.args[1] if shifted.args[2] is off else shifted.args[2]
        ctx.ob("C05.4", fm, any(x is s2 for x in other.walk()),
               "offset is added to the second stamp vector",
               key="C05.4:mti:offset-target")

    # ------------------------------------------------- C05.5 / C05.6 / C05.8
    apps = [e for e in rm.of_kind("call")
            if e.data.get("mutates_recv") and e.data["name"] == ".append"]
    pair_app = len(apps) == 1 and apps[0].data["args"] and \
        apps[0].data["args"][0].op == "tuple" and \
        len(apps[0].data["args"][0].args) == 2
    ctx.require(len(apps) >= 2 or pair_app, "append of matching indices not "
                "found (unknown idiom)")
    # accepted matches are either two lists growing in parallel or one list
    # of (own index, counterpart index) pairs
    idx_terms = list(apps[0].data["args"][0].args) if pair_app else \
        [e.data["args"][0] for e in apps]
    # the two appended values: own index (index / elem of stamps_1) and the
    # counterpart index
    cp = [t for t in idx_terms if any(is_call_to(x, "numpy.argmin",
                                                 ".argmin")
                                      for x in t.walk())]
    ctx.require(len(cp) == 1, "counterpart index is not an argmin "
                "(unknown idiom)")
    idx2 = cp[0]
    am = [x for x in idx2.walk() if is_call_to(x, "numpy.argmin", ".argmin")]
    diffs = am[0].args[1][0] if am[0].args[1] else tm.method_recv(am[0])
    ok6 = False
    if diffs is not None and is_call_to(diffs, "numpy.abs", "numpy.absolute",
                                        "numpy.fabs", "builtins.abs"):
        from ..lib import strip_asarray
        d = strip_asarray(diffs.args[1][0])
        if d.op == "binop" and d.args[0] == "Sub":
            a, b = d.args[1], d.args[2]
            el1 = [x for x in (a, b) if x.op == "elem" and
                   _iter_source(x) is s1]
            sh = [x for x in (a, b) if shifted is not None and
                  x is strip_asarray(shifted)]
            ok6 = len(el1) == 1 and len(sh) == 1
    if ok6:
        ctx.ob("C05.6", apps[0], True,
               "counterpart = argmin | (stamps_2 + offset) - stamp_1 | over "
               "the whole second vector", key="C05.6:argmin",
               index=fmt(idx2))
    else:
        # a different search (windowed, sorted-search, ...) may be correct:
        # not judged
        ctx.undecidable("C05.6", apps[0], f"nearest-counterpart search is "
                        f"not the recognised argmin over the whole shifted "
                        f"vector: {fmt(idx2)}")
    def as_maxd(t: T) -> T:
        """the threshold for a given (non-None) max_diff >= 0, which is what
        the property quantifies over: `x if max_diff is None else max_diff`
        and float(max_diff) are max_diff"""
        t = tm.select(t, lambda a: (a.args[0] == "IsNot") if (
            a.op == "cmp" and a.args[0] in ("Is", "IsNot") and
            a.args[1] is maxd and a.args[2] is tm.NONE) else None)
        if is_call_to(t, "builtins.float") and len(t.args[1]) == 1:
            t = t.args[1][0]
        return t
    for e in apps:
        cmps = [(a, r, as_maxd(b)) for a, r, b in comparisons(e.live)]
        want = (tm.sub(diffs, idx2), "LtE", maxd) if diffs is not None \
            else None
        ok5 = want in cmps
        strict = diffs is not None and (tm.sub(diffs, idx2), "Lt", maxd) \
            in cmps
        ctx.ob("C05.5", e, ok5,
               "a pair is accepted iff diffs[counterpart] <= max_diff "
               "(inclusive)" if ok5 else
               ("tolerance test is strict (<): differences exactly equal to "
                "max_diff are rejected" if strict else
                f"accept condition is not diffs[argmin] <= max_diff: "
                f"{[(fmt(a), r, fmt(b)) for a, r, b in cmps]}"),
               key="C05.5:inclusive", live=fmt(e.live))
        only = [c for c in cmps]
        ctx.ob("C05.6", e, len(only) == 1,
               "the tolerance test is the only accept condition"
               if len(only) == 1 else
               f"additional accept conditions: "
               f"{[(fmt(a), r, fmt(b)) for a, r, b in cmps]}",
               key="C05.6:only-condition")
    # own index appended together with the counterpart, same condition
    ok = pair_app or (len({e.live for e in apps}) == 1 and len(apps) == 2)
    ctx.ob("C05.3", apps[0], ok,
           "both index lists grow together (same accept condition)" if ok
           else "the two index lists are appended under different "
                "conditions", key="C05.3:mti:parallel-append")
    # return order: (indices of stamps_1, indices of stamps_2)
    ret = rm.ret
    ok = ret.op == "tuple" and len(ret.args) == 2 and \
        _component(ret.args[1]) is idx2 and \
        _component(ret.args[0]) is not None
    own = _component(ret.args[0]) if ret.op == "tuple" else None
    ok = ok and own is not None and (own.op == "index" or (
        own.op == "elem"))
    ctx.ob("C05.3", fm, ok,
           "returns (indices into stamps_1, indices into stamps_2) in this "
           "order" if ok else f"return value order: {fmt(ret)}",
           key="C05.3:mti:return-order",
           # evident when both components are read and stand the other way
           # round (a pair list transposed by zip(*...) etc. is not read)
           evidence=ret.op == "tuple" and len(ret.args) == 2 and
           _component(ret.args[0]) is not None and
           _component(ret.args[1]) is not None)

    # C05.8 loop-carried dependence / post-pass
    carried = [x for t in [idx2] + [e.live for e in apps]
               for x in t.walk() if x.op in ("loopvar",)]
    post = [e for e in rm.of_kind("call")
            if e.idx > max(a.idx for a in apps) and not e.loops and
            (e.data.get("name") or "") not in ("builtins.len",)]
    filtered = [x for x in ret.walk() if x.op == "comp" and x.args[3]]
    has_mech = bool(carried) or bool(post) or bool(filtered)
    ctx.ob("C05.8", fm, has_mech,
           "a uniqueness mechanism exists (loop-carried dependence or "
           "post-pass)" if has_mech else
           "neither the accept decision nor the candidate depends on what "
           "earlier iterations accepted, and no pass after the loop removes "
           "duplicates: two stamps that share a nearest counterpart both "
           "take it (a pose of the longer trajectory is used twice)",
           key=KEY_F2)

    ctx.section(_reduce_together, ctx)

    # ------------------------------------------------------------ associate
    snd = None
    base = Interp(prog).run(fa)
    cond_atoms = []
    for e in base.events:
        for k in ("value", "result"):
            v = e.data.get(k)
            if isinstance(v, T):
                cond_atoms.extend(a_ for x in v.walk() if x.op == "ite"
                                  for a_ in tm.atoms(x.args[0]))
        for v in e.data.get("args") or ():
            cond_atoms.extend(a_ for x in v.walk() if x.op == "ite"
                              for a_ in tm.atoms(x.args[0]))
    cond_atoms.extend(a_ for x in base.ret.walk() if x.op == "ite"
                      for a_ in tm.atoms(x.args[0]))
    for a in tm.atoms(base.events[-1].live) + [
            x for e in base.events for x in tm.atoms(e.live)] + cond_atoms:
        if a.op == "cmp" and a.args[0] in ("Gt", "Lt", "GtE", "LtE") and \
                tm.mentions_param(a, "traj_1") and \
                tm.mentions_param(a, "traj_2") and \
                any(is_call_to(x, "builtins.len") or
                    (x.op == "attr" and x.args[1] == "num_poses")
                    for x in a.walk()):
            snd = a
            break
    ctx.require(snd is not None, "length-ordering test not found in "
                "associate_trajectories (unknown idiom)")
    t1, t2 = tm.param("traj_1"), tm.param("traj_2")
    for longer in (True, False):
        it = Interp(prog, assume=lambda t, v=longer: v if t is snd else None)
        r = it.run(fa)
        ctx.analysed["configs"] += 1
        cfgname = f"snd_longer={longer}"
        mt = r.calls(MTI)
        ctx.require(len(mt) == 1, "matching_time_indices call not found")
        b = mt[0].data["bound"]
        # C05.2 return roles
        ret = r.ret
        ctx.require(ret.op == "tuple" and len(ret.args) == 2,
                    f"associate_trajectories[{cfgname}] return is not a "
                    f"pair: {fmt(ret)}")
        for k, (val, pname, other) in enumerate(
                ((ret.args[0], "traj_1", "traj_2"),
                 (ret.args[1], "traj_2", "traj_1"))):
            ok = tm.mentions_param(val, pname) and \
                not tm.mentions_param(val, other)
            if not ok:
                # by the object each alternative is (conditions — a common
                # time window ... — may look at both inputs)
                def obj(t: T, d=0):
                    while d < 12:
                        d += 1
                        if is_call_to(t, "copy.deepcopy", "copy.copy") and \
                                len(t.args[1]) == 1:
                            t = t.args[1][0]
                        elif t.op in ("mut", "upd"):
                            t = t.args[0]
                        elif t.op in ("loopout", "loopvar"):
                            t = t.args[2]
                        elif t.op == "call" and t.args[0].op == "attr" and \
                                t.args[0].args[0].op != "global":
                            t = t.args[0].args[0]      # method result
                        else:
                            break
                    return t
                roots_ = {obj(a) for a in tm.strip_ite(val)}
                if roots_ == {tm.param(pname)}:
                    ok = True
                elif tm.param(other) not in roots_:
                    ctx.undecidable("C05.2", fa, f"[{cfgname}] returned "
                                    f"trajectory {k + 1}: origin of "
                                    f"{fmt(val)[:80]} not recognised")
                    continue
            ctx.ob("C05.2", fa, ok,
                   f"[{cfgname}] returned trajectory {k + 1} derives from "
                   f"{pname}" if ok else
                   f"[{cfgname}] returned trajectory {k + 1} is "
                   f"{fmt(val)} — the roles of the two inputs are swapped",
                   key=f"C05.2:{cfgname}:ret{k}", value=fmt(val))
        # C05.1 copies
        reds = [e for e in r.of_kind("call")
                if (e.data.get("name") or "").endswith(".reduce_to_ids")]
        ctx.require(len(reds) == 2, f"[{cfgname}] expected two reduce_to_ids "
                    f"calls")
        for e in reds:
            rs = roots(e.data["recv"])
            ctx.ob("C05.1", e, not rs,
                   f"[{cfgname}] reduce_to_ids acts on a private deep copy"
                   if not rs else
                   f"[{cfgname}] reduce_to_ids modifies the caller's "
                   f"trajectory {sorted(rs)}",
                   key=f"C05.1:assoc:{cfgname}:copy")
            # C05.3: index list k goes to the trajectory whose stamps were
            # argument k
            ids = (e.data["bound"] or {}).get("ids")
            k = None
            # an index list keeps its values through np.array(ids, dtype=int)
            # / np.asarray(ids) / list(ids)
            for _ in range(3):
                if ids is not None and is_call_to(
                        ids, "numpy.array", "numpy.asarray", "builtins.list",
                        "builtins.tuple") and len(ids.args[1]) == 1 and all(
                            k_ == "dtype" and (
                                v_ is T("global", "builtins.int") or
                                tm.is_const(v_, "int") or
                                fmt(v_) in ("int", "np.int64", "np.intp"))
                            for k_, v_ in ids.args[2]):
                    ids = ids.args[1][0]
            ids_all = ids
            if ids is not None and ids.op == "ite":
                # a shortcut next to the search (identical stamps ...): the
                # search alternative is judged here, the shortcut below
                srch = [a for a in tm.strip_ite(ids) if a.op == "sub" and
                        a.args[0] is mt[0].data["result"]]
                if len(srch) == 1:
                    ids = srch[0]
                    _shortcut(ctx, cfgname, e, ids_all, ids, b, mt[0])
            if ids is not None and ids.op == "sub" and \
                    ids.args[0] is mt[0].data["result"] and \
                    tm.is_const(ids.args[1]):
                k = ids.args[1].args[1]
            stamps_arg = [b.get("stamps_1"), b.get("stamps_2")]

            def same_values(t: T) -> T:
                # a deep / shallow copy of a trajectory has its stamps
                return t.map(lambda x: x.args[1][0] if is_call_to(
                    x, "copy.deepcopy", "copy.copy") and len(x.args[1]) == 1
                    else None)
            ok = k in (0, 1) and stamps_arg[k] is not None and \
                same_values(stamps_arg[k]) is same_values(
                    tm.attr(e.data["recv"], "timestamps"))
            ctx.ob("C05.3", e, ok,
                   f"[{cfgname}] index list {k} is applied to the trajectory "
                   f"whose timestamps were argument {k}" if ok else
                   f"[{cfgname}] index list {fmt(ids)} is applied to "
                   f"{fmt(e.data['recv'])}, whose timestamps were not the "
                   f"matching argument", key=f"C05.3:assoc:{cfgname}:ids")
        # C05.4 offset sign
        second = b.get("stamps_2")
        offv = b.get("offset_2")
        from2 = second is not None and tm.mentions_param(second, "traj_2")
        from1 = second is not None and tm.mentions_param(second, "traj_1")
        offp = tm.param("offset_2")
        if from2 and not from1:
            ok = offv is offp
            want = "+offset_2"
        elif from1 and not from2:
            ok = offv is not None and offv.op == "unop" and \
                offv.args[0] == "USub" and offv.args[1] is offp
            want = "-offset_2"
        else:
            ok, want = False, "?"
        ctx.ob("C05.4", mt[0], ok,
               f"[{cfgname}] shifted vector derives from "
               f"{'traj_2' if from2 else 'traj_1'}, offset passed as {want}"
               if ok else
               f"[{cfgname}] the vector that gets the offset derives from "
               f"{'traj_2' if from2 else 'traj_1'} but the offset passed is "
               f"{fmt(offv)} (expected {want}): wrong sign of the time "
               f"offset for this length ordering",
               key=f"C05.4:assoc:{cfgname}:sign", offset=fmt(offv))
        ok = b.get("max_diff") is tm.param("max_diff")
        ctx.ob("C05.4", mt[0], ok, f"[{cfgname}] max_diff is passed through",
               key=f"C05.4:assoc:{cfgname}:max_diff", nontrivial=False)
        # C05.7 zero matches raise
        rets = r.of_kind("return")
        raises = [e for e in r.of_kind("raise")
                  if "SyncException" in (e.data.get("exc_name") or "")]
        zero = [e for e in raises if any(
            c[1] == "Eq" and (tm.is_const(c[2], 0) or tm.is_const(c[0], 0))
            for c in comparisons(e.live))]
        ok = bool(zero) and all(x.idx < rets[-1].idx for x in zero)
        if ok:
            za = [a for a in tm.atoms(zero[0].live) if a.op == "cmp" and
                  a.args[0] == "Eq"]
            ok = any(tm.fold(rets[-1].live,
                             lambda t, z=z: True if t is z else None)
                     is False for z in za)
        ctx.ob("C05.7", fa, ok,
               f"[{cfgname}] zero matches raise SyncException; the normal "
               f"return is unreachable then" if ok else
               f"[{cfgname}] an empty association is not turned into "
               f"SyncException before the return", key=f"C05.7:{cfgname}")
        # ... and *only* then: any other SyncException must be a check of
        # the argument types, not a verdict on the time stamps that
        # pre-empts the tolerance search
        for e in raises:
            if e in zero:
                continue
            ats = [a for a in tm.atoms(e.live) if a.op != "iter"]
            typeish = [a for a in ats if any(
                is_call_to(x, "builtins.isinstance", "builtins.type",
                           "builtins.hasattr") for x in a.walk())]
            searched = [a for a in ats if any(
                x is mt[0].data["result"] for x in a.walk())]
            data = [a for a in ats if a not in typeish and
                    a not in searched and any(
                # stamp *values* (t[0], t[-1], min / max ...); an emptiness
                # test (num_poses == 0, len(t) == 0) is a case of "nothing
                # can match"
                (x.op in ("sub", "elem") and x.args[0].op == "attr" and
                 x.args[0].args[1] == "timestamps") or
                (x.op == "call" and tm.callee_name(x) != "builtins.len" and
                 any(y.op == "attr" and y.args[1] == "timestamps"
                     for y in x.args[1]))
                for x in a.walk())]
            # which data tests does the raise really depend on?
            dep = [a for a in data
                   if tm.fold(e.live, lambda t, a=a: True if t is a else (
                       True if t in typeish and False else None))
                   is not tm.fold(e.live, lambda t, a=a: False if t is a
                                  else None)]
            if not data:
                continue
            ctx.ob("C05.7", e, not dep,
                   f"[{cfgname}] the SyncException at {e.where} does not "
                   f"depend on the time stamps" if not dep else
                   f"[{cfgname}] SyncException at {e.where} is raised on a "
                   f"test of the time stamps ({fmt(dep[0])[:100]}) instead "
                   f"of the result of the tolerance search: inputs with a "
                   f"pair within max_diff are refused",
                   key=f"C05.7:{cfgname}:only-when-empty")
        # C05.9 no bypass
        for e in rets:
            ok = e.idx > max(x.idx for x in reds) and \
                all(tm.fold(e.live, lambda t: None) is not False
                    for _ in (0,))
            ctx.ob("C05.9", e, ok,
                   f"[{cfgname}] the return at {e.where} has passed matching "
                   f"and both reductions" if ok else
                   f"[{cfgname}] return at {e.where} hands out trajectories "
                   f"that did not go through matching_time_indices / "
                   f"reduce_to_ids (pairs are not checked against max_diff)",
                   key="C05.9:return-bypasses-matching")


def _reduce_together(ctx):
    """'k-th poses are unmodified copies, pose and timestamp together' rests
    on reduce_to_ids selecting every materialised view and the timestamps with
    the same ids (C08.1 / C08.3 instances for reduce_to_ids)"""
    from ..core import import_rules
    n = import_rules(ctx, "c08", ("C08.1", "C08.3"), "C05.10",
                     pred=lambda o: "reduce_to_ids" in o.key or
                     "subclass" in o.key or o.key.endswith(":selection")
                     or o.key.endswith(":unconditional")
                     or o.key.endswith(":dropped"))
    ctx.require(n >= 10, "C05.10: reduce_to_ids instances not found")
    # the command-line tools hand the user's tolerance and offset to the
    # association as given: `--t_max_diff 0` (identical stamps only) and an
    # offset of 0 are values, not "unset" (instances of the run() wiring of
    # evo_ape / evo_rpe, C01.5 / C02.7)
    n = import_rules(ctx, "c01", ("C01.5",), "C05.11",
                     pred=lambda o: ":run:associate:" in o.key)
    n += import_rules(ctx, "c02", ("C02.7",), "C05.11",
                      pred=lambda o: ":run:associate:" in o.key)
    ctx.require(n >= 8, "C05.11: association wiring instances not found")


def _iter_source(el: T):
    it = el.args[0]
    if is_call_to(it, "builtins.enumerate") and it.args[1]:
        return it.args[1][0]
    return it


def _appended(t: T):
    """value appended to an accumulator list term"""
    for x in t.walk():
        if x.op == "mut" and x.args[1] == "append" and x.args[2]:
            return x.args[2][0]
    return None


def _component(t: T):
    """the index stream a returned list consists of: the value appended to
    it, or component j of the pairs appended to the list it is an
    unfiltered projection of"""
    if t.op == "comp" and len(t.args[2]) == 1 and not t.args[3]:
        it, lid = t.args[2][0]
        elt = t.args[1]
        if elt.op == "sub" and elt.args[0] is T("elem", it, lid) and \
                tm.is_const(elt.args[1]) and elt.args[1].args[1] in (0, 1):
            pair = _appended(it)
            if pair is not None and pair.op == "tuple" and \
                    len(pair.args) == 2:
                return pair.args[elt.args[1].args[1]]
        return None
    v = _appended(t)
    return None if v is None or v.op == "tuple" else v


VARIANTS = [
    dict(name="returned-pair-swapped", file="evo/core/sync.py",
         find="    traj_1 = traj_short if snd_longer else traj_long\n"
              "    traj_2 = traj_long if snd_longer else traj_short",
         replace="    traj_1 = traj_short\n    traj_2 = traj_long",
         expect="fire", rule="C05.2"),
    dict(name="offset-sign-not-flipped", file="evo/core/sync.py",
         find="        offset_2 if snd_longer else -offset_2)",
         replace="        offset_2)", expect="fire", rule="C05.4"),
    dict(name="pair-list-idiom", file="evo/core/sync.py",
         find="            matching_indices_1.append(index_1)\n"
              "            matching_indices_2.append(index_2)\n",
         replace="            matching_indices_1.append((index_1, index_2))\n"
                 "    matching_indices_2 = [b for _, b in matching_indices_1]\n"
                 "    matching_indices_1 = [a for a, _ in matching_indices_1]\n",
         expect="silent"),
    dict(name="pair-list-swapped", file="evo/core/sync.py",
         find="            matching_indices_1.append(index_1)\n"
              "            matching_indices_2.append(index_2)\n",
         replace="            matching_indices_1.append((index_1, index_2))\n"
                 "    matching_indices_2 = [a for a, _ in matching_indices_1]\n"
                 "    matching_indices_1 = [b for _, b in matching_indices_1]\n",
         expect="fire", rule="C05.3"),
    dict(name="strict-tolerance", file="evo/core/sync.py",
         find="        if diffs[index_2] <= max_diff:",
         replace="        if diffs[index_2] < max_diff:",
         expect="fire", rule="C05.5"),
    dict(name="zero-match-raise-removed", file="evo/core/sync.py",
         find="    if num_matches == 0:\n        raise SyncException(",
         replace="    if False:\n        raise SyncException(",
         expect="fire", rule="C05.7"),
    dict(name="ids-crossed", file="evo/core/sync.py",
         find="    traj_short.reduce_to_ids(matching_indices_short)\n"
              "    traj_long.reduce_to_ids(matching_indices_long)",
         replace="    traj_short.reduce_to_ids(matching_indices_long)\n"
                 "    traj_long.reduce_to_ids(matching_indices_short)",
         expect="fire", rule="C05.3"),
    dict(name="fast-path-bypass", file="evo/core/sync.py",
         find="    snd_longer = len(traj_2.timestamps) > len(traj_1.timestamps)\n",
         replace="    if len(traj_1.timestamps) == len(traj_2.timestamps) and np.allclose(\n"
                 "            traj_1.timestamps, traj_2.timestamps + offset_2, atol=max_diff):\n"
                 "        return copy.deepcopy(traj_1), copy.deepcopy(traj_2)\n"
                 "    snd_longer = len(traj_2.timestamps) > len(traj_1.timestamps)\n",
         expect="fire", rule="C05.9"),
    dict(name="continue-spelling", file="evo/core/sync.py",
         find="        if diffs[index_2] <= max_diff:\n"
              "            matching_indices_1.append(index_1)\n"
              "            matching_indices_2.append(index_2)",
         replace="        if diffs[index_2] > max_diff:\n"
                 "            continue\n"
                 "        matching_indices_1.append(index_1)\n"
                 "        matching_indices_2.append(index_2)",
         expect="silent"),
    dict(name="if-else-spelling", file="evo/core/sync.py",
         find="    traj_long = copy.deepcopy(traj_2) if snd_longer else copy.deepcopy(traj_1)\n"
              "    traj_short = copy.deepcopy(traj_1) if snd_longer else copy.deepcopy(traj_2)",
         replace="    if snd_longer:\n"
                 "        traj_long = copy.deepcopy(traj_2)\n"
                 "        traj_short = copy.deepcopy(traj_1)\n"
                 "    else:\n"
                 "        traj_long = copy.deepcopy(traj_1)\n"
                 "        traj_short = copy.deepcopy(traj_2)",
         expect="silent"),
    dict(name="argmax-instead", file="evo/core/sync.py",
         find="        index_2 = int(np.argmin(diffs))",
         replace="        index_2 = int(np.argmax(diffs))",
         expect="fire", allow_error=True),
]
