"""C16 — computations do not modify their inputs; derived objects are
independent."""
from __future__ import annotations

from typing import Dict, List, Set

from .. import terms as tm
from ..effects import Effect, Summaries, direct_effects, element_roots, roots
from ..interp import Interp
from ..lib import fmt, sweep
from ..progdb import AnalysisError
from ..terms import T

EXPLANATION = """
Effect / ownership analysis (E-EFF). Every function of evo/ is abstractly
interpreted; each attribute store, attribute deletion, element store, in-place
operator, in-place container method and in-place library call is an *effect*
whose target term is mapped to the owners whose storage it may share
(parameters, self, module globals) through an aliasing relation (attribute,
subscript/slice, iteration element, view-returning calls such as
numpy.asarray / .T / .reshape alias; copy.deepcopy, numpy.array, arithmetic,
comprehensions and unknown calls create fresh storage). Mutation summaries are
propagated bottom-up over the resolved call graph to a fixpoint.
C16.1: no function of evo.core / evo.tools has an effect on a parameter other
than the object it operates on (frozen, reasoned allow-list); the read-only
methods of the metric / trajectory classes have no effect on self either.
C16.2: pose matrices are shared between trajectory objects by design, so no
function may store into (an element of) pose storage in place unless that
storage is provably fresh in the function. C16.3: producers of derived objects
(copies, associated / split / merged trajectories) never return an alias of
their source.
"""
UNDECIDED = [
    "bit-for-bit equality is implied by 'no effect' only if the library "
    "effect table (which numpy/pandas/stdlib calls write in place or return "
    "views) is complete — assumption A2",
    "evo.tools.tf_cache needs a ROS installation to import; its "
    "lookup_trajectory sorts its `timestamps` argument in place — reported "
    "as informational only (cannot be shown against running code here)",
]
TRUSTED = ["library effect table in sa/effects.py"]
ASSUMPTIONS = ["A2 library effect table", "A5 no monkey-patching"]
MANIFEST = dict(
    text="Decides, for every function of evo.core and evo.tools (sweep, not "
         "a sample), that it has no write effect on storage reachable from "
         "its arguments — directly or through any evo callee — unless the "
         "argument is the object the operation is documented to modify; "
         "that pose storage shared between trajectory objects is never "
         "written in place; and that split/copy/merge/associate return "
         "objects that do not alias their source. 'No effect' holds for all "
         "inputs and all later histories at once, which tests sample.",
    note="Aliasing is coarse (may-alias through attributes, slices, "
         "elements, view-returning calls); unknown library calls are "
         "assumed to return fresh storage and to be pure unless listed in "
         "the effect table (A2). evo.tools.tf_cache (ROS only) is "
         "informational.",
    technique="effect inference on an AST abstract interpreter + may-alias "
              "root analysis + bottom-up mutation summaries over the "
              "resolved call graph",
)
FLOORS = {"C16.1": 60, "C16.2": 3, "C16.3": 8, "C16.4": 1}

SUBJECT_MODULES = (
    "evo.core.sync", "evo.core.filters", "evo.core.geometry",
    "evo.core.lie_algebra", "evo.core.metrics", "evo.core.result",
    "evo.core.trajectory", "evo.core.units", "evo.tools.file_interface",
    "evo.tools.pandas_bridge", "evo.tools.plot", "evo.tools.user",
    "evo.tools.tf_id", "evo.tools.contextily_helper",
)
INFORMATIONAL_MODULES = ("evo.tools.tf_cache",)

# (function, parameter) that the operation is documented to modify
ALLOWED = {
    # matplotlib objects a plotting function draws into
    "ax": "matplotlib axes: the object the plot function draws into",
    "axarr": "matplotlib axes array drawn into",
    "fig": "matplotlib figure drawn into",
    "fig_or_ax": "matplotlib figure/axes drawn into",
    "axes": "matplotlib axes (mouse binding)",
    "canvas": "matplotlib canvas (event binding)",
    "writer": "opened bag writer: the destination being written",
    "archive": "opened archive being written",
}
ALLOWED_FN = {
    ("evo.tools.settings.merge_dicts", "first"):
        "in-place by contract (returns its first argument)",
    ("evo.tools.contextily_helper.add_api_token", "provider"):
        "documented operation: 'provider to which the API token shall be "
        "added' — the object explicitly being operated on",
}
# methods that must not change the object they are called on
READONLY_METHODS = {
    "get_statistic", "get_all_statistics", "get_result", "check",
    "get_infos", "get_statistics", "__eq__", "__ne__", "__str__",
    "distances", "path_length", "speeds", "num_poses",
    "get_orientations_euler", "pretty_str", "ape_base", "rpe_base",
    "split_time_gaps", "split_distance_gaps", "split_speed_outliers",
    "_jumps",
}
LAZY_GETTERS = {"positions_xyz": "_positions_xyz",
                "orientations_quat_wxyz": "_orientations_quat_wxyz",
                "poses_se3": "_poses_se3"}
POSE_STORAGE = {"_poses_se3", "poses_se3"}
TRAJ_CLASSES = ("evo.core.trajectory.PosePath3D",
                "evo.core.trajectory.PoseTrajectory3D")


def _is_lazy_fill(q: str, ef: Effect) -> bool:
    """store to the attribute a getter is named after, guarded by
    `not hasattr(self, that attribute)`"""
    name = q.rsplit(".", 1)[1]
    if ef.kind == "setitem" and ef.target.op == "attr" and \
            ef.target.args[1].startswith("_") and \
            ef.target.args[1] not in LAZY_GETTERS.values() and \
            ef.event.kind == "setitem" and tm.is_const(
                ef.event.data.get("index")):
        # a memo kept in a private dictionary of the object, filled when
        # the key is absent (C08.7 decides that it is emptied in time)
        key = ef.event.data["index"]
        return tm.fold(ef.event.live, lambda a: True if (
            a.op == "cmp" and a.args[0] == "In" and a.args[1] is key and
            a.args[2] is ef.target) else (False if (
                a.op == "cmp" and a.args[0] == "NotIn" and
                a.args[1] is key and a.args[2] is ef.target) else None)) \
            is False
    attr = LAZY_GETTERS.get(name)
    if attr is None and ef.kind.startswith("setattr:_") and \
            ef.kind[8:] not in LAZY_GETTERS.values():
        # a private memo of a derived quantity, filled when absent like the
        # lazily materialised views (that it is dropped whenever the state
        # it was computed from is rebound is C08.7's cache protocol)
        attr = ef.kind[8:]
    if attr is None or ef.kind != "setattr:" + attr:
        return False
    guard = tm.call(tm.glob("builtins.hasattr"),
                    (ef.target, tm.const(attr)), ())
    held = tm.attr(ef.target, attr)

    def materialised(a: T):
        # `hasattr(self, "_x")` or, with a None sentinel, `self._x is not
        # None`: the fill must be unreachable once the view exists
        if a is guard:
            return True
        if a.op == "cmp" and a.args[0] in ("Is", "IsNot") and \
                a.args[1] is held and a.args[2] is tm.NONE:
            return a.args[0] == "IsNot"
        return None
    return tm.fold(ef.event.live, materialised) is False


def _memo_writes(ctx, results):
    """C16.4: the result of a memoised function (functools.lru_cache / cache)
    is one object shared by all callers and all later calls: an in-place
    write into it (item store, augmented assignment, mutating method)
    changes what every other computation gets — results then depend on the
    call history.  Reading it, or writing into a copy, is fine."""
    n = 0
    for q, r in sorted(results.items()):
        for e in r.events:
            tgt = None
            if e.kind == "setitem":
                tgt = e.data.get("base")
            elif e.kind == "augassign":
                tgt = e.data.get("target")
            elif e.kind == "call" and e.data.get("mutates_recv"):
                tgt = e.data.get("recv")
            if tgt is None:
                continue
            cur = tgt
            for _ in range(10):
                if cur.op in ("sub", "upd", "mut", "attr"):
                    cur = cur.args[0]
                else:
                    break
            if cur.op == "named" and str(cur.args[0]).startswith("memo:"):
                n += 1
                ctx.ob("C16.4", e, False,
                       f"{q}: writes in place into the result of the "
                       f"memoised function {cur.args[0][5:]} — the cached "
                       f"object is shared by all callers, so every later "
                       f"call (of this and of other computations) sees the "
                       f"modified value", key=f"C16.4:memo-write:{q}")
    ctx.ob("C16.4", "evo", n == 0,
           "no in-place write into the result of a memoised function",
           key="C16.4:memo-writes", nontrivial=False)


def _fresh_at_every_call(results, f, p: str) -> bool:
    """every call of the helper passes, for parameter p, a value that
    shares no storage with a parameter or global of the calling function"""
    from ..effects import roots
    sites = 0
    for q2, res in results.items():
        if res.func is f:
            continue
        for e in res.of_kind("call"):
            if e.data.get("target") is not f:
                continue
            b = (e.data.get("bound") or {}).get(p)
            if b is None:
                return False
            caller = res.func
            own_self = caller.cls is not None and not caller.is_static and \
                caller.params and b is tm.param(caller.params[0]) and \
                caller.name not in READONLY_METHODS and \
                caller.name not in LAZY_GETTERS
            # the caller's own receiver, handed on by a method that may
            # modify it (project -> _only_once(self)): the helper acts for
            # its caller, which is judged itself
            if not own_self:
                bu = b
                while bu.op == "named":
                    bu = bu.args[1]
                container = bu.op in ("comp", "list", "tuple", "dict", "set")
                if roots(b) or (container and any(
                        x.op in ("param", "global", "named", "loopvar",
                                 "loopout") for x in b.walk())):
                    return False  # (shares storage with an input; for a
                    #               container built on the spot: conservative,
                    #               its elements may)
            sites += 1
    return sites > 0


def check(ctx):
    from ..known_functions import KNOWN_FUNCTIONS
    prog = ctx.prog
    results = sweep(prog, "plain")
    S = Summaries(prog, results)
    ctx.analysed["functions_swept"] = len(results)
    ctx.section(_memo_writes, ctx, results)

    # ---------------------------------------------------------------- C16.1
    for q in sorted(results):
        f = results[q].func
        if f.module.name not in SUBJECT_MODULES:
            continue
        ctx.analysed_fn(q)
        muts = S.mutated_params(q)
        params = f.params + f.kwonly
        selfname = params[0] if (f.cls is not None and not f.is_static
                                 and params) else None
        for p in params:
            effs = muts.get(p, [])
            if p == selfname:
                if f.name in READONLY_METHODS or f.name in LAZY_GETTERS:
                    bad = [e for e in effs if not _is_lazy_fill(q, e)]
                    ctx.ob("C16.1", f, not bad,
                           f"{q}: read-only operation has no effect on the "
                           f"object it is called on" if not bad else
                           f"{q} modifies the object it only inspects: "
                           f"{bad[0].kind} at {bad[0].event.where}",
                           key=f"C16.1:{q}:self",
                           effects=[repr(e) for e in bad[:3]])
                continue
            if not f.name.startswith("__") \
                    and q not in KNOWN_FUNCTIONS and effs and \
                    _fresh_at_every_call(results, f, p):
                # a function added later (not part of the pinned interface)
                # that, wherever the package calls it, fills an object the
                # caller has just created or acts on the caller's own
                # receiver: not an input of an operation of the property
                ctx.ob("C16.1", f, True,
                       f"{q}({p}): private helper added after the pinned "
                       f"tree, `{p}` is a fresh object at every call site",
                       key=f"C16.1:{q}:{p}:via-callers", nontrivial=False)
                continue
            if p in ALLOWED or (q, p) in ALLOWED_FN:
                ctx.ob("C16.1", f, True,
                       f"{q}({p}): documented target of the operation — "
                       f"{ALLOWED.get(p) or ALLOWED_FN[(q, p)]}",
                       key=f"C16.1:{q}:{p}:allowed", nontrivial=False)
                continue
            ok = not effs
            ctx.ob("C16.1", f, ok,
                   f"{q}: no write effect on argument `{p}`" if ok else
                   f"{q} modifies its argument `{p}`: {effs[0].kind} on "
                   f"{fmt(effs[0].target)[:80]} at {effs[0].event.where}",
                   key=f"C16.1:{q}:{p}",
                   effects=[repr(e) for e in effs[:3]])
    # main_ape.ape / main_rpe.rpe are documented mutators of both
    # trajectories and are not subjects (DESIGN 5/C16.1) — except for the
    # one promise rpe() makes: with support_loop=True the restriction to the
    # pair end poses must not shrink the caller's trajectories ("avoid
    # overwriting if called repeatedly").
    frpe = prog.func("evo.main_rpe.rpe")
    rr = Interp(prog).run(frpe, {"support_loop": tm.const(True)})
    reds = [e for e in rr.of_kind("call")
            if (e.data.get("name") or "").endswith(".reduce_to_ids")]
    ctx.require(len(reds) >= 2, "rpe(): reduce_to_ids calls not found")
    for e in reds:
        rs = roots(e.data["recv"])
        ctx.ob("C16.1", e, not rs,
               "rpe(support_loop=True): the restriction to the pair end "
               "poses acts on a private deep copy" if not rs else
               f"rpe(support_loop=True): reduce_to_ids shrinks the caller's "
               f"trajectory {sorted(rs)}: a second call on the same objects "
               f"(notebook loop) computes its pairs on the already reduced "
               f"trajectories", key="C16.1:rpe:support_loop:copies")

    # ---------------------------------------------------------------- C16.2
    for q in sorted(results):
        if q.startswith("evo.core.transformations"):
            continue
        for ef in S.direct[q]:
            if ef.kind.startswith(("setattr", "delattr")):
                continue
            hit = _pose_storage_path(ef.target, ef.kind)
            if hit is None:
                continue
            fresh = False     # reached pose storage through aliases only
            ctx.ob("C16.2", ef.event, fresh,
                   f"{q}: in-place {ef.kind} on pose storage that is fresh "
                   f"in this function" if fresh else
                   f"{q}: in-place {ef.kind} on (an element of) "
                   f"`{hit}` — pose matrices are shared between trajectory "
                   f"objects (constructor argument, reduce_to_ids, split "
                   f"parts), so this rewrites other objects' poses",
                   key=f"C16.2:{q}:{hit}", target=fmt(ef.target))
    # storage classes: every store to pose storage rebinds a fresh container
    for cq in TRAJ_CLASSES:
        c = prog.cls(cq)
        for mname, m in sorted(c.methods.items()):
            r = results.get(m.qualname)
            if r is None:
                continue
            for e in r.of_kind("setattr"):
                if e.data["name"] != "_poses_se3" or mname == "__init__":
                    continue
                v = e.data["value"]
                fresh_container = not roots(v)
                ctx.ob("C16.2", e, fresh_container,
                       f"{m.qualname}: `_poses_se3` is rebound to a new "
                       f"container" if fresh_container else
                       f"{m.qualname}: `_poses_se3` is rebound to storage "
                       f"shared with {sorted(roots(v))}",
                       key=f"C16.2:{m.qualname}:rebind", value=fmt(v))
    # timestamps: in-place edits are sound only while every writer of
    # `.timestamps` assigns a fresh array
    for cq in TRAJ_CLASSES[1:]:
        c = prog.cls(cq)
        for mname, m in sorted(c.methods.items()):
            r = results.get(m.qualname)
            if r is None:
                continue
            for e in r.of_kind("setattr"):
                if e.data["name"] != "timestamps":
                    continue
                v = e.data["value"]
                rs = {x for x in roots(v) if x != ("param", m.params[0])}
                own_index = v.op == "sub"     # self.timestamps[ids]
                ok = not rs
                ctx.ob("C16.2", e, ok,
                       f"{m.qualname}: `timestamps` is assigned an array the "
                       f"object owns (copy / own selection)" if ok else
                       f"{m.qualname}: `timestamps` shares storage with "
                       f"{sorted(rs)}; evo_traj's in-place time offset would "
                       f"then modify the caller's array",
                       key=f"C16.2:{m.qualname}:timestamps", value=fmt(v))

    # ---------------------------------------------------------------- C16.3
    producers = [
        "evo.core.trajectory.PosePath3D.split_distance_gaps",
        "evo.core.trajectory.PoseTrajectory3D.split_time_gaps",
        "evo.core.trajectory.PoseTrajectory3D.split_distance_gaps",
        "evo.core.trajectory.PoseTrajectory3D.split_speed_outliers",
        "evo.core.trajectory.merge",
        "evo.core.sync.associate_trajectories",
    ]
    for q in producers:
        # what runs under that name: own definition or an inherited one
        f = prog.method(q)[0] if ".Pose" in q else prog.func(q)
        r = results[f.qualname]
        ctx.analysed_fn(f.qualname)
        for (v, live) in r.returns:
            rs = _object_roots(v)
            ok = not rs
            ctx.ob("C16.3", f"{f.file}:{f.lineno} ({q})", ok,
                   f"{q} returns objects that are new (constructor / deep "
                   f"copy / concatenation)" if ok else
                   f"{q} can return an alias of {sorted(rs)}: a later "
                   f"in-place operation on the result changes the source",
                   key=f"C16.3:{q}:alias", value=fmt(v), live=fmt(live))
    # copies used by the CLI / sync are deep copies
    r = results["evo.core.sync.associate_trajectories"]
    for e in r.of_kind("call"):
        tgt = e.data.get("target")
        if tgt is None:
            continue
        for pname in S.mutated_params(tgt.qualname):
            b = (e.data.get("bound") or {}).get(pname)
            if b is None:
                continue
            rs = roots(b)
            ctx.ob("C16.3", e, not rs,
                   f"associate_trajectories: {tgt.name} mutates a private "
                   f"deep copy" if not rs else
                   f"associate_trajectories lets {tgt.name} modify "
                   f"{sorted(rs)}", key=f"C16.3:associate:{tgt.name}",
                   target=fmt(b))


CONTAINER_LEVEL = ("inplace-method.append", "inplace-method.extend",
                   "inplace-method.insert", "inplace-method.pop",
                   "inplace-method.remove", "inplace-method.clear",
                   "inplace-method.sort", "inplace-method.reverse")


def _pose_storage_path(t: T, kind: str = ""):
    """name of the pose-storage attribute if t is (an element / slice of) it"""
    cur = t
    descended = False        # an element of the container is addressed
    for _ in range(12):
        if not isinstance(cur, T):
            return None
        if cur.op in ("sub", "elem"):
            descended = True
        if cur.op == "attr" and cur.args[1] in POSE_STORAGE:
            return cur.args[1]
        if cur.op in ("sub", "elem", "upd", "mut", "attr"):
            cur = cur.args[0]
            continue
        if cur.op == "loopvar":
            cur = cur.args[2]
            continue
        if cur.op == "comp":
            # a new list whose elements are taken from another container:
            # the elements themselves are still shared
            elt = cur.args[1]
            if elt.op in ("elem", "sub", "attr"):
                cur = elt
                continue
            return None
        if cur.op == "call" and (tm.callee_name(cur) in (
                "builtins.list", "builtins.tuple", "copy.copy") or
                (tm.callee_name(cur) or "").endswith(".copy")) and \
                (cur.args[1] or tm.method_recv(cur) is not None):
            # shallow copies share their elements — but growing / shrinking
            # / reordering the copy itself touches no shared object
            if kind in CONTAINER_LEVEL and not descended:
                return None
            cur = cur.args[1][0] if cur.args[1] else tm.method_recv(cur)
            continue
        return None
    return None


def _container_of(t: T):
    cur = t
    for _ in range(12):
        if isinstance(cur, T) and cur.op in ("sub", "elem", "upd"):
            cur = cur.args[0]
        else:
            break
    return cur


def _object_roots(v: T) -> Set:
    """owners a returned object (or an element of a returned list) may be"""
    out = set()
    if v.op in ("list", "tuple"):
        for x in v.args:
            out |= _object_roots(x)
        return out
    if v.op == "comp":
        return _object_roots(v.args[1])
    if v.op == "ite":
        return _object_roots(v.args[1]) | _object_roots(v.args[2])
    return roots(v)


def thorough(ctx):
    prog = ctx.prog
    results = sweep(prog, "plain")
    S = Summaries(prog, results)
    listing = []
    for q in sorted(results):
        m = S.mutated_params(q)
        if m:
            listing.append(f"{q}: {sorted(m)}")
    ctx.note("complete mutator set of the package (function: mutated "
             "parameters): " + "; ".join(listing))
    for q in sorted(results):
        f = results[q].func
        if f.module.name in INFORMATIONAL_MODULES:
            for p, effs in S.mutated_params(q).items():
                if f.cls is not None and f.params and p == f.params[0]:
                    continue
                ctx.note(f"informational (ROS-only module, not importable "
                         f"here): {q} modifies `{p}` — {effs[0].kind} at "
                         f"{effs[0].event.where}")


VARIANTS = [
    dict(name="project-inplace-restored", file="evo/core/trajectory.py",
         find="        projected_poses = [np.array(pose) for pose in self.poses_se3]",
         replace="        projected_poses = self.poses_se3",
         expect="fire", rule="C16.2"),
    dict(name="project-list-copy-only", file="evo/core/trajectory.py",
         find="        projected_poses = [np.array(pose) for pose in self.poses_se3]",
         replace="        projected_poses = [pose for pose in self.poses_se3]",
         expect="fire", rule="C16.2"),
    dict(name="stamps-no-copy", file="evo/core/sync.py",
         find="    stamps_2 = copy.deepcopy(stamps_2)\n", replace="",
         expect="fire", rule="C16.1"),
    dict(name="stamps-asarray", file="evo/core/sync.py",
         find="    stamps_2 = copy.deepcopy(stamps_2)",
         replace="    stamps_2 = np.asarray(stamps_2, dtype=float)",
         expect="fire", rule="C16.1"),
    dict(name="associate-no-deepcopy", file="evo/core/sync.py",
         find="    traj_long = copy.deepcopy(traj_2) if snd_longer else copy.deepcopy(traj_1)",
         replace="    traj_long = traj_2 if snd_longer else copy.deepcopy(traj_1)",
         expect="fire", rule="C16"),
    dict(name="split-returns-self", file="evo/core/trajectory.py",
         find="        gaps = np.where(self.timestamps[1:] - self.timestamps[:-1] > dt)[0]\n"
              "        if len(gaps) == 0:\n            return [copy.deepcopy(self)]",
         replace="        gaps = np.where(self.timestamps[1:] - self.timestamps[:-1] > dt)[0]\n"
                 "        if len(gaps) == 0:\n            return [self]",
         expect="fire", rule="C16.3"),
    dict(name="plot-sorts-input", file="evo/tools/plot.py",
         find="    if cumulative:\n        if x_array is not None:",
         replace="    err_array.sort()\n    if cumulative:\n        if x_array is not None:",
         expect="fire", rule="C16.1"),
    dict(name="merge-results-no-deepcopy", file="evo/core/result.py",
         find="    merged_result = copy.deepcopy(results[0])",
         replace="    merged_result = results[0]", expect="fire", rule="C16.1"),
    dict(name="np-copy-instead-of-deepcopy", file="evo/core/sync.py",
         find="    stamps_2 = copy.deepcopy(stamps_2)",
         replace="    stamps_2 = np.copy(stamps_2)", expect="silent"),
    dict(name="scale-inplace", file="evo/core/trajectory.py",
         find="            self._poses_se3 = [\n"
              "                lie.se3(p[:3, :3], s * p[:3, 3]) for p in self._poses_se3\n"
              "            ]",
         replace="            for p in self._poses_se3:\n"
                 "                p[:3, 3] *= s",
         expect="fire", rule="C16.2"),
    dict(name="timestamps-keep-caller-array", file="evo/core/trajectory.py",
         find="        self.timestamps = np.array(timestamps)",
         replace="        self.timestamps = np.asarray(timestamps)",
         expect="fire", rule="C16.2"),
]
