"""C10 — RPE pair selection (partial: construction, comparisons, dispatch)."""
from __future__ import annotations

from typing import List, Optional, Tuple

from .. import terms as tm
from ..interp import Interp, Result
from ..lib import opaque, comparisons, fmt, index_position, index_source, \
    is_call_to, norm_cmp, per_element, sweep
from ..terms import T, const
from .c11 import _conj, _ite_chain

EXPLANATION = """
Structure of filters.filter_pairs_by_index / _by_path / _by_angle and
metrics.id_pairs_from_delta, specialised per (all_pairs, degrees) and per Unit
member. C10.1 chain by construction: consecutive modes build pairs as
zip(ids, ids[1:]) over a list appended in increasing loop order, or as
(start, end) with start := end in the accept branch — either shape implies
'each pair starts where the previous ended' and i < j. C10.2 frame pairs:
all-pairs emits (i, i+delta) guarded by i+delta < len; consecutive steps
arange(0, len, delta). C10.3 inclusive thresholds (comparison normaliser):
accept iff path >= delta, angle sum >= delta; all-pairs path iff
|d - delta| <= tol; all-pairs angle delta-tol <= a <= delta+tol. C10.4 the
accumulator restarts at zero in the accept branch and nowhere else. C10.5
all-pairs path picks argmin |d - delta| over the poses *after* i (offset i+1
added back). C10.6 dispatch (constant propagation over Unit): frames -> index
filter with int(delta); meters -> path filter with tol = delta*rel_tol;
degrees/radians -> angle filter with degrees = (unit is degrees) and the same
tol; other units raise FilterException; an empty list raises before the
return; all_pairs reaches every callee. C10.7 angle bounds are checked before
any conversion (each bound alone triggers the refusal), and delta and tol are
converted with the same function. C10.8 the vectorised all-pairs angle search,
piece by piece (position algebra on index terms): every pose but the last is a
start pose i; its candidates are exactly the later poses i+1..n-1; R_i is
paired with every candidate; the compared blocks are poses[.][:3, :3]; the
angle is the per-candidate norm of the rotation vector of R_a^-1 R_b; a hit at
candidate position k is reported as the pair (i, i+1+k).
C10.12 (wave 7): --all_pairs / --pairs_from_reference and the other RPE
options reach the constructor parameter of their name (instances of C02.7).
"""
UNDECIDED = [
    "minimality of j and maximality of the chain as semantic facts for all "
    "pose sequences (needs the loop invariant proved — a prover, not this "
    "family)",
    "floating-point behaviour at exactly-hit thresholds",
    "'every i that has such a j is reported once' in all-pairs path mode "
    "beyond the closest-candidate structure",
]
TRUSTED = ["numpy.argmin / arange / argwhere semantics",
           "scipy Rotation algebra in the vectorised all-pairs angle search"]
ASSUMPTIONS = []
MANIFEST = dict(
    text="Partial claim. Decides how pairs are constructed (chain shape), "
         "the comparison operators at every threshold, accumulator reset "
         "discipline, the closest-candidate index arithmetic and the "
         "unit dispatch with its tolerance and degree conversions. These "
         "are necessary conditions of the property; that the greedy loops "
         "select exactly the specified pairs for every pose sequence is a "
         "loop-invariant statement that would need a prover and is NOT "
         "decided.",
    note="Undecided: semantic minimality/maximality of the selection; "
         "floating-point ties.",
    technique="per-configuration constant propagation + comparison "
              "normalisation + loop-carried state (sibling branch) analysis "
              "+ argument provenance",
)
FLOORS = {"C10.1": 3, "C10.2": 2, "C10.3": 4, "C10.4": 2, "C10.5": 1,
          "C10.6": 12, "C10.7": 4, "C10.8": 6, "C10.9": 2,
          "C10.10": 1, "C10.11": 2, "C10.12": 4}

FI = "evo.core.filters.filter_pairs_by_index"
FP = "evo.core.filters.filter_pairs_by_path"
FA = "evo.core.filters.filter_pairs_by_angle"
IDP = "evo.core.metrics.id_pairs_from_delta"
POSES, DELTA, TOL = tm.param("poses"), tm.param("delta"), tm.param("tol")
S1 = T("slice", const(1), tm.NONE, tm.NONE)


def _drop_last(a: T) -> T:
    """X for X[:-1] (zip stops at the shorter operand anyway)"""
    if a.op == "sub" and a.args[1] is T("slice", tm.NONE, const(-1), tm.NONE):
        return a.args[0]
    return a


def _zip_chain(ret: T):
    """ids if ret = [(i, j) for i, j in zip(ids, ids[1:])]"""
    # list(zip(ids, ids[1:])) is the same list of pairs
    if is_call_to(ret, "builtins.list") and len(ret.args[1]) == 1 and \
            is_call_to(ret.args[1][0], "builtins.zip") and \
            len(ret.args[1][0].args[1]) == 2 and not ret.args[1][0].args[2]:
        a, b = ret.args[1][0].args[1]
        a = _drop_last(a)
        return a if b is tm.sub(a, S1) else None
    pe = per_element(ret)
    if pe is None:
        return None
    elt, lid, it, conds = pe
    if conds or not is_call_to(it, "builtins.zip") or len(it.args[1]) != 2:
        return None
    a, b = it.args[1]
    a0 = a
    a = _drop_last(a)
    if b is not tm.sub(a, S1):
        return None
    from ..lib import fuse_elems
    if a is not a0:
        # zip(ids[:-1], ids[1:]): the same pairs as zip(ids, ids[1:])
        if elt is T("tuple", T("elem", a0, lid), T("elem", b, lid)):
            return a
        return None
    if elt is T("tuple", T("elem", a, lid), T("elem", b, lid)) or \
            elt is fuse_elems(T("tuple", T("elem", a, lid),
                                T("elem", b, lid))):
        return a
    return None


def _iff_empty(live: T, lst: T) -> bool:
    """the condition holds exactly when the list is empty, whatever the
    spelling of the test (`not lst`, `len(lst) == 0`, `len(lst) < 1`,
    `lst == []` ...): evaluated for an empty and for a non-empty list"""
    ln = tm.call(tm.glob("builtins.len"), (lst,), ())

    def world(n):
        def env(a):
            if a.op in ("and", "or", "not"):
                return None
            if a is lst:
                return n > 0
            if a.op == "cmp":
                def val(t):
                    if t is ln:
                        return n
                    if tm.is_const(t) and type(tm.const_val(t)) is int:
                        return tm.const_val(t)
                    return None
                if a.args[0] in ("Eq", "NotEq") and a.args[1] is lst and \
                        a.args[2].op == "list" and not a.args[2].args:
                    return (n == 0) == (a.args[0] == "Eq")
                x, y = val(a.args[1]), val(a.args[2])
                if x is not None and y is not None:
                    return {"Lt": x < y, "LtE": x <= y, "Gt": x > y,
                            "GtE": x >= y, "Eq": x == y,
                            "NotEq": x != y}.get(a.args[0])
            return None
        return env
    return tm.fold(live, world(0)) is True and \
        tm.fold(live, world(1)) is False and \
        tm.fold(live, world(7)) is False


def _unreachable_when_empty(live: T, lst: T) -> bool:
    """the condition is false for an empty list (a `return lst` under
    `if lst:`)"""
    def env(a):
        if a.op in ("and", "or", "not"):
            return None
        if a is lst:
            return False
        if a.op == "cmp":
            ln = tm.call(tm.glob("builtins.len"), (lst,), ())
            vals = [0 if t is ln else (tm.const_val(t) if tm.is_const(t) and
                                       type(tm.const_val(t)) is int else None)
                    for t in (a.args[1], a.args[2])]
            if None not in vals:
                x, y = vals
                return {"Lt": x < y, "LtE": x <= y, "Gt": x > y,
                        "GtE": x >= y, "Eq": x == y,
                        "NotEq": x != y}.get(a.args[0])
        return None
    return tm.fold(live, env) is False


def check(ctx):
    prog = ctx.prog
    ctx.analysed_fn(FI, FP, FA, IDP)
    ctx.section(_by_index, ctx, prog)
    ctx.section(_by_path, ctx, prog)
    ctx.section(_by_angle, ctx, prog)
    ctx.section(_dispatch, ctx, prog)
    ctx.section(_callers, ctx, prog)
    from .c11 import accumulated_distances_rule
    ctx.section(accumulated_distances_rule, ctx, "C10.10")
    # the angle-based selection accumulates / compares so3_log_angle of
    # relative rotations: the angle must be the norm of the rotation vector
    # for *every* rotation, also the very small per-frame ones (C09.4)
    from ..core import import_rules
    n = import_rules(ctx, "c09", ("C09.4",), "C10.11")
    ctx.require(n >= 2, "C10.11: rotation-angle instances not found")
    # the modes the property distinguishes (consecutive / all pairs, pairs
    # taken from the reference) are chosen on the command line of evo_rpe:
    # each option must reach the RPE constructor parameter of its name
    # (instances of C02.7, constructor wiring)
    n = import_rules(ctx, "c02", ("C02.7",), "C10.12",
                     pred=lambda o: ":rpe:ctor:" in o.key)
    ctx.require(n >= 4, "C10.12: RPE constructor wiring instances not found")


def _callers(ctx, prog):
    """C10.9: "every i that has such a j is reported" / "a delta for which no
    pair exists is reported as evo's filter error" also bind the callers of
    id_pairs_from_delta: whether pairs exist is decided by the selection, so
    nothing on the way to it may refuse a request on grounds of delta or the
    trajectory's extent (a tolerance band can admit pairs an a-priori test
    rules out)."""
    for q, res in sorted(sweep(prog, "plain").items()):
        calls = res.calls(IDP)
        if not calls:
            continue
        f = res.func
        ctx.analysed_fn(q)
        first = min(e.idx for e in calls)
        pre = [e for e in res.of_kind("raise") if e.idx < first and
               e.depth == 0]
        early = [e for e in pre if
                 "FilterException" in (e.data.get("exc_name") or "") or any(
                     x.op == "attr" and x.args[1] in (
                         "delta", "path_length", "distances", "rel_delta_tol")
                     for a in tm.atoms(e.live) for x in a.walk())]
        ctx.ob("C10.9", early[0] if early else calls[0], not early,
               f"{q}: nothing before the pair selection refuses a request "
               f"because of delta or the path's extent "
               f"({len(pre)} input-shape guards)" if not early else
               f"{q}: raises at {early[0].where} before id_pairs_from_delta "
               f"is asked, depending on delta / the path's extent "
               f"({fmt(early[0].live)[:100]}): requests for which the "
               f"selection would find pairs (e.g. within the tolerance "
               f"band) are refused", key=f"C10.9:{q}:no-early-refusal")
        for e in calls:
            b = e.data["bound"] or {}
            ok = all(k in b for k in ("poses", "delta", "delta_unit",
                                      "rel_tol", "all_pairs"))
            ctx.ob("C10.9", e, ok,
                   f"{q}: delta, unit, tolerance and pairing mode all reach "
                   f"the selection" if ok else
                   f"{q}: id_pairs_from_delta is called without "
                   f"{[k for k in ('poses', 'delta', 'delta_unit', 'rel_tol', 'all_pairs') if k not in b]}"
                   f" (callee defaults apply)",
                   key=f"C10.9:{q}:arguments")


def _by_index(ctx, prog):
    f = prog.func(FI)
    n = tm.call(tm.glob("builtins.len"), (POSES,))
    r = Interp(prog).run(f, {"all_pairs": const(True)})
    pe = per_element(r.ret)
    ok = False
    if pe is not None:
        elt, lid, it, conds = pe
        if is_call_to(it, "builtins.zip") and len(it.args[1]) == 2 and \
                not it.args[2]:
            # for i, j in zip(ids, ids + delta): j is i + delta
            from ..lib import push_elem
            it = it.args[1][0]
            elt = push_elem(elt)
            conds = tuple(push_elem(c) for c in conds)
        i = T("elem", it, lid)
        rng = is_call_to(it, "numpy.arange", "builtins.range") and \
            it.args[1] and it.args[1][0] is n and len(it.args[1]) == 1
        j = T("binop", "Add", i, DELTA)
        guard = [norm_cmp(c) for c in conds]
        ok = rng and elt is T("tuple", i, j) and guard == [(j, "Lt", n)]
    if pe is None:
        ctx.undecidable("C10.2", f, f"frames/all-pairs: the pairs are not "
                        f"built by one comprehension over the pose indices: "
                        f"{fmt(r.ret)[:120]}")
    else:
        ctx.ob("C10.2", f, ok,
               "frames/all-pairs: (i, i+delta) for every i with i+delta < N"
               if ok else f"frames/all-pairs pairs are {fmt(r.ret)}",
               key="C10.2:index:all-pairs", value=fmt(r.ret))
    r = Interp(prog).run(f, {"all_pairs": const(False)})
    ids = _zip_chain(r.ret)
    ok = ids is not None and is_call_to(ids, "numpy.arange",
                                        "builtins.range") and \
        len(ids.args[1]) == 3 and tm.is_const(ids.args[1][0], 0) and \
        ids.args[1][1] is n and ids.args[1][2] is DELTA
    if ids is None:
        ctx.undecidable("C10.1", f, f"frames/consecutive: the pairs are not "
                        f"read as zip(ids, ids[1:]) over one id list: "
                        f"{fmt(r.ret)[:120]}")
        return
    ctx.ob("C10.2", f, ok,
           "frames/consecutive: chain over 0, delta, 2*delta, ..." if ok
           else f"frames/consecutive pairs are {fmt(r.ret)}",
           key="C10.2:index:consecutive", value=fmt(r.ret))
    ctx.ob("C10.1", f, ids is not None,
           "frames/consecutive: pairs = zip(ids, ids[1:]) (each pair starts "
           "where the previous ended)", key="C10.1:index:chain")


def _per_pose_source(it: T) -> bool:
    """the poses, or an array with one entry per pose in pose order
    (np.array([f(p) for p in poses]))"""
    if it is POSES:
        return True
    pe = per_element(it)
    return pe is not None and not pe[3] and pe[2] is POSES


def _strip_prefix(cond: T, prefix: T, lid: int) -> T:
    pl = set(_conj(prefix)) | {T("iter", lid)}
    return tm.mk_and(*[x for x in _conj(cond) if x not in pl])


def _chain(t: T, loop, lid: int, want: T = None):
    """_ite_chain of a loop-carried update, with the `if <no accept>:
    continue` spelling turned round: [(skip, unchanged), (None, new)] reads
    [(prefix and not skip-test, new), (None, unchanged)]"""
    ch = _ite_chain(t)
    if len(ch) == 2 and ch[0][0] is not None and (
            (ch[0][1].op == "loopvar" and ch[1][1].op != "loopvar")
            or want is not None and ch[0][0] is not want):
        pl = set(_conj(loop.live)) | {T("iter", lid)}
        pre = [x for x in _conj(ch[0][0]) if x in pl]
        inner = [x for x in _conj(ch[0][0]) if x not in pl]
        if inner:
            neg = tm.mk_or(*[tm.mk_not(x) for x in inner])
            flipped = [(tm.mk_and(*pre, neg), ch[1][1]), (None, ch[0][1])]
            if want is None or flipped[0][0] is want:
                return flipped
    return ch


def _new_defaults(ctx, f, known):
    """parameters added to a filter later are analysed at their defaults"""
    from ..lib import extra_defaults
    extra = extra_defaults(f, known)
    ctx.require(extra is not None, f"{f.name}: signature changed")
    return extra


def _by_path(ctx, prog):
    f = prog.func(FP)
    extra = _new_defaults(ctx, f, ["poses", "delta", "tol", "all_pairs"])
    from ..lib import fuse_elems, index_comp
    # ---------------- consecutive
    r = Interp(prog).run(f, dict(extra, all_pairs=const(False)))
    ids = _zip_chain(r.ret)
    ok = ids is not None and ids.op == "loopout"
    marks = [x for x in r.ret.walk()
             if is_call_to(x, "numpy.searchsorted", ".searchsorted") and any(
                 is_call_to(y, "numpy.arange", "builtins.range")
                 for a_ in x.args[1] for y in a_.walk()) and any(
                 y is DELTA for a_ in x.args[1] for y in a_.walk())]
    if not ok and marks:
        ctx.ob("C10.1", f, False,
               "meters/consecutive: the ids are looked up at the absolute "
               "multiples delta, 2*delta, ... of the path length "
               f"({fmt(marks[0])[:80]}): the path is not restarted at each "
               "selected pose, so what a selected pose overshoots is carried "
               "into the next pair (pairs shorter than delta)",
               key="C10.1:path:chain")
        return
    ctx.ob("C10.1", f, ok,
           "meters/consecutive: pairs = zip(ids, ids[1:])" if ok else
           f"meters/consecutive: pairs are not a chain over one id list: "
           f"{fmt(r.ret)}", key="C10.1:path:chain", evidence=False)
    if ok:
        name, lid, init, upd = ids.args
        loop = [e for e in r.of_kind("loop") if e.data["lid"] == lid][0]
        ch = _chain(upd, loop, lid)
        acc = [(c, v) for c, v in ch if c is not None]
        def plain_index(x: T) -> T:
            # enumerate(xs, 0): index + 0
            if x.op == "binop" and x.args[0] == "Add" and \
                    tm.is_const(x.args[2], 0) and x.args[1].op == "index":
                return x.args[1]
            return x
        shape = init is T("list") and len(acc) == 1 and \
            acc[0][1].op == "mut" and acc[0][1].args[1] == "append" and \
            len(acc[0][1].args[2]) == 1 and \
            plain_index(acc[0][1].args[2][0]) is T("index", lid) and \
            is_call_to(loop.data["iter"], "builtins.enumerate")
        ok = shape and _per_pose_source(loop.data["iter"].args[1][0])
        if shape and not ok and any(
                x.op == "unknown" or "generator" in fmt(x)[:40]
                for x in loop.data["iter"].args[1][0].walk()):
            # the indices are appended in loop order, but what is iterated
            # (a generator with its own state ...) is not modelled
            ctx.undecidable("C10.1", f, f"meters/consecutive: the loop "
                            f"iterates {fmt(loop.data['iter'])[:80]}, whose "
                            f"elements are not modelled")
            ok = None
        if not shape and (not is_call_to(loop.data["iter"],
                                         "builtins.enumerate") or any(
                is_call_to(x, "numpy.searchsorted", ".searchsorted",
                           "numpy.cumsum")
                for x in upd.walk())):
            # the greedy search is re-implemented (while loop, binary search
            # on running sums ...): not modelled — except for one thing that
            # is decidable on sight: the hit is the *first* pose whose path
            # reaches delta (>=), which in a sorted search of the running
            # sums is side='left'; side='right' finds the first pose beyond
            # delta and skips exact hits
            right = [x for x in upd.walk()
                     if is_call_to(x, "numpy.searchsorted", ".searchsorted")
                     and tm.is_const(dict(x.args[2]).get(
                         "side", x.args[1][2] if len(x.args[1]) > 2
                         else const("left")), "right")]
            appended = [x for x in upd.walk() if x.op == "mut" and
                        x.args[1] == "append" and x.args[2] and any(
                            y is r_ for r_ in right
                            for y in x.args[2][0].walk())]
            if appended:
                ctx.ob("C10.1", f, False,
                       f"meters/consecutive: the appended id is located "
                       f"with np.searchsorted(..., side='right') on the "
                       f"accumulated distances: a pose whose path is "
                       f"*exactly* delta is skipped (the property asks for "
                       f"the first pose that reaches delta, >=)",
                       key="C10.1:path:ids-increasing")
            else:
                ctx.undecidable("C10.1", f, "meters/consecutive: the id "
                                "list is not built by one pass over "
                                "enumerate(poses)")
            ok = None
        if ok is not None:
          ctx.ob("C10.1", f, ok,
               "meters/consecutive: ids are appended in increasing loop "
               "order over all poses" if ok else
               f"meters/consecutive: id list update is {fmt(upd)}",
               key="C10.1:path:ids-increasing", evidence=False)
        if ok:
            cond = _strip_prefix(acc[0][0], loop.live, lid)
            cmps = comparisons(cond)
            okc = len(cmps) == 1 and cmps[0][0] is DELTA and \
                cmps[0][1] == "LtE"
            path = cmps[0][2] if okc else None
            ctx.ob("C10.3", f, okc,
                   "meters/consecutive: accept iff accumulated path >= "
                   "delta (inclusive)" if okc else
                   f"meters/consecutive: accept test is {fmt(cond)}",
                   key="C10.3:path:consecutive")
            # accumulator: path = acc + |p_i - p_prev| ; reset to 0 on accept
            cp = [v for k, v in r.env_all.items()
                  if v.op == "loopout" and v.args[1] == lid and
                  k not in (name,) and path is not None and
                  any(x.op == "loopvar" and x.args[0] == k
                      for x in path.walk()) and
                  tm.is_const(v.args[2])]
            ok4 = False
            detail = "accumulator not found"
            if path is None:
                ctx.undecidable("C10.4", f, "meters/consecutive: the "
                                "accumulated path is not identified (accept "
                                "test not recognised, see C10.3)")
                return
            if len(cp) == 1:
                accv = cp[0]
                chain = _chain(accv.args[3], loop, lid, acc[0][0])
                resets = [(c, v) for c, v in chain if c is not None]
                ok4 = tm.is_const(accv.args[2]) and \
                    accv.args[2].args[1] == 0 and len(resets) == 1 and \
                    resets[0][0] is acc[0][0] and \
                    tm.is_const(resets[0][1]) and \
                    resets[0][1].args[1] == 0 and chain[-1][1] is path
                detail = fmt(accv.args[3])
            ctx.ob("C10.4", f, ok4,
                   "meters/consecutive: the path accumulator restarts at 0 "
                   "exactly when a pose is selected" if ok4 else
                   f"meters/consecutive: after a pose is selected the path "
                   f"accumulator is not reset to zero (carry-over makes "
                   f"later pairs shorter than delta): {detail}",
                   key="C10.4:path:reset")
            # step = |trans(cur) - trans(prev)| with prev := cur every step
            okp = path is not None and path.op == "binop" and \
                path.args[0] == "Add" and any(
                    is_call_to(x, "numpy.linalg.norm") for x in
                    path.args[2].walk())
            TR_ = T("tuple", T("slice", tm.NONE, const(3), tm.NONE),
                    const(3))
            POSE0, CUR = tm.sub(POSES, const(0)), T("elem", POSES, lid)
            nrm = [x for x in path.args[2].walk()
                   if is_call_to(x, "numpy.linalg.norm")] if okp else []
            d = nrm[0].args[1][0] if len(nrm) == 1 and nrm[0].args[1] \
                else None
            # the variable that remembers the previous pose — as the pose
            # itself or as its position (taken inside or before the loop)
            verdict, whyp = None, "step term not recognised"
            for k, pv in r.env_all.items():
                if pv.op != "loopout" or pv.args[1] != lid or k == name:
                    continue
                init_, upd_ = pv.args[2], pv.args[3]
                pvar = T("loopvar", pv.args[0], lid, init_)
                if d is None or not (d.op == "binop" and d.args[0] == "Sub"
                                     and any(z in (pvar, tm.sub(pvar, TR_))
                                             for z in (d.args[1],
                                                       d.args[2]))):
                    continue
                other = d.args[2] if d.args[1] in (
                    pvar, tm.sub(pvar, TR_)) else d.args[1]
                if init_ is POSE0 and upd_ is CUR:
                    # pose carried: |t(cur) - t(prev)|
                    verdict = {d.args[1], d.args[2]} == {
                        tm.sub(CUR, TR_), tm.sub(pvar, TR_)}
                    whyp = f"step is {fmt(d)[:90]}"
                elif index_comp(fuse_elems(init_)) is tm.sub(POSE0, TR_) and \
                        fuse_elems(upd_) is tm.sub(CUR, TR_):
                    # position carried: |p(cur) - p(prev)|
                    verdict = fuse_elems(other) is tm.sub(CUR, TR_)
                    whyp = f"step is {fmt(d)[:90]}"
                else:
                    verdict = False
                    whyp = (f"previous pose starts as {fmt(init_)[:50]} and "
                            f"becomes {fmt(upd_)[:50]}")
                break
            if verdict is None:
                ctx.undecidable("C10.4", f, f"meters/consecutive: {whyp}: "
                                f"{fmt(path)[:120]}")
            else:
                ctx.ob("C10.4", f, verdict,
                       "meters/consecutive: each step adds |t_i - t_(i-1)|, "
                       "the distance to the immediately preceding pose "
                       "(starting from pose 0)" if verdict else
                       f"meters/consecutive: the accumulated quantity is not "
                       f"the travelled path |t_i - t_(i-1)|: {whyp}",
                       key="C10.4:path:step")
    # ---------------- all pairs
    r = Interp(prog).run(f, dict(extra, all_pairs=const(True)))
    apps = [e for e in r.of_kind("call") if e.data.get("mutates_recv")
            and e.data["name"] == ".append"]
    ctx.require(len(apps) == 1, "meters/all-pairs: append not found")
    e = apps[0]
    lid = e.loops[-1]
    loop = [x for x in r.of_kind("loop") if x.data["lid"] == lid][0]
    from ..lib import index_form, linear, push_index
    i = index_form(T("elem", loop.data["iter"], lid))
    if is_call_to(loop.data["iter"], "builtins.enumerate"):
        i = T("index", lid)
    pair = index_form(e.data["args"][0])
    cmps = [(push_index(index_form(a)), r_, push_index(index_form(b_)))
            for a, r_, b_ in comparisons(_strip_prefix(e.live, loop.live,
                                                       lid))]
    ok3 = len(cmps) == 1 and cmps[0][1] == "LtE" and cmps[0][2] is TOL and \
        is_call_to(cmps[0][0], "numpy.abs", "builtins.abs")
    ctx.ob("C10.3", e, ok3,
           "meters/all-pairs: accept iff |path - delta| <= tol (inclusive)"
           if ok3 else f"meters/all-pairs accept test: "
                       f"{[(fmt(a), r_, fmt(b)) for a, r_, b in cmps]}",
           key="C10.3:path:all-pairs",
           evidence=len(cmps) == 1 and cmps[0][2] is TOL and is_call_to(
               cmps[0][0], "numpy.abs", "builtins.abs"))
    # j = (i + 1) + argmin_k | D[i+1+k] - D[i] - delta |, and the tested
    # value is that minimum — decided on linear normal forms, so the order of
    # the subtractions and named intermediate arrays do not matter
    ok5 = None
    why5 = "form not recognised"
    off = {i: 1, 1: 1}
    if pair.op == "tuple" and len(pair.args) == 2 and pair.args[0] is i:
        lj = linear(pair.args[1])
        cands = [k for k in (lj or {}) if k != 1 and k is not i]
        if lj is not None and len(cands) == 1 and lj.get(cands[0]) == 1:
            cand = cands[0]
            rest = {k: v for k, v in lj.items() if k is not cand}
            am = [x for x in cand.walk() if is_call_to(x, "numpy.argmin",
                                                       ".argmin")]
            if len(am) == 1 and (am[0].args[1] or
                                 tm.method_recv(am[0]) is not None):
                arr = am[0].args[1][0] if am[0].args[1] else \
                    tm.method_recv(am[0])
                if is_call_to(arr, "numpy.abs", "builtins.abs",
                              "numpy.absolute", "numpy.fabs"):
                    le = linear(arr.args[1][0])
                    slices = [k for k in (le or {}) if k != 1 and
                              k.op == "sub" and k.args[1].op == "slice"]
                    if le is not None and len(slices) == 1:
                        sl = slices[0]
                        D = sl.args[0]
                        lo = sl.args[1].args[0]
                        want = {sl: 1, tm.sub(D, i): -1, DELTA: -1}
                        acc = is_call_to(D, "evo.core.geometry."
                                            "accumulated_distances")
                        open_end = sl.args[1].args[1] is tm.NONE and \
                            sl.args[1].args[2] is tm.NONE
                        lo_lin = linear(lo) if lo is not tm.NONE else {}
                        ok5 = acc and open_end and le == want and \
                            lo_lin == off and rest == off
                        why5 = (f"search over {fmt(sl)[:60]}, differences "
                                f"{ {fmt(k)[:30] if k != 1 else 1: v for k, v in le.items()} }"
                                f", index offset {rest}")
                        if ok5 and ok3:
                            lt = linear(cmps[0][0].args[1][0])
                            wt = {tm.sub(sl, cand): 1, tm.sub(D, i): -1,
                                  DELTA: -1}
                            ok5 = lt == wt
                            if not ok5:
                                why5 = (f"the tolerance is tested on "
                                        f"{fmt(cmps[0][0])[:100]}, not on "
                                        f"the selected candidate")
    if ok5 is None and pair.op == "tuple" and len(pair.args) == 2:
        j = pair.args[1]
        ss = [x for x in j.walk() if is_call_to(x, "numpy.searchsorted",
                                                ".searchsorted")]
        chooses = any(x.op == "ite" or is_call_to(
            x, "numpy.argmin", ".argmin", "numpy.abs", "builtins.abs")
            for x in j.walk())
        if ss and not chooses:
            # an insertion point is the first pose that *reaches* delta; the
            # closest pose may be the one before it, and nothing compares
            ok5 = False
            why5 = ("np.searchsorted gives the first pose whose path length "
                    "reaches delta; the pose before it can be closer and is "
                    "never compared")
    if ok5 is None:
        ctx.undecidable("C10.5", e, f"meters/all-pairs: candidate selection "
                        f"{why5}: {fmt(pair)[:160]}")
    else:
        ctx.ob("C10.5", e, ok5,
               "meters/all-pairs: j = i+1 + argmin |path(i..k) - delta| over "
               "the poses after i, and the tolerance is tested on that "
               "candidate" if ok5 else
               f"meters/all-pairs: candidate selection deviates ({why5}): "
               f"{fmt(pair)[:160]}",
               key="C10.5:closest-candidate", pair=fmt(pair))


def _by_angle(ctx, prog):
    f = prog.func(FA)
    for deg in (False, True):
        r = Interp(prog).run(f, {"all_pairs": const(False),
                                 "degrees": const(deg)})
        ctx.analysed["configs"] += 1
        conv = (lambda x: tm.call(tm.glob("numpy.deg2rad"), (x,))) if deg \
            else (lambda x: x)
        # bounds check precedes conversion
        raises = [e for e in r.of_kind("raise")
                  if "FilterException" in (e.data.get("exc_name") or "")]
        okb = False
        if raises:
            import math
            top = 180.0 if deg else math.pi
            first_conv = [e for e in r.of_kind("call")
                          if e.data.get("name") == "numpy.deg2rad"]

            def num(t, v):
                while t.op == "named":
                    t = t.args[1]
                if t is DELTA:
                    return v
                if tm.is_const(t) and isinstance(tm.const_val(t),
                                                 (int, float)):
                    return float(tm.const_val(t))
                if t.op == "global" and t.args[0] in ("numpy.pi", "math.pi"):
                    return math.pi
                if t.op == "unop" and t.args[0] == "USub":
                    x = num(t.args[1], v)
                    return None if x is None else -x
                if t.op == "sub" and t.args[0].op in ("list", "tuple") and \
                        tm.is_const(t.args[1]) and isinstance(
                            tm.const_val(t.args[1]), int):
                    try:
                        return num(t.args[0].args[tm.const_val(t.args[1])],
                                   v)
                    except IndexError:
                        return None
                return None

            def refused(v):
                # the refusal condition only compares delta with constants:
                # its truth for a sample value decides a whole interval
                def env(a):
                    if a.op != "cmp":
                        return None
                    x, y = num(a.args[1], v), num(a.args[2], v)
                    if x is None or y is None:
                        return None
                    return {"Lt": x < y, "LtE": x <= y, "Gt": x > y,
                            "GtE": x >= y, "Eq": x == y,
                            "NotEq": x != y}.get(a.args[0])
                # (one raise with both bounds, or one raise per bound)
                vals = [tm.fold(e_.live, env) for e_ in raises]
                if any(x is True for x in vals):
                    return True
                if all(x is False for x in vals):
                    return False
                return None
            inside = [0.0, top / 2, top]
            outside = [-1e-9, -1.0, top * (1 + 1e-12) + 1e-12, top + 1.0]
            okb = all(refused(v) is False for v in inside) and \
                all(refused(v) is True for v in outside) and all(
                c.idx > raises[0].idx for c in first_conv)
        ctx.ob("C10.7", f, okb,
               f"[degrees={deg}] delta outside [0, "
               f"{'180' if deg else 'pi'}] raises before any conversion"
               if okb else f"[degrees={deg}] angle bounds check missing or "
                           f"applied after the conversion",
               key=f"C10.7:bounds:{deg}")
        ret = r.ret
        ok = ret.op == "loopout"
        ctx.require(ok, f"angle/consecutive: pair list not built in a loop "
                    f"(unknown idiom): {fmt(ret)}")
        name, lid, init, upd = ret.args
        loop = [e for e in r.of_kind("loop") if e.data["lid"] == lid][0]
        ch = _chain(upd, loop, lid)
        acc = [(c, v) for c, v in ch if c is not None]
        ok = init is T("list") and len(acc) == 1 and acc[0][1].op == "mut" \
            and acc[0][1].args[1] == "append"
        pair = acc[0][1].args[2][0] if ok else None
        end = T("binop", "Add", T("index", lid), const(1))
        start_ok = False
        if ok and pair.op == "tuple" and len(pair.args) == 2 and \
                pair.args[1] is end and pair.args[0].op == "loopvar":
            sname = pair.args[0].args[0]
            sv = r.env_all.get(sname)
            if sv is not None and sv.op == "loopout":
                sc = _chain(sv.args[3], loop, lid, acc[0][0])
                start_ok = tm.is_const(sv.args[2], 0) and len(sc) == 2 and \
                    sc[0][0] is acc[0][0] and sc[0][1] is end and \
                    sc[1][1].op == "loopvar"
        if not ok:
            ctx.undecidable("C10.1", f, f"[degrees={deg}] angle/consecutive: "
                            f"the update of the pair list is not a single "
                            f"conditional append: {fmt(upd)[:120]}")
            continue
        ctx.ob("C10.1", f, bool(ok and start_ok),
               f"[degrees={deg}] angle/consecutive: pairs are (start, i+1) "
               f"with start := i+1 on accept, start_0 = 0 (chain)"
               if ok and start_ok else
               f"[degrees={deg}] angle/consecutive: pairs {fmt(pair)} do "
               f"not start where the previous pair ended",
               key=f"C10.1:angle:chain")
        if not ok:
            continue
        cond = _strip_prefix(acc[0][0], loop.live, lid)
        cmps = comparisons(cond)
        want_delta = conv(DELTA)
        okc = len(cmps) == 1 and cmps[0][0] is want_delta and \
            cmps[0][1] == "LtE"
        ctx.ob("C10.3", f, okc,
               f"[degrees={deg}] angle/consecutive: accept iff accumulated "
               f"angle >= delta"
               f"{' (delta converted with deg2rad)' if deg else ''}"
               if okc else
               f"[degrees={deg}] angle/consecutive accept test: "
               f"{[(fmt(a), r_, fmt(b)) for a, r_, b in cmps]}",
               key=f"C10.3:angle:consecutive")
        asum = cmps[0][2] if okc else None
        accs = [v for k, v in r.env_all.items() if v.op == "loopout" and
                v.args[1] == lid and asum is not None and any(
                    x.op == "loopvar" and x.args[0] == k
                    for x in asum.walk()) and tm.is_const(v.args[2])
                and k != name]
        ok4 = False
        if asum is None:
            ctx.undecidable("C10.4", f, f"[degrees={deg}] angle/consecutive: "
                            f"the accumulated angle is not identified "
                            f"(accept test not recognised, see C10.3)")
            continue
        if len(accs) == 1:
            chain = _chain(accs[0].args[3], loop, lid, acc[0][0])
            rs = [(c, v) for c, v in chain if c is not None]
            ok4 = accs[0].args[2].args[1] == 0 and len(rs) == 1 and \
                rs[0][0] is acc[0][0] and tm.is_const(rs[0][1]) and \
                rs[0][1].args[1] == 0 and chain[-1][1] is asum
        ctx.ob("C10.4", f, ok4,
               f"[degrees={deg}] angle/consecutive: the angle accumulator "
               f"restarts at 0 exactly on accept" if ok4 else
               f"[degrees={deg}] angle/consecutive: accumulator is not "
               f"reset to zero on accept", key="C10.4:angle:reset")
        # increments: consecutive relative rotation angles
        inc = asum.args[2] if asum is not None and asum.op == "binop" else \
            None
        oki = None
        if inc is not None and inc.op == "elem":
            pe = per_element(inc.args[0])
            if pe is not None and is_call_to(pe[2], "builtins.zip"):
                elt, l2, it2, c2 = pe
                oki = tuple(it2.args[1]) == (POSES, tm.sub(POSES, S1)) and \
                    not c2 and is_call_to(
                        elt, "evo.core.lie_algebra.so3_log_angle") and \
                    is_call_to(elt.args[1][0],
                               "evo.core.lie_algebra.relative_so3")
        if oki is None:
            ctx.undecidable("C10.4", f, f"[degrees={deg}] angle/consecutive: "
                            f"form of the per-step angles not recognised: "
                            f"{fmt(inc)[:120] if inc is not None else None}")
        else:
            ctx.ob("C10.4", f, oki,
                   f"[degrees={deg}] angle/consecutive: increments are the "
                   f"angles between consecutive poses" if oki else
                   f"[degrees={deg}] angle/consecutive: the increments are "
                   f"not the relative rotation angles of consecutive poses "
                   f"(pose i with pose i+1)",
                   key="C10.4:angle:step", evidence=not opaque(inc))

        # ---------------- all pairs
        r = Interp(prog).run(f, {"all_pairs": const(True),
                                 "degrees": const(deg)})
        exts = [e for e in r.of_kind("call") if e.data.get("mutates_recv")
                and e.data["name"] == ".extend"]
        ctx.require(len(exts) == 1, "angle/all-pairs: extend not found")
        comp = exts[0].data["args"][0]
        masks = [x for x in comp.walk() if is_call_to(x, "numpy.argwhere", "numpy.flatnonzero")]
        okm = False
        ev_band = False
        if len(masks) == 1 and masks[0].args[1]:
            m = masks[0].args[1][0]
            parts = (m.args[1], m.args[2]) if m.op == "binop" and \
                m.args[0] == "BitAnd" else None
            if parts is None and is_call_to(m, "numpy.logical_and") and \
                    len(m.args[1]) == 2:
                parts = tuple(m.args[1])
            if parts:
                ns = [norm_cmp(p) for p in parts]
                ev_band = bool(all(ns))
                d, t = conv(DELTA), conv(TOL)
                lo = T("binop", "Sub", d, t)
                hi_ = T("binop", "Add", d, t)
                okm = bool(all(ns)) and {(n[0] is lo, n[1], n[2] is hi_)
                                         for n in ns} == \
                    {(True, "LtE", False), (False, "LtE", True)} and \
                    (ns[0][2] is ns[1][0] if ns[0][0] is lo else
                     ns[1][2] is ns[0][0])
        ctx.ob("C10.3", exts[0], okm,
               f"[degrees={deg}] angle/all-pairs: delta - tol <= angle <= "
               f"delta + tol, both inclusive, delta and tol converted alike"
               if okm else
               f"[degrees={deg}] angle/all-pairs band test deviates: "
               f"{fmt(masks[0].args[1][0]) if masks else fmt(comp)}",
               key=f"C10.3:angle:all-pairs", evidence=ev_band)
        if ev_band or okm:
            ctx.ob("C10.7", f, okm,
                   f"[degrees={deg}] delta and tol are converted with the "
                   f"same function", key=f"C10.7:same-conversion:{deg}")
        if not deg:
            _all_pairs_angle_search(ctx, f, r, exts[0], masks)


def _rot_block(t: T):
    """pose term if t == pose[:3, :3]; ("wrong", text) for another constant
    block; None if not a block access"""
    if t.op != "sub" or t.args[1].op != "tuple" or len(t.args[1].args) != 2:
        return None
    a, b = t.args[1].args
    if a.op != "slice" or b.op != "slice":
        return None
    want = T("slice", tm.NONE, const(3), tm.NONE)
    if a is want and b is want:
        return t.args[0]
    return ("wrong", fmt(t.args[1]))


def _all_pairs_angle_search(ctx, f, r: Result, ext, masks):
    """C10.8: for every start pose i the candidates are *all later poses*
    j = i+1 .. n-1, their angle is that of R_i^-1 R_j (rotation blocks of
    poses i and j), and a hit at position k of the candidate list is reported
    as the pair (i, i+1+k)."""
    def undecided(why):
        ctx.undecidable("C10.8", ext, f"angle/all-pairs search: {why}")
    comp = ext.data["args"][0]
    # `for i, pose_i in enumerate(poses[a:b])`: the counter and the element
    # expressed through the canonical index variable of `for i in range(..)`
    rws = []
    for le in r.of_kind("loop"):
        it_ = le.data["iter"]
        if not (is_call_to(it_, "builtins.enumerate") and it_.args[1]):
            continue
        x = it_.args[1][0]
        start = it_.args[1][1] if len(it_.args[1]) > 1 else dict(
            it_.args[2]).get("start")
        lo, hi = 0, 0
        base = x
        if x.op == "sub" and x.args[1].op == "slice" and \
                x.args[1].args[2] is tm.NONE:
            a_, b_, _ = x.args[1].args
            if a_ is not tm.NONE:
                if not (tm.is_const(a_) and type(a_.args[1]) is int and
                        a_.args[1] >= 0):
                    continue
                lo = a_.args[1]
            if b_ is not tm.NONE:
                if not (tm.is_const(b_) and type(b_.args[1]) is int and
                        b_.args[1] < 0):
                    continue
                hi = b_.args[1]
            base = x.args[0]
        if base is not POSES or (start is not None and
                                 not tm.is_const(start)):
            continue
        n_ = tm.call(tm.glob("builtins.len"), (POSES,), ())
        cnt = n_ if hi - lo == 0 else T("binop", "Sub", n_, const(lo - hi))
        l_ = le.data["lid"]
        k = T("elem", tm.call(tm.glob("builtins.range"), (cnt,), ()), l_)
        cnt_term = T("index", l_) if start is None else \
            T("binop", "Add", T("index", l_), start)
        s_ = 0 if start is None else start.args[1]
        rws.append((cnt_term, k if s_ == 0 else T("binop", "Add", k,
                                                  const(s_))))
        rws.append((T("elem", x, l_), tm.sub(
            POSES, k if lo == 0 else T("binop", "Add", k, const(lo)))))
    if rws:
        def rw(t_: T):
            for a_, b_ in rws:
                if t_ is a_:
                    return b_
            return None
        comp = comp.map(rw)
        masks = [m_.map(rw) for m_ in masks]
    if comp.op != "comp" or len(comp.args[2]) != 1 or comp.args[3] or \
            comp.args[1].op != "tuple" or len(comp.args[1].args) != 2:
        return undecided(f"pair construction not recognised: "
                         f"{fmt(comp)[:100]}")
    first, second = comp.args[1].args
    it3, l3 = comp.args[2][0]
    # outer loop: every pose but (possibly) the last, in order
    op = index_position(first)
    if op is None or op[2] is None:
        return undecided(f"start index {fmt(first)[:80]}")
    lid, off0, cnt0 = op
    ok = off0 == 0 and cnt0 in (0, -1)
    ctx.ob("C10.8", ext, ok,
           "angle/all-pairs: every pose except the last is tried as start "
           "pose, the pair's first index is that pose" if ok else
           f"angle/all-pairs: start poses are k+{off0} for k < n{cnt0:+d} — "
           f"not every pose is tried as the start of a pair",
           key="C10.8:starts")
    # second index: elem of (argwhere(mask) + offset).flatten().tolist()
    src = it3
    while is_call_to(src, ".tolist", ".flatten", ".ravel", "builtins.list"):
        src = tm.method_recv(src) if (tm.callee_name(src) or "")\
            .startswith(".") else src.args[1][0]
    if second is not T("elem", it3, l3) or src.op != "binop" or \
            src.args[0] not in ("Add", "Sub") or len(masks) != 1:
        return undecided(f"end index {fmt(second)[:80]}")
    aw, off = (src.args[1], src.args[2]) if src.args[1] is masks[0] else \
        (src.args[2], src.args[1])
    if aw is not masks[0]:
        return undecided(f"end index {fmt(src)[:80]}")
    want_off = T("binop", "Add", first, const(1))
    ok = src.args[0] == "Add" and off is want_off
    ctx.ob("C10.8", ext, ok,
           "angle/all-pairs: a hit at position k of the candidates is "
           "reported as pose i+1+k" if ok else
           f"angle/all-pairs: hits are reported as argwhere "
           f"{'+' if src.args[0] == 'Add' else '-'} {fmt(off)} — the "
           f"candidates start at pose i+1, so the reported end index is "
           f"shifted", key="C10.8:offset")
    # the angles: norm(rotvec(Ri^-1 Rj)) over the candidate axis
    ang = None
    for p_ in (masks[0].args[1][0].args[1], masks[0].args[1][0].args[2]):
        for q in (p_.args[1], p_.args[2]) if p_.op == "cmp" else ():
            if any(is_call_to(x, ".as_rotvec", ".magnitude")
                   for x in q.walk()):
                ang = q
    if ang is None:
        return undecided("angle computation not found in the band test")
    if is_call_to(ang, "numpy.linalg.norm"):
        ax = dict(ang.args[2]).get("axis")
        rv = ang.args[1][0]
        okn = ax is not None and tm.is_const(ax) and ax.args[1] in (1, -1)
        if not is_call_to(rv, ".as_rotvec"):
            return undecided(f"angle {fmt(ang)[:80]}")
        prod = tm.method_recv(rv)
    elif is_call_to(ang, ".magnitude"):
        okn, prod = True, tm.method_recv(ang)
    else:
        return undecided(f"angle {fmt(ang)[:80]}")
    ctx.ob("C10.8", ext, okn,
           "angle/all-pairs: one angle per candidate (norm of each rotation "
           "vector)" if okn else
           "angle/all-pairs: the rotation-vector norm is not taken per "
           "candidate (axis)", key="C10.8:norm-axis")
    if prod.op != "binop" or prod.args[0] != "Mult":
        return undecided(f"relative rotation {fmt(prod)[:80]}")
    fac = []
    for side in (prod.args[1], prod.args[2]):
        inv = is_call_to(side, ".inv")
        base = tm.method_recv(side) if inv else side
        if not is_call_to(base, "evo.core.lie_algebra.sst_rotation_from_"
                          "matrix") or not base.args[1]:
            return undecided(f"rotation operand {fmt(side)[:80]}")
        arr = base.args[1][0]
        if is_call_to(arr, "numpy.array", "numpy.asarray") and arr.args[1]:
            arr = arr.args[1][0]
        fac.append((inv, arr))
    if sorted(i for i, _ in fac) != [False, True]:
        ctx.ob("C10.8", ext, False,
               "angle/all-pairs: the relative rotation is not R_a^-1 R_b "
               "(exactly one factor must be inverted)",
               key="C10.8:relative-rotation")
        return
    # one factor is pose i repeated, the other the candidates in order
    roles = {}
    for inv, arr in fac:
        if arr.op == "binop" and arr.args[0] == "Mult" and \
                arr.args[1].op == "list" and len(arr.args[1].args) == 1:
            roles["i"] = (arr.args[1].args[0], arr.args[2])
        elif arr.op == "comp" and len(arr.args[2]) == 1 and not arr.args[3]:
            roles["j"] = arr
        else:
            return undecided(f"rotation stack {fmt(arr)[:80]}")
    if set(roles) != {"i", "j"}:
        return undecided("start / candidate rotation stacks not recognised")
    blk_i = _rot_block(roles["i"][0])
    blk_j = _rot_block(roles["j"].args[1])
    cand, l2 = roles["j"].args[2][0]
    if blk_i is None or blk_j is None:
        return undecided("rotation block access not recognised")
    wrong = [b for b in (blk_i, blk_j) if isinstance(b, tuple)]
    # the candidates are either indexed (poses[j] for j in <ids>) or the
    # later poses themselves (for pose in poses[i+1:])
    direct = not wrong and blk_j is T("elem", cand, l2) and \
        cand.op == "sub" and cand.args[0] is POSES and \
        cand.args[1].op == "slice"
    ok = not wrong and blk_i is tm.sub(POSES, first) and \
        (blk_j is tm.sub(POSES, T("elem", cand, l2)) or direct)
    ctx.ob("C10.8", ext, ok,
           "angle/all-pairs: the rotation blocks [:3, :3] of pose i and of "
           "each candidate pose are compared" if ok else
           f"angle/all-pairs: compared blocks are "
           f"{wrong[0][1] if wrong else fmt(roles['i'][0])[:60]} / "
           f"{fmt(roles['j'].args[1])[:60]} — expected poses[i][:3, :3] and "
           f"poses[j][:3, :3]", key="C10.8:blocks")
    # candidates: ids[i+1:] of ids = 0..n-1, and as many copies of R_i
    okc = None
    if direct:
        okc = cand.args[1] is T("slice", want_off, tm.NONE, tm.NONE)
    elif cand.op == "sub" and cand.args[1].op == "slice":
        # ids[i+1:] of ids = 0 .. n-1
        src_ids = index_source(cand.args[0])
        if src_ids is not None and src_ids[1] is not None:
            okc = cand.args[1] is T("slice", want_off, tm.NONE, tm.NONE) \
                and src_ids == (0, 0)
    elif is_call_to(cand, "builtins.range", "numpy.arange") and \
            len(cand.args[1]) == 2 and not cand.args[2]:
        # range(i+1, n)
        stop = cand.args[1][1]
        n_ok = is_call_to(stop, "builtins.len") and stop.args[1] and \
            stop.args[1][0] is POSES
        okc = cand.args[1][0] is want_off and bool(n_ok)
    if okc is None:
        return undecided(f"candidate indices {fmt(cand)[:80]}")
    ctx.ob("C10.8", ext, bool(okc),
           "angle/all-pairs: the candidates of pose i are all later poses "
           "i+1 .. n-1" if okc else
           f"angle/all-pairs: candidates are {fmt(cand)[:90]} — expected "
           f"all poses after i", key="C10.8:candidates")
    rep = roles["i"][1]
    okr = is_call_to(rep, "builtins.len") and rep.args[1] and \
        rep.args[1][0] is cand
    if not okr and okc:
        # the count written out: all later poses are n - (i + 1) many
        from ..lib import linear
        lr = linear(rep)
        ln = linear(tm.call(tm.glob("builtins.len"), (POSES,), ()))
        lo_ = linear(want_off)
        if lr is not None and ln is not None and lo_ is not None:
            want_n = dict(ln)
            for k_, v_ in lo_.items():
                want_n[k_] = want_n.get(k_, 0) - v_
            want_n = {k_: v_ for k_, v_ in want_n.items() if v_}
            okr = {k_: v_ for k_, v_ in lr.items() if v_} == want_n
    ctx.ob("C10.8", ext, bool(okr),
           "angle/all-pairs: R_i is paired with every candidate" if okr else
           f"angle/all-pairs: R_i is repeated {fmt(rep)[:60]} times, not "
           f"once per candidate", key="C10.8:pairing")


def _dispatch(ctx, prog):
    f = prog.func(IDP)
    UNIT = "evo.core.units.Unit"
    uq = prog.cls(UNIT).qualname
    rel = tm.param("rel_tol")
    tolv = T("binop", "Mult", DELTA, rel)
    allp = tm.param("all_pairs")
    table = {
        "frames": (FI, {"poses": POSES, "all_pairs": allp}),
        "meters": (FP, {"poses": POSES, "delta": DELTA, "tol": tolv,
                        "all_pairs": allp}),
        "degrees": (FA, {"poses": POSES, "delta": DELTA, "tol": tolv,
                         "degrees": const(True), "all_pairs": allp}),
        "radians": (FA, {"poses": POSES, "delta": DELTA, "tol": tolv,
                         "degrees": const(False), "all_pairs": allp}),
    }
    from ..lib import extra_defaults
    # (options added later — an absolute tolerance ... — at their defaults)
    xd = extra_defaults(f, ["poses", "delta", "delta_unit", "rel_tol",
                            "all_pairs"], prog)
    ctx.require(xd is not None, "id_pairs_from_delta signature changed")
    for member in prog.enum_members(UNIT):
        r = Interp(prog).run(f, dict(xd, delta_unit=tm.enum(uq, member)))
        ctx.analysed["configs"] += 1
        calls = [e for e in r.of_kind("call") if e.data.get("target") is not
                 None and e.data["target"].module.name == "evo.core.filters"
                 and e.data["target"].cls is None and
                 not e.data.get("inlined")]
        if member not in table:
            raised = any("FilterException" in (e.data.get("exc_name") or "")
                         and tm.is_const(e.live, True)
                         for e in r.of_kind("raise"))
            # a unit the property does not define is either refused or has
            # a filter of its own (whose semantics this property does not
            # cover); it must not fall through, and must not be fed to the
            # frame / path / angle filters in that unit
            own = bool(calls) and not any(
                c.data["target"].qualname in (FI, FP, FA) for c in calls)
            ok = (raised and not calls) or own
            ctx.ob("C10.6", f, ok,
                   (f"delta unit {member}: refused with FilterException"
                    if not own else
                    f"delta unit {member}: handled by its own filter "
                    f"{calls[0].data['target'].name} (outside the units this "
                    f"property defines)") if ok else
                   f"delta unit {member} is not refused",
                   key=f"C10.6:{member}:refused")
            continue
        want_fn, want_args = table[member]
        ok = len(calls) == 1 and calls[0].data["target"].qualname == want_fn
        ctx.ob("C10.6", f, ok,
               f"delta unit {member} -> {want_fn.rsplit('.', 1)[1]}" if ok
               else f"delta unit {member} dispatches to "
                    f"{[c.data['target'].qualname for c in calls]}",
               key=f"C10.6:{member}:callee",
               # (no call of a filter read at all — the filter is taken
               # from a table: no evidence)
               evidence=bool(calls))
        if not ok:
            continue
        b = calls[0].data["bound"]
        for k, w in want_args.items():
            got = b.get(k)
            okk = got is w
            ctx.ob("C10.6", calls[0], okk,
                   f"delta unit {member}: {k} <- {fmt(w)}" if okk else
                   f"delta unit {member}: filter parameter `{k}` receives "
                   f"{fmt(got)}, expected {fmt(w)}",
                   key=f"C10.6:{member}:{k}")
        if member == "frames":
            got = b.get("delta")
            okk = got is not None and is_call_to(got, "builtins.int") and \
                got.args[1][0] is DELTA
            ctx.ob("C10.6", calls[0], okk,
                   "delta unit frames: delta <- int(delta)",
                   key="C10.6:frames:int")
        # no additional refusal: for a supported unit the only raise is the
        # empty-result one
        res = calls[0].data["result"]
        n_ = tm.call(tm.glob("builtins.len"), (POSES,), ())
        di = tm.call(tm.glob("builtins.int"), (DELTA,), ())
        for e in r.of_kind("raise"):
            if tm.is_const(e.live, False):
                continue
            cm = comparisons(e.live)
            if any(c[1] == "Eq" and tm.is_const(c[2], 0) and
                   is_call_to(c[0], "builtins.len") and
                   (c[0].args[1][0] is res or c[0].args[1][0] is r.ret)
                   for c in cm):
                continue
            if _iff_empty(e.live, res) or _iff_empty(e.live, r.ret):
                continue
            di = tm.call(tm.glob("builtins.int"), (DELTA,), ())
            sampled = _frames_no_pair(e.live, n_, di, DELTA) \
                if member == "frames" else None
            if sampled is not None:
                ctx.ob("C10.6", e, sampled,
                       f"delta unit {member}: early refusal only when no "
                       f"pair can exist (delta > len(poses) - 1)"
                       if sampled else
                       f"delta unit {member}: the refusal under "
                       f"{fmt(e.live)[:100]} also hits delta = N - 1, for "
                       f"which the pair (0, N-1) exists (off by one)",
                       key=f"C10.6:{member}:early-refusal")
                continue
            safe = member == "frames" and len(cm) == 1 and (
                cm[0] in ((n_, "LtE", di), (n_, "LtE", DELTA),
                          (T("binop", "Sub", n_, const(1)), "Lt", di),
                          (T("binop", "Sub", n_, const(1)), "Lt", DELTA)))
            wrong = member == "frames" and len(cm) == 1 and (
                cm[0] in ((T("binop", "Sub", n_, const(1)), "LtE", di),
                          (T("binop", "Sub", n_, const(1)), "LtE", DELTA)))
            if safe:
                ctx.ob("C10.6", e, True,
                       f"delta unit {member}: early refusal only when "
                       f"delta >= number of poses (no pair can exist)",
                       key=f"C10.6:{member}:early-refusal")
            elif wrong:
                ctx.ob("C10.6", e, False,
                       f"delta unit {member}: refusal when delta >= "
                       f"len(poses) - 1 is off by one: for delta = N-1 the "
                       f"pair (0, N-1) exists but a filter error is raised",
                       key=f"C10.6:{member}:early-refusal")
            else:
                ctx.undecidable("C10.6", e, f"delta unit {member}: "
                                f"additional refusal under "
                                f"{fmt(e.live)[:160]} — cannot decide "
                                f"whether a pair could still exist")
        # empty list raises before the return
        empt = [e for e in r.of_kind("raise")
                if "FilterException" in (e.data.get("exc_name") or "") and
                (any(c[1] == "Eq" and tm.is_const(c[2], 0) and
                     is_call_to(c[0], "builtins.len") and
                     c[0].args[1][0] is res for c in comparisons(e.live))
                 or _iff_empty(e.live, res))]
        rets = r.of_kind("return")
        # the list that is tested / returned: the filter's, or [] where no
        # pair can exist anyway (a shortcut for a too large frame delta)
        ret_ok = r.ret is res
        if not ret_ok and member == "frames" and r.ret.op == "ite":
            alts = [(r.ret.args[0], r.ret.args[1]),
                    (T("not", r.ret.args[0]), r.ret.args[2])]
            short = [(c, a) for c, a in alts if a is T("list")]
            rest = [a for c, a in alts if a is not T("list")]
            if len(short) == 1 and rest == [res] and _frames_no_pair(
                    short[0][0], n_, di, DELTA) is True:
                ret_ok = True
                res = r.ret
                empt = [e for e in r.of_kind("raise")
                        if "FilterException" in (e.data.get("exc_name")
                                                 or "") and
                        any(c[1] == "Eq" and tm.is_const(c[2], 0) and
                            is_call_to(c[0], "builtins.len") and
                            c[0].args[1][0] is res
                            for c in comparisons(e.live))]
        if not ret_ok and member != "frames" and r.ret.op == "ite" and \
                {a for a in (r.ret.args[1], r.ret.args[2])} == \
                {T("list"), res}:
            # a fail-fast shortcut in front of the search (`[]` where the
            # trajectory is shorter than delta ...): whether the search would
            # have found nothing either (tolerance of the all-pairs mode,
            # rounding of the path length) is arithmetic — not decided
            ctx.undecidable("C10.6", f, f"delta unit {member}: the pair "
                            f"search is skipped under "
                            f"{fmt(r.ret.args[0])[:100]}")
            continue
        ok = bool(empt) and bool(rets) and ret_ok and (
            empt[0].idx < rets[-1].idx or
            all(_unreachable_when_empty(e.live, res) for e in rets))
        ctx.ob("C10.6", f, ok,
               f"delta unit {member}: an empty pair list raises "
               f"FilterException; otherwise the filter's list is returned "
               f"unchanged" if ok else
               f"delta unit {member}: empty result is not turned into "
               f"FilterException (or the list is altered): {fmt(r.ret)}",
               key=f"C10.6:{member}:empty")


def _frames_no_pair(cond: T, n_: T, di: T, delta: T) -> Optional[bool]:
    """does `cond` hold only where a frame delta admits no pair (delta >
    len(poses) - 1)?  Decided on sample values of (len(poses), delta);
    None where the condition cannot be evaluated"""
    from ..lib import const_eval
    hit = False
    for n in range(0, 8):
        for d in range(1, 10):
            env = {n_: n, di: d, delta: d}

            def assign(a, env=env):
                if a.op == "iter":
                    return True
                try:
                    return bool(const_eval(a, env))
                except Exception:
                    return None
            v = tm.fold(cond, assign)
            if v is None:
                return None
            if v:
                hit = True
                if d <= n - 1:
                    return False
    return True if hit else None


VARIANTS = [
    dict(name="allpairs-angle-range-starts", file="evo/core/filters.py",
         find="        start_indices = ids[:-1]",
         replace="        start_indices = range(len(poses) - 1)",
         expect="silent"),
    dict(name="allpairs-angle-inverse-on-candidates",
         file="evo/core/filters.py",
         find="(rotations_i.inv() * rotations_j).as_rotvec()",
         replace="(rotations_j.inv() * rotations_i).as_rotvec()",
         expect="silent"),
    dict(name="allpairs-angle-candidates-include-self",
         file="evo/core/filters.py",
         find="            end_indices = ids[offset:]",
         replace="            end_indices = ids[i:]", expect="fire",
         rule="C10.8"),
    dict(name="allpairs-angle-offset-lost", file="evo/core/filters.py",
         find="& (delta_angles <= upper_bound)) + offset",
         replace="& (delta_angles <= upper_bound)) + i", expect="fire",
         rule="C10.8"),
    dict(name="allpairs-angle-translation-column",
         file="evo/core/filters.py",
         find="np.array([poses[j][:3, :3] for j in end_indices])",
         replace="np.array([poses[j][:3, 1:4] for j in end_indices])",
         expect="fire", rule="C10.8"),
    dict(name="allpairs-angle-lower-bound-sign", file="evo/core/filters.py",
         find="        lower_bound = delta - tol",
         replace="        lower_bound = delta + tol", expect="fire",
         rule="C10.3"),
    dict(name="angle-bounds-never-refuse", file="evo/core/filters.py",
         find="    if delta < bounds[0] or delta > bounds[1]:",
         replace="    if delta < bounds[0] and delta > bounds[1]:",
         expect="fire", rule="C10.7"),
    dict(name="path-strict", file="evo/core/filters.py",
         find="            if current_path >= delta:",
         replace="            if current_path > delta:",
         expect="fire", rule="C10.3"),
    dict(name="path-carry-over", file="evo/core/filters.py",
         find="                ids.append(i)\n                current_path = 0.0",
         replace="                ids.append(i)\n                current_path -= delta",
         expect="fire", rule="C10.4"),
    dict(name="offset-not-added-back", file="evo/core/filters.py",
         find="            id_pairs.append((i, candidate_index + offset))",
         replace="            id_pairs.append((i, candidate_index))",
         expect="fire", rule="C10.5"),
    dict(name="angle-start-not-advanced", file="evo/core/filters.py",
         find="                accumulated_delta = 0.0\n                current_start_index = end_index",
         replace="                accumulated_delta = 0.0",
         expect="fire", rule="C10.1"),
    dict(name="tol-converted-twice", file="evo/core/metrics.py",
         find="        id_pairs = filters.filter_pairs_by_angle(poses, delta, delta * rel_tol,\n"
              "                                                 use_degrees, all_pairs)",
         replace="        tol = np.deg2rad(delta * rel_tol) if use_degrees else delta * rel_tol\n"
                 "        id_pairs = filters.filter_pairs_by_angle(poses, delta, tol,\n"
                 "                                                 use_degrees, all_pairs)",
         expect="fire", rule="C10.6"),
    dict(name="band-exclusive", file="evo/core/filters.py",
         find="            matches = np.argwhere((lower_bound <= delta_angles)\n"
              "                                  & (delta_angles <= upper_bound)) + offset",
         replace="            matches = np.argwhere((lower_bound < delta_angles)\n"
                 "                                  & (delta_angles <= upper_bound)) + offset",
         expect="fire", rule="C10.3"),
    dict(name="frames-guard-le", file="evo/core/filters.py",
         find="        id_pairs = [(i, i + delta) for i in ids if i + delta < len(poses)]",
         replace="        id_pairs = [(i, i + delta) for i in ids if i + delta <= len(poses)]",
         expect="fire", rule="C10.2"),
    dict(name="degrees-flag-inverted", file="evo/core/metrics.py",
         find="        use_degrees = (delta_unit == Unit.degrees)",
         replace="        use_degrees = (delta_unit == Unit.radians)",
         expect="fire", rule="C10.6"),
    dict(name="empty-check-removed", file="evo/core/metrics.py",
         find="    if len(id_pairs) == 0:\n        raise filters.FilterException(",
         replace="    if False:\n        raise filters.FilterException(",
         expect="fire", rule="C10.6"),
    dict(name="sides-swapped", file="evo/core/filters.py",
         find="            if current_path >= delta:",
         replace="            if delta <= current_path:", expect="silent"),
]
